"""printer_facts.py — reads src/io.cxx (clang JSON AST) and summarises the pretty printer:

  * its visitor classes, their bases and the visit(const X&) handlers each defines;
  * for every handler, the dispatches it performs, resolved through the helper structs (xpr_expr, xpr_type, ...),
    the operator<< functions and the function templates of io.cxx down to (visitor class, node path) pairs, where the
    path says which node is dispatched: [] = the SAME node the handler was called for, ["name"] = its name, ...;
  * guards that refuse instead of dispatching (re-entry guard on Printer::parenthesizing, self-type-id guard);
  * the net change of Printer::indent() along every path through every function;
  * stream manipulators and address-dependent operations used anywhere in the file.

Fails closed: a construct it does not understand is reported as an ("opaque", what) action, which the Coq side treats as a
possible same-node dispatch to every entry point."""
import json
import re

WRAP = {"ImplicitCastExpr", "ParenExpr", "MaterializeTemporaryExpr", "ExprWithCleanups", "CXXBindTemporaryExpr", "ConstantExpr",
        "CXXStaticCastExpr", "CXXConstCastExpr"}
MANIPS = {"oct", "hex", "dec", "setw", "setfill", "setprecision", "showbase", "uppercase", "boolalpha", "fixed", "scientific",
          "left", "right", "internal", "showpos", "setbase", "setiosflags", "resetiosflags", "noshowbase", "nouppercase"}


def kids(n, kind=None):
    return [c for c in (n.get("inner") or []) if isinstance(c, dict) and (kind is None or c.get("kind") == kind)]


def strip(e):
    while e.get("kind") in WRAP and kids(e):
        e = kids(e)[0]
    return e


def walk(n):
    yield n
    for c in kids(n):
        yield from walk(c)


def short_type(t):
    t = re.sub(r"\bconst\b|\bstruct\b|&|\*", "", t).strip()
    t = t.replace("ipr::", "")
    return t.strip()


class PrinterFacts:
    def __init__(self, objs):
        self.objs = objs
        self.by_id = {}
        self.parent_class = {}          # method id -> class name
        self.funcs = {}                 # id -> function node (with body)
        self.func_name = {}
        self.classes = {}               # class name -> {"bases": [...], "handlers": {S: func id}}
        self.helper_ops = {}            # helper struct name -> operator<< function id
        self.ctor_fields = {}           # helper struct name -> list of (param types, {field: (param idx, path)})
        self.node_ops = {}              # operator<< over node types: param type -> func id
        self._index()

    # ---- indexing -------------------------------------------------------------------------------------------
    def _index(self):
        def rec(n, path):
            k = n.get("kind")
            if "id" in n and k and k.endswith("Decl"):
                self.by_id.setdefault(n["id"], n)
            name = n.get("name")
            here = path
            if k in ("CXXRecordDecl", "ClassTemplateDecl", "NamespaceDecl", "FunctionDecl", "CXXMethodDecl", "ClassTemplateSpecializationDecl",
                     "FunctionTemplateDecl", "CXXConstructorDecl"):
                here = path + [name or "?"]
            if k == "CXXRecordDecl" and n.get("completeDefinition"):
                cname = self._class_name(path, n)
                methods = [c for c in kids(n) if c.get("kind") == "CXXMethodDecl" and c.get("name") == "visit"]
                if methods:
                    bases = [short_type(b["type"].get("desugaredQualType", b["type"]["qualType"])) for b in n.get("bases", [])]
                    ent = self.classes.setdefault(cname, {"bases": bases, "handlers": {}})
                    for m in methods:
                        ps = kids(m, "ParmVarDecl")
                        if ps and self._has_body(m):
                            S = short_type(ps[0]["type"]["qualType"])
                            ent["handlers"][S] = m["id"]
                            self.funcs[m["id"]] = m
                            self.func_name[m["id"]] = "%s::visit(%s)" % (cname, S)
                            self.parent_class[m["id"]] = cname
                        elif ps:
                            # declared here, defined out of line: filled in below
                            ent["handlers"].setdefault(short_type(ps[0]["type"]["qualType"]), m["id"])
                            self.parent_class[m["id"]] = cname
                # constructors of helper structs
                ctors = [c for c in kids(n) if c.get("kind") == "CXXConstructorDecl" and not c.get("isImplicit")]
                fields = [c for c in kids(n) if c.get("kind") == "FieldDecl" and c.get("name")]
                if fields:
                    lst = []
                    for c in ctors:
                        ps = kids(c, "ParmVarDecl")
                        pidx = {p["id"]: i for i, p in enumerate(ps)}
                        fmap = {}
                        for init in kids(c, "CXXCtorInitializer"):
                            fld = init.get("anyInit", {}).get("name")
                            if fld and kids(init):
                                r = self.path_of(kids(init)[0], {pid: ("param", i) for pid, i in pidx.items()})
                                if r and r[0][0] == "param":
                                    fmap[fld] = (r[0][1], r[1])
                        lst.append(([short_type(p["type"]["qualType"]) for p in ps], fmap))
                    if not ctors:
                        # aggregate: fields initialised positionally
                        lst.append(([short_type(f["type"]["qualType"]) for f in fields], {f["name"]: (i, []) for i, f in enumerate(fields)}))
                    self.ctor_fields[cname] = lst
            if k in ("FunctionDecl", "CXXMethodDecl") and self._has_body(n):
                self.funcs[n["id"]] = n
                if n["id"] not in self.func_name:
                    self.func_name[n["id"]] = "%s %s" % ("::".join(x for x in path if x), n.get("name")) + "(" + n.get("type", {}).get("qualType", "") + ")"
                if k == "CXXMethodDecl" and n.get("name") == "visit":
                    # out-of-line definition of a handler
                    prev = n.get("previousDecl")
                    pd = self.by_id.get(n.get("parentDeclContextId"))
                    if pd is not None:
                        cname = self._qualified(pd)
                        ps = kids(n, "ParmVarDecl")
                        if ps and cname in self.classes:
                            S = short_type(ps[0]["type"]["qualType"])
                            self.classes[cname]["handlers"][S] = n["id"]
                            self.func_name[n["id"]] = "%s::visit(%s)" % (cname, S)
                            self.parent_class[n["id"]] = cname
                if n.get("name") == "operator<<":
                    ps = kids(n, "ParmVarDecl")
                    if len(ps) == 2:
                        t = short_type(ps[1]["type"].get("desugaredQualType", ps[1]["type"]["qualType"]))
                        self.helper_ops.setdefault(t, n["id"])
            for c in kids(n):
                rec(c, here)
        for o in self.objs:
            rec(o, [])
        # classes declared inside a function, by bare name
        self.local_classes = {c.split("::")[-1]: c for c in self.classes if c.startswith("operator<<::")}

    def _qualified(self, rec):
        # name of a class by its declaration node (nested namespaces are found through the recorded paths)
        for cname in self.classes:
            if cname.split("::")[-1] == rec.get("name"):
                return cname
        return rec.get("name")

    def _class_name(self, path, n):
        parts = [p for p in path if p and p not in ("ipr", "?")]
        # local classes of a function: qualify by the function so that names stay unique
        return "::".join(parts + [n.get("name") or "?"])

    @staticmethod
    def _has_body(n):
        return any(c.get("kind") == "CompoundStmt" for c in kids(n))

    @staticmethod
    def _body(n):
        return [c for c in kids(n) if c.get("kind") == "CompoundStmt"][0]

    # ---- paths ----------------------------------------------------------------------------------------------
    def path_of(self, e, env):
        """(root, [accessors]) of the node an expression denotes, or None"""
        e = strip(e)
        k = e.get("kind")
        if k == "DeclRefExpr":
            rid = e.get("referencedDecl", {}).get("id")
            if rid in env:
                r = env[rid]
                return (r, []) if not isinstance(r, tuple) or len(r) != 2 or not isinstance(r[1], list) else r
            return None
        if k == "UnaryOperator" and e.get("opcode") in ("*", "&") and kids(e):
            return self.path_of(kids(e)[0], env)
        if k == "CXXMemberCallExpr" and kids(e):
            f = strip(kids(e)[0])
            if f.get("kind") == "MemberExpr" and kids(f):
                base = self.path_of(kids(f)[0], env)
                if base is None:
                    return None
                return (base[0], base[1] + [f.get("name", "?")])
            return None
        if k == "MemberExpr" and kids(e):
            base = self.path_of(kids(e)[0], env)
            if base is None:
                return None
            return (base[0], base[1] + ["." + e.get("name", "?")])
        if k == "CallExpr" and kids(e):
            f = strip(kids(e)[0])
            nm = f.get("referencedDecl", {}).get("name")
            if nm in ("as", "view") and len(kids(e)) == 2:
                return self.path_of(kids(e)[1], env)
            return None
        if k == "CXXOperatorCallExpr" and len(kids(e)) >= 2:
            f = strip(kids(e)[0])
            nm = f.get("referencedDecl", {}).get("name")
            if nm in ("operator*", "operator->"):
                b = self.path_of(kids(e)[1], env)
                return None if b is None else (b[0], b[1] + ["*"])
            return None
        if k in ("CXXConstructExpr", "CXXFunctionalCastExpr") and len(kids(e)) == 1:
            return self.path_of(kids(e)[0], env)
        return None

    @staticmethod
    def int_of(e):
        e = strip(e)
        if e.get("kind") == "IntegerLiteral":
            return int(e.get("value"))
        if e.get("kind") == "UnaryOperator" and e.get("opcode") == "-" and kids(e):
            v = PrinterFacts.int_of(kids(e)[0])
            return None if v is None else -v
        if e.get("kind") in ("CXXConstructExpr", "CXXFunctionalCastExpr") and len(kids(e)) == 1:
            return PrinterFacts.int_of(kids(e)[0])
        if e.get("kind") == "CXXDefaultArgExpr":
            return 0
        return None

    # ---- actions of one function body ------------------------------------------------------------------------
    def summarise(self, fid):
        f = self.funcs[fid]
        ps = kids(f, "ParmVarDecl")
        env = {}
        for i, p in enumerate(ps):
            env[p["id"]] = (("param", i), [])
        actions = []
        self._stmt(self._body(f), env, actions)
        return actions

    def _class_of_type(self, t):
        t = short_type(t)
        return t

    def _stmt(self, n, env, out):
        k = n.get("kind")
        if k == "DeclStmt":
            for v in kids(n, "VarDecl"):
                init = kids(v)
                if init:
                    r = self.path_of(init[-1], env)
                    if r is not None:
                        env[v["id"]] = r
                    else:
                        env[v["id"]] = (("local", v.get("name"), short_type(v.get("type", {}).get("qualType", ""))), [])
                        self._expr(init[-1], env, out)
                else:
                    env[v["id"]] = (("local", v.get("name"), short_type(v.get("type", {}).get("qualType", ""))), [])
            return
        if k == "IfStmt":
            ks = kids(n)
            txt = json.dumps(ks[0] if ks else {})
            cond_idx = 0
            # `if (auto x = ...; cond)` / `if (auto x = ...)`: declarations first
            for i, c in enumerate(ks):
                if c.get("kind") == "DeclStmt":
                    self._stmt(c, env, out)
            whole = json.dumps(n)
            if '"name": "parenthesizing"' in whole and '"opcode": "=="' in whole:
                out.append(("guard_reentry",))
                return
            if '"name": "physically_same"' in whole and '"name": "type_expr"' in whole and ("Missing_overrider" in whole or "CXXThrowExpr" in whole):
                out.append(("guard_selfname",))
                return
            branches = [c for c in ks if c.get("kind") != "DeclStmt"]
            # condition, then, else
            if branches:
                self._expr(branches[0], env, out)
            alts = []
            for b in branches[1:]:
                sub = []
                self._stmt(b, dict(env), sub)
                alts.append(sub)
            out.append(("branch", alts))
            return
        if k in ("CompoundStmt",):
            for c in kids(n):
                self._stmt(c, env, out)
            return
        if k in ("ForStmt", "WhileStmt", "DoStmt", "CXXForRangeStmt"):
            sub = []
            for c in kids(n):
                if c.get("kind") in ("DeclStmt", "CompoundStmt", "SwitchStmt") or c.get("kind", "").endswith("Stmt"):
                    self._stmt(c, dict(env), sub)
                else:
                    self._expr(c, env, sub)
            out.append(("loop", sub))
            return
        if k == "SwitchStmt" or k == "CaseStmt" or k == "DefaultStmt":
            sub_alts = []
            for c in kids(n):
                sub = []
                if c.get("kind", "").endswith("Stmt"):
                    self._stmt(c, dict(env), sub)
                else:
                    self._expr(c, env, sub)
                sub_alts.append(sub)
            out.append(("loop", [a for s in sub_alts for a in s]))
            return
        if k == "ReturnStmt":
            for c in kids(n):
                self._expr(c, env, out)
            return
        if k in ("BreakStmt", "NullStmt", "ContinueStmt"):
            return
        self._expr(n, env, out)

    def _expr(self, e, env, out):
        k = e.get("kind")
        if k in WRAP or k in ("CXXDefaultArgExpr",):
            for c in kids(e):
                self._expr(c, env, out)
            return
        if k == "CXXThrowExpr":
            out.append(("refuse",))
            return
        if k == "LambdaExpr":
            # body of a lambda handed to sequenced(): its parameter is an element of a sub-sequence
            for c in walk(e):
                if c.get("kind") == "CXXMethodDecl" and c.get("name") == "operator()" and self._has_body(c):
                    env2 = dict(env)
                    for p in kids(c, "ParmVarDecl"):
                        env2[p["id"]] = (("elem",), [])
                    sub = []
                    self._stmt(self._body(c), env2, sub)
                    out.append(("loop", sub))
                    return
            return
        if k == "DeclRefExpr":
            nm = e.get("referencedDecl", {}).get("name")
            if nm in MANIPS and e.get("referencedDecl", {}).get("kind") == "FunctionDecl":
                out.append(("manip", nm))
            return
        if k == "BinaryOperator":
            op = e.get("opcode")
            ks = kids(e)
            if op in ("<", ">", "<=", ">=") and any(strip(c).get("type", {}).get("qualType", "").rstrip().endswith("*") for c in ks):
                out.append(("address_use", "pointer comparison " + op))
            if op == "=" and ks and strip(ks[0]).get("kind") == "MemberExpr" and strip(ks[0]).get("name") == "parenthesizing":
                out.append(("mark_reentry",))
                return
            for c in ks:
                self._expr(c, env, out)
            return
        if k in ("CStyleCastExpr", "CXXReinterpretCastExpr") and e.get("castKind") == "PointerToIntegral":
            out.append(("address_use", "pointer to integer cast"))
        if k in ("CXXConstructExpr", "CXXFunctionalCastExpr", "CXXTemporaryObjectExpr", "InitListExpr"):
            t = short_type(e.get("type", {}).get("qualType", ""))
            if k == "CXXFunctionalCastExpr" and kids(e) and strip(kids(e)[0]).get("kind") in ("CXXConstructExpr", "InitListExpr"):
                self._expr(kids(e)[0], env, out)
                return
            if t in ("indentation", "newline_and_indent"):
                v = self.int_of(kids(e)[0]) if kids(e) else 0
                out.append(("indent", v if v is not None else "?"))
                return
            if t in ("newline", "needs_newline", "Missing_overrider") or t.startswith(("Token_helper", "xpr_identifier")):
                return
            if t in self.helper_ops and t.startswith("xpr_"):
                args = [self.path_of(a, env) for a in kids(e)]
                ct = e.get("ctorType", {}).get("qualType", "")
                m = re.match(r"void \((.*)\)", ct)
                ptypes = [short_type(x) for x in m.group(1).split(",")] if m and m.group(1) else None
                out.append(("helper", t, args, ptypes))
                for a in kids(e):
                    if self.path_of(a, env) is None:
                        self._expr(a, env, out)
                return
            for c in kids(e):
                self._expr(c, env, out)
            return
        if k == "CXXMemberCallExpr" and kids(e):
            f = strip(kids(e)[0])
            args = kids(e)[1:]
            if f.get("kind") == "MemberExpr":
                nm = f.get("name")
                if nm == "accept" and kids(f):
                    recv = self.path_of(kids(f)[0], env)
                    vis = None
                    a = strip(args[0]) if args else {}
                    if a.get("kind") == "UnaryOperator" and kids(a) and strip(kids(a)[0]).get("kind") == "CXXThisExpr":
                        vis = "this"
                    elif a.get("kind") == "DeclRefExpr":
                        raw = a.get("type", {}).get("qualType", "")
                        vis = short_type(raw)
                        if not raw.startswith("ipr::") and vis in self.local_classes:
                            vis = self.local_classes[vis]
                    out.append(("accept", recv, vis))
                    return
                if nm == "visit":
                    md = self.by_id.get(f.get("referencedMemberDecl"))
                    S = None
                    cls = None
                    if md is not None:
                        ps = kids(md, "ParmVarDecl")
                        S = short_type(ps[0]["type"]["qualType"]) if ps else None
                        cls = self.parent_class.get(md["id"])
                    # a qualified call (xpr::Name::visit(...)) is not virtual
                    qualified = strip(kids(f)[0]).get("kind") != "CXXThisExpr" or "UncheckedDerivedToBase" in json.dumps(kids(f)[0])[:400]
                    out.append(("visit", cls if qualified else None, S, self.path_of(args[0], env) if args else None))
                    return
                if nm == "indent" and args:
                    v = self.int_of(args[0])
                    out.append(("indent", v if v is not None else "?"))
                    return
                if nm == "operator()" and "Missing_overrider" in json.dumps(f)[:600]:
                    out.append(("refuse",))
                    return
                # a call of another member function of the printer that has a body in this file (a helper a handler
                # was split into): its effects are the handler's effects
                md = f.get("referencedMemberDecl")
                if md in self.funcs and nm not in ("visit", "accept") and strip(kids(f)[0]).get("kind") == "CXXThisExpr":
                    out.append(("call", md, [self.path_of(a, env) for a in args]))
                    return
            for c in kids(e):
                self._expr(c, env, out)
            return
        if k == "CXXOperatorCallExpr" and kids(e):
            f = strip(kids(e)[0])
            rd = f.get("referencedDecl", {})
            nm = rd.get("name")
            args = kids(e)[1:]
            if nm == "operator()" and "Missing_overrider" in json.dumps(e)[:3000]:
                out.append(("refuse",))
                return
            if nm == "operator<<" and len(args) == 2:
                self._expr(args[0], env, out)
                rhs = args[1]
                fid = rd.get("id")
                fn = self.funcs.get(fid) or self.by_id.get(fid)
                ptype = None
                if fn is not None:
                    ps = kids(fn, "ParmVarDecl")
                    if len(ps) == 2:
                        ptype = short_type(ps[1]["type"].get("desugaredQualType", ps[1]["type"]["qualType"]))
                r = self.path_of(rhs, env)
                if r is not None and ptype is not None and not ptype.startswith(("xpr_", "Token_helper", "indentation", "newline", "needs_newline")):
                    # pp << node  (Identifier, Logogram, Expr_list, Parameter_list, Sequence<Type>, Udt<T>, Translation_unit ...)
                    out.append(("stream", fid if fid in self.funcs else None, ptype, r))
                    return
                self._expr(rhs, env, out)
                return
            for c in args:
                self._expr(c, env, out)
            return
        if k == "CallExpr" and kids(e):
            f = strip(kids(e)[0])
            rd = f.get("referencedDecl", {})
            fid = rd.get("id")
            args = kids(e)[1:]
            if fid in self.funcs and rd.get("name") not in ("token", "as", "view"):
                out.append(("call", fid, [self.path_of(a, env) for a in args]))
                for a in args:
                    if strip(a).get("kind") == "LambdaExpr":
                        self._expr(strip(a), env, out)
                return
            if rd.get("name") in MANIPS:
                out.append(("manip", rd.get("name")))
            for c in args:
                self._expr(c, env, out)
            return
        for c in kids(e):
            if c.get("kind", "").endswith("Stmt") and c.get("kind") not in ("DeclStmt",):
                self._stmt(c, env, out)
            elif c.get("kind") == "DeclStmt":
                self._stmt(c, env, out)
            else:
                self._expr(c, env, out)

    # ---- resolution to (visitor class, path) dispatches ---------------------------------------------------------
    def flatten(self, fid, bind, depth=0, seen=()):
        """dispatch facts of function fid with its parameters bound: bind[i] = path (list) relative to the handler's node,
        a dict field->path for a helper-struct parameter, or None (not a node).  Returns a list of flat actions."""
        if depth > 12 or fid in seen:
            return [("opaque", "recursion through " + self.func_name.get(fid, "?"))]
        if not hasattr(self, "_sum"):
            self._sum = {}
        if fid not in self._sum:
            self._sum[fid] = self.summarise(fid)
        return self._flat_list(self._sum[fid], fid, bind, depth, seen + (fid,))

    def _sub(self, r, bind):
        """path (root, accessors) -> path relative to the handler's node, or None / ("elem")"""
        if r is None:
            return None
        root, acc = r
        if root[0] == "param":
            b = bind.get(root[1])
            if b is None:
                return None
            if isinstance(b, dict):
                # helper struct parameter: first accessor is the field
                if acc and acc[0].startswith(".") and acc[0][1:] in b:
                    base = b[acc[0][1:]]
                    return None if base is None else base + acc[1:]
                return None
            return b + acc
        if root[0] == "elem":
            return ["#elem"] + acc
        if root[0] == "local":
            return None
        return None

    def _flat_list(self, actions, fid, bind, depth, seen):
        out = []
        for a in actions:
            t = a[0]
            if t in ("refuse", "guard_reentry", "guard_selfname", "mark_reentry", "manip", "address_use"):
                out.append(a)
            elif t == "indent":
                out.append(a)
            elif t == "branch":
                out.append(("branch", [self._flat_list(s, fid, bind, depth, seen) for s in a[1]]))
            elif t == "loop":
                out.append(("loop", self._flat_list(a[1], fid, bind, depth, seen)))
            elif t == "accept":
                p = self._sub(a[1], bind)
                vis = a[2]
                out.append(("dispatch", vis if vis else "?", p if p is not None else ["#unknown"]))
            elif t == "visit":
                p = self._sub(a[3], bind)
                out.append(("visit", a[1] or "this", a[1] is None, a[2] or "?", p if p is not None else ["#unknown"]))
            elif t == "helper":
                H, args = a[1], a[2]
                op = self.helper_ops.get(H)
                if op is None or op not in self.funcs:
                    out.append(("opaque", "helper without operator<<: " + H))
                    continue
                argp = [self._sub(x, bind) for x in args]
                # pick the constructor with this arity
                cands = [c for c in self.ctor_fields.get(H, []) if len(c[0]) >= len(args)] or self.ctor_fields.get(H, [])
                if len(a) > 3 and a[3]:
                    exact = [c for c in cands if c[0] == a[3]]
                    if exact:
                        cands = exact
                fmap = {}
                if cands:
                    # prefer the constructor whose first parameter type matches the handler argument's static type is not
                    # known here; all constructors of one helper agree on which field a node argument initialises
                    for ptypes, fm in cands:
                        for fld, (pi, pth) in fm.items():
                            if pi < len(argp) and argp[pi] is not None:
                                fmap.setdefault(fld, argp[pi] + pth)
                    # constructors that differ in the path (xpr_name(Decl) takes d.name()): keep both possibilities
                    alts = []
                    for ptypes, fm in cands:
                        m2 = {}
                        for fld, (pi, pth) in fm.items():
                            if pi < len(argp) and argp[pi] is not None:
                                m2[fld] = argp[pi] + pth
                        if m2 and m2 not in alts:
                            alts.append(m2)
                    if len(alts) > 1:
                        out.append(("branch", [self.flatten(op, {1: m2}, depth + 1, seen) for m2 in alts]))
                        continue
                out.extend(self.flatten(op, {1: fmap}, depth + 1, seen))
            elif t == "stream":
                f2, ptype, r = a[1], a[2], a[3]
                p = self._sub(r, bind)
                if f2 is None:
                    out.append(("opaque", "operator<< over " + ptype + " defined elsewhere"))
                else:
                    out.extend(self.flatten(f2, {1: p}, depth + 1, seen))
            elif t == "call":
                f2, args = a[1], a[2]
                b2 = {i: self._sub(x, bind) for i, x in enumerate(args)}
                out.extend(self.flatten(f2, b2, depth + 1, seen))
            elif t == "opaque":
                out.append(a)
        return out

    # ---- net indentation ---------------------------------------------------------------------------------------
    @staticmethod
    def net_indent(flat):
        """set of possible net changes of Printer::indent() along the paths of a flat action list ('?' = unknown)"""
        sums = {0}
        for a in flat:
            if a[0] == "indent":
                if a[1] == "?":
                    return {"?"}
                sums = {s + a[1] for s in sums}
            elif a[0] == "branch":
                alts = [PrinterFacts.net_indent(b) for b in a[1]]
                if len(a[1]) == 1:
                    alts.append({0})                      # if without else
                if not alts:
                    continue
                if any("?" in x for x in alts):
                    return {"?"}
                new = set()
                for s in sums:
                    for alt in alts:
                        for d in alt:
                            new.add(s + d)
                sums = new
            elif a[0] == "loop":
                body = PrinterFacts.net_indent(a[1])
                if body != {0}:
                    return {"?"}
        return sums


def dispatches(flat, acc=None):
    """all dispatch/visit/refuse/guard facts of a flat list, branches merged (flow-insensitive), in order"""
    acc = [] if acc is None else acc
    for a in flat:
        if a[0] in ("branch",):
            for b in a[1]:
                dispatches(b, acc)
        elif a[0] == "loop":
            dispatches(a[1], acc)
        elif a[0] in ("dispatch", "visit", "refuse", "guard_reentry", "guard_selfname", "mark_reentry", "opaque", "manip", "address_use"):
            acc.append(a)
    return acc


def literal_table(pf):
    """the switch in xpr::Primary_expr::visit(const Literal&): for each case value (None = default) what is written.
    Pieces: ["str", [bytes]] a string or character literal; ["raw"] the byte itself (static_cast<char>(*cur));
    ["num"] the byte's value as a number (static_cast<int>(*cur)); ["manip", name]; ["other", kind] anything else."""
    fid = None
    for f, nm in pf.func_name.items():
        if nm == "xpr::Primary_expr::visit(Literal)":
            fid = f
    if fid is None:
        return None
    sw = [m for m in walk(pf.funcs[fid]) if m.get("kind") == "SwitchStmt"]
    if len(sw) != 1:
        return None
    body = [c for c in kids(sw[0]) if c.get("kind") == "CompoundStmt"]
    if not body:
        return None

    def value_of(c):
        for m in walk(c):
            if m.get("kind") == "CharacterLiteral":
                return int(m.get("value"))
            if m.get("kind") == "IntegerLiteral":
                return int(m.get("value"))
        return None

    def pieces_of(e, out):
        e2 = e
        while e2.get("kind") in WRAP and e2.get("kind") != "CXXStaticCastExpr" and kids(e2):
            e2 = kids(e2)[0]
        k = e2.get("kind")
        if k == "CXXOperatorCallExpr" and len(kids(e2)) == 3:
            pieces_of(kids(e2)[1], out)
            pieces_of(kids(e2)[2], out)
            return
        if k == "MemberExpr" and e2.get("name") == "pp":
            return
        if k == "StringLiteral":
            v = e2.get("value", "")
            m = re.match(r'^(?:u8)?"(.*)"$', v, re.S)
            if m:
                bs = list(bytes(m.group(1), "utf-8").decode("unicode_escape").encode("latin1"))
                out.append(["str", bs])
                return
        if k == "CharacterLiteral":
            out.append(["str", [int(e2.get("value"))]])
            return
        if k in ("CXXStaticCastExpr", "CStyleCastExpr", "CXXFunctionalCastExpr"):
            t = e2.get("type", {}).get("qualType", "")
            inner = json.dumps(e2)
            if '"name": "cur"' in inner or "cur" in inner:
                if t == "char":
                    out.append(["raw"])
                    return
                if t in ("int", "unsigned int", "unsigned", "long"):
                    out.append(["num"])
                    return
        if k == "DeclRefExpr" and e2.get("referencedDecl", {}).get("name") in MANIPS:
            out.append(["manip", e2["referencedDecl"]["name"]])
            return
        out.append(["other", str(k)])

    rows = []
    pending = []          # case values waiting for their statements (fall-through labels)
    cur = None

    def flush():
        nonlocal cur
        if cur is not None:
            rows.append(cur)
            cur = None

    def stmt(n):
        nonlocal cur, pending
        k = n.get("kind")
        if k in ("CaseStmt", "DefaultStmt"):
            flush()
            val = None if k == "DefaultStmt" else value_of(kids(n)[0])
            pending.append(val)
            sub = kids(n)[-1] if kids(n) else None
            if sub is not None and sub.get("kind") in ("CaseStmt", "DefaultStmt"):
                stmt(sub)
                return
            cur = {"values": pending, "pieces": []}
            pending = []
            if sub is not None and sub.get("kind") != "BreakStmt" and not (k == "CaseStmt" and sub is kids(n)[0]):
                pieces_of(sub, cur["pieces"])
            return
        if k == "BreakStmt":
            flush()
            return
        if cur is not None:
            pieces_of(n, cur["pieces"])
    for c in kids(body[0]):
        stmt(c)
    flush()
    return rows


def extract(objs):
    pf = PrinterFacts(objs)
    classes = {}
    handlers = []
    for cname, c in pf.classes.items():
        classes[cname] = {"bases": c["bases"]}
        for S, fid in c["handlers"].items():
            if fid not in pf.funcs:
                continue
            flat = pf.flatten(fid, {0: []})
            net = pf.net_indent(flat)
            handlers.append({"class": cname, "static": S, "actions": [list(a) for a in dispatches(flat)],
                             "net_indent": sorted(net, key=str)})
    # entry points: helper struct -> (visitor class, path) pairs its operator<< dispatches to
    entries = {}
    for H, fid in pf.helper_ops.items():
        if not H.startswith("xpr_") or fid not in pf.funcs:
            continue
        alts = pf.ctor_fields.get(H, [])
        fm = {}
        for ptypes, m in alts:
            for fld, (pi, pth) in m.items():
                if pi == 0:
                    fm.setdefault(fld, pth)
        flat = pf.flatten(fid, {1: fm})
        entries[H] = {"actions": [list(a) for a in dispatches(flat)], "net_indent": sorted(pf.net_indent(flat), key=str)}
    # file-wide facts
    manips, addr = [], []
    for fid in pf.funcs:
        if fid not in getattr(pf, "_sum", {}):
            pf._sum = getattr(pf, "_sum", {})
            pf._sum[fid] = pf.summarise(fid)

        def scan(lst):
            for a in lst:
                if a[0] == "manip":
                    manips.append((pf.func_name.get(fid, "?"), a[1]))
                elif a[0] == "address_use":
                    addr.append((pf.func_name.get(fid, "?"), a[1]))
                elif a[0] == "branch":
                    for b in a[1]:
                        scan(b)
                elif a[0] == "loop":
                    scan(a[1])
        scan(pf._sum[fid])
    # where source locations are read, and where the print_locations switch is tested
    loc_reads, gate_tests, unordered = [], [], []
    for fid, fn in pf.funcs.items():
        txt_nodes = list(walk(fn))
        for m in txt_nodes:
            if m.get("kind") == "MemberExpr" and m.get("name") in ("source_location", "unit_location"):
                loc_reads.append(pf.func_name.get(fid, "?"))
            if m.get("kind") == "MemberExpr" and m.get("name") == "print_locations":
                gate_tests.append(pf.func_name.get(fid, "?"))
            t = m.get("type", {}).get("qualType", "") if isinstance(m.get("type"), dict) else ""
            if m.get("kind") == "CXXForRangeStmt":
                rt = json.dumps([c.get("type", {}) for c in walk(m) if c.get("kind") == "VarDecl" and c.get("name", "").startswith("__range")])
                if "disambiguation_map_type" in rt or re.search(r"std::(unordered_)?(map|set|multimap|multiset)<[^,>]*\*", rt):
                    unordered.append((pf.func_name.get(fid, "?"), "iteration over a container ordered by addresses"))
            if m.get("kind") == "CXXMemberCallExpr" and kids(m):
                f0 = strip(kids(m)[0])
                if f0.get("kind") == "MemberExpr" and f0.get("name") in ("begin", "cbegin", "rbegin") and kids(f0) and \
                        strip(kids(f0)[0]).get("kind") == "MemberExpr" and strip(kids(f0)[0]).get("name") == "disambiguation_map":
                    unordered.append((pf.func_name.get(fid, "?"), "iteration over the disambiguation map (ordered by addresses)"))
            if m.get("kind") in ("VarDecl", "FieldDecl") and re.search(r"std::(unordered_)?(map|set)<[^,>]*\*", t):
                unordered.append((pf.func_name.get(fid, "?"), "container keyed by a pointer: " + t[:80]))
    # calls between functions, to see that every location read sits under a gate test
    try:
        lit = literal_table(pf)
    except Exception as ex:            # fail closed: no table
        lit = None
    return {"literal": lit, "classes": classes, "handlers": handlers, "entries": entries, "manips": sorted(set(manips)),
            "address_uses": sorted(set(addr) | set(unordered)), "location_reads": sorted(set(loc_reads)), "location_gates": sorted(set(gate_tests))}


if __name__ == "__main__":
    import pickle
    import sys
    objs = pickle.load(open(sys.argv[1], "rb"))
    f = extract(objs)
    print(json.dumps(f, indent=1)[:int(sys.argv[2]) if len(sys.argv) > 2 else 6000])
