#!/usr/bin/env python3
"""cxx_facts.py — the fact extractor (translator) of the ipr verification.

Re-derives, from /repo's *current* sources, the parts of the code that are
tables or one-line definitions, and writes them as
   <out>/facts.json          (for the Python orchestration and harness generation)
   <coqgen>/Gen*.v           (Coq data the property theorems are stated over)

Two sources of facts:
  (a) clang 14's JSON AST of src/impl.cxx, src/traversal.cxx, src/io.cxx
      (resolved overloads, bodies, initialisers, storage classes);
  (b) a generated C++ probe compiled with the real compiler (g++) against
      <ipr/interface>, printing class relations (category code of each
      interface class, nearest abstract super-category) by template deduction.

It is a *fact* extractor, not a C++ -> Coq compiler: it recognises a closed list
of shapes and fails closed (unrecognised => emitted as `Untranslatable`, which a
Coq obligation rejects).
"""
import json
import os
import re
import subprocess
import sys
import concurrent.futures as cf

REPO = os.environ.get("IPR_REPO", "/repo")


# ---------------------------------------------------------------------------
# AST loading
# ---------------------------------------------------------------------------
def dump_ast(tu, std="-std=c++20"):
    src = tu if os.path.isabs(tu) else os.path.join(REPO, "src", tu)
    cmd = ["clang++", std, "-I", os.path.join(REPO, "include"), "-fsyntax-only", "-w",
           "-Xclang", "-ast-dump=json", "-Xclang", "-ast-dump-filter=ipr", src]
    p = subprocess.run(cmd, stdout=subprocess.PIPE, stderr=subprocess.PIPE, text=True)
    if p.returncode != 0:
        raise RuntimeError("clang failed on %s:\n%s" % (tu, p.stderr[-3000:]))
    s = p.stdout
    dec = json.JSONDecoder()
    i, n, out = 0, len(s), []
    while i < n:
        while i < n and s[i].isspace():
            i += 1
        if i >= n:
            break
        o, j = dec.raw_decode(s, i)
        out.append(o)
        i = j
    return out


def walk(n, path=()):
    yield n, path
    for c in n.get("inner", []) or []:
        if isinstance(c, dict):
            yield from walk(c, path + (n.get("name") or "#" + str(n.get("kind")),))


def children(n, kind=None):
    return [c for c in (n.get("inner") or []) if isinstance(c, dict) and (kind is None or c.get("kind") == kind)]


def has_body(n):
    return any(c.get("kind") == "CompoundStmt" for c in children(n))


def body_of(n):
    for c in children(n):
        if c.get("kind") == "CompoundStmt":
            return c
    return None


def params_of(n):
    return [c["type"]["qualType"] for c in children(n, "ParmVarDecl")]


def qt(n):
    t = n.get("type", {})
    return t.get("desugaredQualType", t.get("qualType", ""))


def strip_ref(t):
    t = t.strip()
    t = re.sub(r"^const\s+", "", t)
    t = re.sub(r"\s*[&*]+$", "", t)
    return t.strip()


def short(t):
    return strip_ref(t).replace("ipr::", "")


class Ast:
    def __init__(self, objs):
        self.objs = objs
        self.ids = {}
        self.paths = {}
        self.nodes = []
        for o in objs:
            for n, p in walk(o):
                self.nodes.append((n, p))
                if "id" in n and n.get("kind", "").endswith("Decl"):
                    # prefer the definition
                    old = self.ids.get(n["id"])
                    if old is None:
                        self.ids[n["id"]] = n
                        self.paths[n["id"]] = p

    def find(self, kind, name=None):
        for n, p in self.nodes:
            if n.get("kind") == kind and (name is None or n.get("name") == name):
                yield n, p


def strings_in(n):
    acc = []
    for m, _ in walk(n):
        if m.get("kind") == "StringLiteral":
            acc.append(m.get("value"))
    return acc


def unquote(lit):
    # u8"..." with C escapes; the tables contain plain ASCII only
    m = re.match(r'^(?:u8)?"(.*)"$', lit, re.S)
    if not m:
        return None
    s = m.group(1)
    return bytes(s, "utf-8").decode("unicode_escape")


# ---------------------------------------------------------------------------
# individual fact groups
# ---------------------------------------------------------------------------
def categories(ast):
    for n, p in ast.find("EnumDecl", "Category_code"):
        cs = [c["name"] for c in children(n, "EnumConstantDecl")]
        if cs:
            return cs
    return []


def iface_names(ast):
    """complete, non-template class definitions directly in namespace ipr"""
    names = []
    for o in ast.objs:
        if o.get("kind") != "NamespaceDecl" or o.get("name") != "ipr":
            continue
        for n in children(o, "CXXRecordDecl"):
            if n.get("completeDefinition") and n.get("name") and n["name"] not in names:
                names.append(n["name"])
    return names


def visitor_decl(ast):
    """ipr::Visitor: parameter class of each visit overload, pure or not."""
    for n, p in ast.find("CXXRecordDecl", "Visitor"):
        if not n.get("completeDefinition") or p != ("ipr",):
            continue
        out = {}
        for m in children(n, "CXXMethodDecl"):
            if m.get("name") == "visit":
                ps = params_of(m)
                out[short(ps[0])] = {"pure": bool(m.get("pure")), "virtual": bool(m.get("virtual"))}
        if "Node" in out:        # the node visitor (not Attribute::Visitor and the like)
            return out
    return {}


def visitor_forwards(ast):
    """definitions of ipr::Visitor::visit(const X&) in traversal.cxx -> resolved target."""
    vis_ids = set()
    for n, p in ast.find("CXXRecordDecl", "Visitor"):
        if p == ("ipr",):
            vis_ids.add(n.get("id"))
    out = {}
    for n, p in ast.nodes:
        if n.get("kind") != "CXXMethodDecl" or n.get("name") != "visit" or not has_body(n):
            continue
        if n.get("parentDeclContextId") not in vis_ids:
            continue
        par = short(params_of(n)[0])
        targets = []
        calls = 0
        for m, _ in walk(body_of(n)):
            if m.get("kind") in ("CXXMemberCallExpr", "CallExpr", "CXXOperatorCallExpr"):
                calls += 1
            if m.get("kind") == "MemberExpr" and m.get("name") == "visit":
                d = ast.ids.get(m.get("referencedMemberDecl"))
                if d is not None:
                    targets.append(short(params_of(d)[0]))
                else:
                    targets.append("?")
        # statements that do something: a declaration of a local reference / pointer that calls nothing (`const Node& node = r;`) only
        # names the upcast and is not counted
        def inert(st):
            return st.get("kind") == "DeclStmt" and not any(m.get("kind") in ("CXXMemberCallExpr", "CallExpr", "CXXOperatorCallExpr", "CXXConstructExpr", "CXXThrowExpr")
                                                           for m, _ in walk(st))
        stmts = [c for c in children(body_of(n)) if not inert(c)]
        out[par] = {"targets": targets, "stmts": len(stmts)}
    return out


def accept_instances(ast):
    """every instantiated impl::Node<T>::accept and other accept(Visitor&) overriders
    -> parameter class of the visit overload it statically selects"""
    out = []
    for n, p in ast.nodes:
        if n.get("kind") != "CXXMethodDecl" or n.get("name") != "accept" or not has_body(n):
            continue
        ps = params_of(n)
        if len(ps) != 1 or strip_ref(ps[0]) != "ipr::Visitor":
            continue
        owner = None
        m = re.match(r"_ZNK3ipr(.*)6acceptERNS_7VisitorE", n.get("mangledName", ""))
        targets = []
        this_types = []
        for c, _ in walk(body_of(n)):
            if c.get("kind") == "MemberExpr" and c.get("name") == "visit":
                d = ast.ids.get(c.get("referencedMemberDecl"))
                targets.append(short(params_of(d)[0]) if d is not None else "?")
            if c.get("kind") == "CXXThisExpr":
                this_types.append(strip_ref(c["type"]["qualType"]))
        this = this_types[0] if this_types else "?"
        inner = re.findall(r"ipr::(?:impl::)?(\w+)(?![\w:<])", this)
        out.append({"this": this, "iface": inner[-1] if inner else "?", "targets": targets,
                    "mangled": n.get("mangledName", "")})
    return out


def word_tables(ast):
    out = {}
    for name in ("known_words", "std_specifiers", "std_qualifiers", "builtins"):
        for n, p in ast.find("VarDecl", name):
            init = [c for c in children(n) if c.get("kind") == "InitListExpr"]
            if not init:
                continue
            rows = []
            for row in children(init[0]):
                ss = strings_in(row)
                rows.append(unquote(ss[0]) if ss else None)
            out[name] = {"rows": rows, "constexpr": bool(n.get("constexpr")),
                         "type": n["type"]["qualType"]}
            break
    # Fundamental enumerators (same order as builtins)
    for n, p in ast.find("EnumDecl", "Fundamental"):
        out["fundamental"] = [c["name"] for c in children(n, "EnumConstantDecl")]
        break
    # single constants: symbol constants and linkages
    consts = {}
    for cname in ("false_cst", "true_cst", "default_cst", "delete_cst", "c_link", "cxx_link"):
        for n, p in ast.find("VarDecl", cname):
            ss = strings_in(n)
            enum_refs = [m.get("referencedDecl", {}).get("name") for m, _ in walk(n)
                         if m.get("kind") == "DeclRefExpr" and m.get("referencedDecl", {}).get("kind") == "EnumConstantDecl"]
            consts[cname] = {"word": unquote(ss[0]) if ss else None, "type_builtin": enum_refs[0] if enum_refs else None,
                             "constexpr": bool(n.get("constexpr"))}
            break
    out["constants"] = consts
    return out


def lexicon_accessors(ast):
    """impl::Lexicon members with an empty parameter list whose body is one return:
    classify what they return."""
    out = {}
    for n, p in ast.nodes:
        if n.get("kind") != "CXXMethodDecl" or not has_body(n):
            continue
        mn = n.get("mangledName", "")
        if not mn.startswith("_ZNK3ipr4impl7Lexicon"):
            continue
        if params_of(n):
            continue
        b = body_of(n)
        stmts = children(b)
        desc = {"kind": "Untranslatable"}
        if len(stmts) == 1 and stmts[0].get("kind") == "ReturnStmt":
            r = stmts[0]
            ss = strings_in(r)
            enums = [m.get("referencedDecl", {}).get("name") for m, _ in walk(r)
                     if m.get("kind") == "DeclRefExpr" and m.get("referencedDecl", {}).get("kind") == "EnumConstantDecl"]
            vars_ = [m.get("referencedDecl", {}).get("name") for m, _ in walk(r)
                     if m.get("kind") == "DeclRefExpr" and m.get("referencedDecl", {}).get("kind") == "VarDecl"]
            fns = [m.get("referencedDecl", {}).get("name") for m, _ in walk(r)
                   if m.get("kind") == "DeclRefExpr" and m.get("referencedDecl", {}).get("kind") == "FunctionDecl"]
            if "specifier_basis" in vars_ and ss:
                desc = {"kind": "SpecifierWord", "word": unquote(ss[0])}
            elif "qualifier_basis" in vars_ and ss:
                desc = {"kind": "QualifierWord", "word": unquote(ss[0])}
            elif "builtin" in fns and enums:
                desc = {"kind": "Builtin", "enum": enums[0]}
            elif vars_ and vars_[0] in ("false_cst", "true_cst", "nullptr_cst", "default_cst", "delete_cst", "c_link", "cxx_link"):
                desc = {"kind": "Constant", "var": vars_[0]}
        out[n["name"]] = desc
    return out


def cmp_sites(ast):
    """every instantiated rb_tree container<T>/chain<Node>::insert/find: the comparator
    type and the operator() overload the comparison `comp(data, key)` resolves to."""
    sites = []
    for n, p in ast.nodes:
        if n.get("kind") != "ClassTemplateSpecializationDecl" or n.get("name") not in ("container", "chain"):
            continue
        if not n.get("completeDefinition"):
            continue
        targs = children(n, "TemplateArgument")
        elem = targs[0]["type"]["qualType"] if targs else "?"
        for m in children(n, "FunctionTemplateDecl"):
            if m.get("name") not in ("insert", "find"):
                continue
            for inst in children(m, "CXXMethodDecl"):
                if not has_body(inst):
                    continue
                ps = params_of(inst)
                key = ps[0]
                comp = ps[1] if len(ps) > 1 else "?"
                resolved = []
                for c, _ in walk(body_of(inst)):
                    if c.get("kind") == "CXXOperatorCallExpr":
                        # callee is the first child (ImplicitCastExpr -> DeclRefExpr operator())
                        for d, _ in walk(c):
                            if d.get("kind") == "DeclRefExpr" and d.get("referencedDecl", {}).get("name") == "operator()":
                                resolved.append(d["referencedDecl"]["type"]["qualType"])
                                break
                sites.append({"flavour": n["name"], "elem": elem, "op": m["name"], "key": key,
                              "comparator": comp, "resolved": sorted(set(resolved))})
    return sites


def mutable_records(asts):
    """names of the classes of namespace ipr that have a `mutable` data member, directly or through a member or base of such a class
    (by name: a static object of such a type can change although it is const / constexpr)"""
    fields = {}      # record name -> [(field type text, is mutable)]
    bases = {}
    for tu, ast in asts.items():
        for n, p in ast.nodes:
            if n.get("kind") != "FieldDecl":
                continue
            names = [x for x in p if isinstance(x, str)]
            if not names or names[0] != "ipr":
                continue
            rec = names[-1]
            fields.setdefault(rec, []).append((n.get("type", {}).get("qualType", ""), bool(n.get("mutable"))))
        for n, p in ast.nodes:
            if n.get("kind") in ("CXXRecordDecl", "ClassTemplateSpecializationDecl") and n.get("bases") and n.get("name"):
                names = [x for x in p if isinstance(x, str)]
                if names and names[0] == "ipr":
                    bases.setdefault(n["name"], set()).update(b["type"]["qualType"] for b in n["bases"])
    bad = {r for r, fs in fields.items() if any(m for _, m in fs)}
    changed = True
    word = lambda name, text: re.search(r"(?<![A-Za-z0-9_])%s(?![A-Za-z0-9_])" % re.escape(name), text) is not None
    while changed:
        changed = False
        for r in set(fields) | set(bases):
            if r in bad:
                continue
            texts = [t for t, _ in fields.get(r, [])] + list(bases.get(r, ()))
            if any(word(b, t) for b in bad for t in texts):
                bad.add(r); changed = True
    return sorted(bad)


STATE_CLASSES = ["util::string", "util::arena", "util::arena::pool", "util::string_pool",
                 "util::rb_tree::link", "util::rb_tree::core", "util::rb_tree::node", "util::rb_tree::container", "util::rb_tree::chain",
                 "impl::obj_list", "impl::obj_sequence", "impl::ref_sequence", "impl::stable_farm", "impl::typed_sequence", "impl::homogeneous_scope",
                 "impl::homogeneous_region", "impl::Scope", "impl::Overload", "impl::overload_entry", "impl::master_decl_data",
                 "impl::General_substitution", "impl::Elementary_substitution", "impl::Parameter_list", "impl::Parameter", "impl::Enumerator",
                 "impl::Base_type", "impl::Region", "Printer"]


def class_fields(asts):
    """the non-static data members (name, declared type, bit-field width) of the classes whose state the hand-written models abstract"""
    out = {c: [] for c in STATE_CLASSES}
    for tu in ("impl", "io", "utility"):
        ast = asts.get(tu)
        if ast is None:
            continue
        for n, p in ast.nodes:
            if n.get("kind") != "FieldDecl":
                continue
            names = [x for x in p if isinstance(x, str)]
            if not names or names[0] != "ipr":
                continue
            cls = class_key(p)
            if cls not in out:
                continue
            t = n.get("type", {}).get("qualType", "")
            if n.get("isBitfield"):
                w = "?"
                for m, _ in walk(n):
                    if m.get("kind") in ("ConstantExpr", "IntegerLiteral") and m.get("value") is not None:
                        w = str(m.get("value"))
                        break
                t += " : " + w
            if n.get("mutable"):
                t = "mutable " + t
            row = [n.get("name", "?"), t]
            if row[0] not in [r[0] for r in out[cls]]:
                out[cls].append(row)
    return out


def statics(asts):
    """every variable with static storage duration defined in the TUs (namespace scope,
    static data members, function-local statics): constness facts"""
    out = []
    seen = set()
    mut = mutable_records(asts)
    word = lambda name, text: re.search(r"(?<![A-Za-z0-9_])%s(?![A-Za-z0-9_])" % re.escape(name), text) is not None
    for tu, ast in asts.items():
        for n, p in ast.nodes:
            if n.get("kind") != "VarDecl":
                continue
            loc_file = None
            # is it at namespace scope or a static local / static member?
            in_function = any(x in ("#CompoundStmt", "#DeclStmt") for x in p)
            sc = n.get("storageClass")
            # a block-scope variable declared `static` or `thread_local` outlives the call (static / thread storage duration)
            is_static_local = in_function and (sc == "static" or n.get("tls") is not None)
            if in_function and not is_static_local:
                continue
            if "#ParmVarDecl" in p:
                continue
            # skip template patterns' dependent decls and class-scope non-static
            t = n["type"]["qualType"]
            name = n.get("name", "?")
            key = (name, t, tuple(x for x in p if isinstance(x, str))[:4])
            if key in seen:
                continue
            seen.add(key)
            const = t.startswith("const ") or " const" in t or bool(n.get("constexpr"))
            out.append({"tu": tu, "name": name, "type": t, "constexpr": bool(n.get("constexpr")),
                        "const": const, "static_local": is_static_local, "scope": [x for x in p if isinstance(x, str)][:5],
                        "thread_local": n.get("tls") is not None,
                        "mutable_members": any(word(r, t) for r in mut)})
    return out


def store_facts(ast):
    """standard containers behind the object-holding stores, and destructor facts"""
    out = {"bases": {}, "dtors": {}}
    for tname in ("stable_farm", "obj_sequence", "obj_list", "ref_sequence"):
        for n, p in ast.find("ClassTemplateDecl", tname):
            rec = children(n, "CXXRecordDecl")
            if rec and rec[0].get("bases"):
                out["bases"][tname] = [b["type"]["qualType"] for b in rec[0]["bases"]]
                break
    # where the owning red-black container takes the memory of its nodes from: its base classes
    out["tree_bases"] = []
    for n, p in ast.find("ClassTemplateDecl", "container"):
        names = [x for x in p if isinstance(x, str)]
        if "rb_tree" not in names:
            continue
        rec = children(n, "CXXRecordDecl")
        if rec and rec[0].get("bases"):
            out["tree_bases"] = [b["type"]["qualType"] for b in rec[0]["bases"]]
            break
    # how the stores grow: member functions of the standard-container base that each store template calls
    out["growth"] = {}
    for tname in ("stable_farm", "obj_sequence", "obj_list", "ref_sequence"):
        calls = set()
        for n, p in ast.find("ClassTemplateDecl", tname):
            for m, _ in walk(n):
                k = m.get("kind")
                nm = None
                if k in ("MemberExpr", "UnresolvedMemberExpr"):
                    nm = m.get("name")
                elif k == "CXXDependentScopeMemberExpr":
                    nm = m.get("member")
                elif k == "DependentScopeDeclRefExpr" or k == "UnresolvedLookupExpr":
                    nm = m.get("name")
                if nm in ("emplace_front", "emplace_back", "emplace_after", "push_back", "push_front", "insert", "insert_after", "erase",
                          "erase_after", "pop_back", "pop_front", "clear", "resize", "reserve", "emplace", "swap", "assign", "shrink_to_fit",
                          "remove", "sort", "splice_after", "reverse", "unique", "merge"):
                    calls.add(nm)
            # using-declarations that re-export a mutator of the private base
            for m, _ in walk(n):
                if m.get("kind") in ("UsingDecl", "UnresolvedUsingValueDecl"):
                    nm = (m.get("name") or "").split("::")[-1]
                    if nm in ("push_back", "resize", "insert", "erase", "clear", "pop_back", "emplace_back", "push_front", "reserve", "assign", "swap"):
                        calls.add("using:" + nm)
            break
        out["growth"][tname] = sorted(calls)
    for n, p in ast.find("CXXRecordDecl", "string_pool"):
        if n.get("bases"):
            out["bases"]["string_pool"] = [b["type"].get("desugaredQualType", b["type"]["qualType"]) for b in n["bases"]]
    # rb_tree::container: user-provided destructor? does anything call destroy_node?
    for n, p in ast.find("ClassTemplateDecl", "container"):
        rec = children(n, "CXXRecordDecl")
        if not rec:
            continue
        r = rec[0]
        has_dtor = any(c.get("kind") == "CXXDestructorDecl" and not c.get("isImplicit") for c in children(r))
        out["dtors"]["rb_tree::container"] = {"user_destructor": has_dtor}
        calls_destroy = False
        for m, _ in walk(n):
            if m.get("kind") in ("MemberExpr", "UnresolvedMemberExpr", "CXXDependentScopeMemberExpr") and \
                    (m.get("name") == "destroy_node" or m.get("member") == "destroy_node"):
                calls_destroy = True
        out["dtors"]["rb_tree::container"]["destroy_node_called"] = calls_destroy
        break
    for n, p in ast.find("CXXRecordDecl", "arena"):
        if n.get("completeDefinition"):
            out["dtors"]["string::arena"] = {"user_destructor": any(
                c.get("kind") == "CXXDestructorDecl" and not c.get("isImplicit") for c in children(n))}
    return out



# ---------------------------------------------------------------------------
# derived (inline convenience) operations of the interface, as expression trees
# ---------------------------------------------------------------------------
PASS_THROUGH = ("ImplicitCastExpr", "ParenExpr", "MaterializeTemporaryExpr", "ExprWithCleanups", "CXXBindTemporaryExpr",
                "CXXFunctionalCastExpr", "CXXStaticCastExpr", "ConstantExpr")


def class_key(path):
    """('ipr','Sequence','Sequence','Iterator') -> 'Sequence::Iterator'"""
    parts = [x for x in path if isinstance(x, str) and x not in ("ipr",) and not x.startswith("#")]
    out = []
    for x in parts:
        if not out or out[-1] != x:
            out.append(x)
    return "::".join(out)


def cexpr(ast, n, params):
    k = n.get("kind")
    ch = children(n)
    if k in PASS_THROUGH:
        return cexpr(ast, ch[-1], params) if ch else ["CUnknown", k]
    if k == "CXXThisExpr":
        return ["CThis"]
    if k == "IntegerLiteral":
        return ["CInt", int(n.get("value", "0"))]
    if k == "CXXBoolLiteralExpr":
        return ["CBool", bool(n.get("value"))]
    if k == "DeclRefExpr":
        rd = n.get("referencedDecl", {})
        if rd.get("kind") == "ParmVarDecl":
            name = rd.get("name")
            return ["CParam", params.index(name) if name in params else 99]
        return ["CUnknown", "ref:" + str(rd.get("name"))]
    if k == "UnaryOperator":
        return ["CUn", n.get("opcode"), cexpr(ast, ch[0], params)]
    if k == "BinaryOperator":
        return ["CBin", n.get("opcode"), cexpr(ast, ch[0], params), cexpr(ast, ch[1], params)]
    if k == "ConditionalOperator" and len(ch) == 3:
        return ["CCond", cexpr(ast, ch[0], params), cexpr(ast, ch[1], params), cexpr(ast, ch[2], params)]
    if k == "MemberExpr":
        # a data member access (calls are handled at the call node)
        return ["CField", n.get("name"), cexpr(ast, ch[0], params) if ch else ["CThis"]]
    if k == "CXXMemberCallExpr":
        callee = ch[0]
        while callee.get("kind") in PASS_THROUGH:
            callee = children(callee)[-1]
        args = [cexpr(ast, a, params) for a in ch[1:] if a.get("kind") != "CXXDefaultArgExpr"]
        if callee.get("kind") == "MemberExpr":
            mid = callee.get("referencedMemberDecl")
            d = ast.ids.get(mid)
            owner = class_key(ast.paths.get(mid, ())) if d is not None else "?"
            recv = cexpr(ast, children(callee)[0], params) if children(callee) else ["CThis"]
            if d is None:
                owner = "ext"          # a member of a class outside namespace ipr (std::u8string_view, ...)
            elif owner in ("", "?"):
                return ["CUnknown", "unresolved-call:" + str(callee.get("name"))]
            return ["CCall", owner + "::" + callee.get("name", "?"), recv, args]
        return ["CUnknown", "call"]
    if k == "CXXOperatorCallExpr":
        # first child is the callee (operator reference), the rest are the operands
        callee = ch[0]
        opname = "?"
        owner = ""
        for m, _ in walk(callee):
            if m.get("kind") == "DeclRefExpr":
                rd = m.get("referencedDecl", {})
                opname = rd.get("name", "?")
                owner = class_key(ast.paths.get(rd.get("id"), ()))
                break
        if opname == "?":
            return ["CUnknown", "unresolved-operator"]
        return ["COp", (owner + "::" if owner else "") + opname, [cexpr(ast, a, params) for a in ch[1:]]]
    if k in ("CXXConstructExpr", "InitListExpr", "CXXTemporaryObjectExpr"):
        if k == "CXXConstructExpr" and len(ch) == 1 and n.get("ctorType", {}).get("qualType", "").count("(const") == 1 and \
                "&)" in n.get("ctorType", {}).get("qualType", "") and not n.get("list"):
            return cexpr(ast, ch[0], params)            # copy construction of the result
        return ["CCons", [cexpr(ast, a, params) for a in ch]]
    if k == "CallExpr":
        callee = ch[0]
        name = "?"
        for m, _ in walk(callee):
            if m.get("kind") == "DeclRefExpr":
                name = m.get("referencedDecl", {}).get("name", "?")
                break
        if name == "?":
            return ["CUnknown", "unresolved-call"]
        if name == "compare":
            # an overload set: the callee is named by the parameter type overload resolution selected
            for m, _ in walk(callee):
                if m.get("kind") == "DeclRefExpr":
                    name = "compare(%s)" % first_param(m.get("referencedDecl", {}).get("type", {}).get("qualType", ""))
                    break
        return ["CCall", "::" + name, ["CThis"], [cexpr(ast, a, params) for a in ch[1:]]]
    return ["CUnknown", str(k)]


def derived_ops(ast):
    """methods with a body (or defaulted comparison) of the interface classes"""
    rows = {}
    for n, p in ast.nodes:
        if n.get("kind") not in ("CXXMethodDecl", "FunctionDecl"):
            continue
        if n.get("isImplicit"):
            continue
        names = [x for x in p if isinstance(x, str)]
        if not names or names[0] != "ipr" or "impl" in names or "util" in names or "iprv_uses" in names or "cxx_form" in names:
            continue
        if "Visitor" in names or "Constant_visitor" in names or n.get("name") in ("accept", "visit"):
            continue
        cls = class_key(p)
        key = (cls + "::" if cls else "::") + n.get("name", "?")
        params = [c.get("name") for c in children(n, "ParmVarDecl")]
        body = None
        if n.get("explicitlyDefaulted") == "default" and n.get("name", "").startswith("operator"):
            # memberwise comparison of the fields of the class
            owner = ast.ids.get(n.get("parentDeclContextId"))
            fields = []
            for q, qp in ast.nodes:
                if q.get("kind") == "FieldDecl" and class_key(qp) == cls:
                    if q.get("name") not in fields:
                        fields.append(q.get("name"))
            body = ["CDefaultedEq", fields]
        elif has_body(n):
            if any(x in ("ClassTemplateDecl",) for x in p) and not any(x == "ClassTemplateSpecializationDecl" for x in p):
                pass
            stmts = children(body_of(n))
            if len(stmts) == 1 and stmts[0].get("kind") == "ReturnStmt" and children(stmts[0]):
                body = cexpr(ast, children(stmts[0])[0], params)
            elif _if_return(ast, stmts, params) is not None:
                body = _if_return(ast, stmts, params)          # if (c) return a; return b;   read as   c ? a : b
            elif _named_result(ast, stmts, params) is not None:
                body = _named_result(ast, stmts, params)       # const T& x = E; return x;
            elif len(stmts) == 2 and stmts[1].get("kind") == "ReturnStmt" and n.get("name") in ("operator++", "operator--") and not params:
                # ++index; return *this;   (pre-increment / pre-decrement)
                inner = cexpr(ast, stmts[0], params)
                body = ["CSeq", inner, cexpr(ast, children(stmts[1])[0], params)]
            else:
                body = ["CUnknown", "statements:%d" % len(stmts)]
        else:
            continue
        # instantiations of one template must agree; dependent (uninstantiated) patterns are ignored
        txt = json.dumps(body)
        if "CUnknown" in txt and key in rows:
            continue
        if key in rows and rows[key]["body"] != body:
            if "CUnknown" in json.dumps(rows[key]["body"]):
                rows[key] = {"nparams": len(params), "body": body}
            elif "CUnknown" not in txt:
                rows[key] = {"nparams": len(params), "body": ["CUnknown", "instantiations-differ"]}
            continue
        rows.setdefault(key, {"nparams": len(params), "body": body})
    return rows


def _returned(ast, st, params):
    """the expression a statement returns: `return e;` or `{ return e; }`"""
    if st.get("kind") == "CompoundStmt" and len(children(st)) == 1:
        st = children(st)[0]
    if st.get("kind") == "ReturnStmt" and children(st):
        return cexpr(ast, children(st)[0], params)
    return None


def first_param(fn_type):
    """'int (const ipr::String &, const ipr::String &)' -> 'ipr::String'; pointers keep their star"""
    m = re.match(r"[^(]*\(([^,)]*)", fn_type)
    t = m.group(1) if m else "?"
    t = t.replace("const ", "").replace("&", "").strip()
    return re.sub(r"\s+\*", "*", t)


def compare_fns(ast):
    """the overloads of impl::compare (the leaf comparisons every table comparator ends in), keyed by the type they compare, as
    expression trees; rows are keyed ::compare(<type>)"""
    rows = {}
    for n, p in ast.nodes:
        if n.get("kind") != "FunctionDecl" or n.get("name") != "compare" or not has_body(n):
            continue
        names = [x for x in p if isinstance(x, str)]
        if names[:2] != ["ipr", "impl"]:
            continue
        key = "::compare(%s)" % first_param(n.get("type", {}).get("qualType", ""))
        params = [c.get("name") for c in children(n, "ParmVarDecl")]
        stmts = children(body_of(n))
        body = _returned(ast, stmts[0], params) if len(stmts) == 1 else None
        if body is None and len(stmts) == 2 and stmts[0].get("kind") == "IfStmt":
            # if (auto c = E1) return c; return E2;
            ic = children(stmts[0])
            if len(ic) == 3 and ic[0].get("kind") == "DeclStmt" and children(ic[0]) and children(ic[0])[0].get("kind") == "VarDecl":
                var = children(ic[0])[0]
                then = ic[2]
                if then.get("kind") == "CompoundStmt" and len(children(then)) == 1:
                    then = children(then)[0]
                refs = [m for m, _ in walk(then) if m.get("kind") == "DeclRefExpr"]
                e2 = _returned(ast, stmts[1], params)
                if then.get("kind") == "ReturnStmt" and len(refs) == 1 and refs[0].get("referencedDecl", {}).get("id") == var.get("id") \
                        and children(var) and e2 is not None:
                    body = ["CLex", cexpr(ast, children(var)[-1], params), e2]
        if body is None:
            body = ["CUnknown", "statements:%d" % len(stmts)]
        if key in rows and rows[key]["body"] != body and "CUnknown" not in json.dumps(body):
            body = ["CUnknown", "definitions-differ"]
        if key not in rows or "CUnknown" in json.dumps(rows[key]["body"]):
            rows[key] = {"nparams": len(params), "body": body}
    # comparisons of scalars and addresses (the std::less template) stay primitive: no row
    return {k: v for k, v in rows.items() if "CUnknown" not in json.dumps(v["body"])}


def compare_calls(ast):
    """every resolved call of impl::compare: the static type of its first operand (before any conversion to a base class) and the
    type compared by the overload that overload resolution selected"""
    cnt = {}

    def orig_type(a):
        while a.get("kind") == "ImplicitCastExpr" and children(a):
            a = children(a)[0]
        return a.get("type", {}).get("qualType", "?")
    for n, p in ast.nodes:
        if n.get("kind") != "CallExpr":
            continue
        ch = children(n)
        if len(ch) < 2:
            continue
        ref = None
        for m, _ in walk(ch[0]):
            if m.get("kind") == "DeclRefExpr":
                ref = m.get("referencedDecl", {})
                break
        if not ref or ref.get("name") != "compare":
            continue
        callee = first_param(ref.get("type", {}).get("qualType", ""))
        arg = first_param("(" + orig_type(ch[1]) + ")")
        cnt[(arg, callee)] = cnt.get((arg, callee), 0) + 1
    return [{"operand": a, "overload": c, "calls": k} for (a, c), k in sorted(cnt.items())]


def _named_result(ast, stmts, params):
    """`const T& x = E; return x;` (a local that only names the result) read as E; None for other shapes"""
    if len(stmts) == 2 and stmts[0].get("kind") == "DeclStmt" and stmts[1].get("kind") == "ReturnStmt":
        ds = children(stmts[0])
        if len(ds) == 1 and ds[0].get("kind") == "VarDecl" and children(ds[0]):
            ret = children(stmts[1])
            r = ret[0] if ret else None
            while r is not None and r.get("kind") in PASS_THROUGH and children(r):
                r = children(r)[-1]
            if r is not None and r.get("kind") == "DeclRefExpr" and r.get("referencedDecl", {}).get("id") == ds[0].get("id"):
                return cexpr(ast, children(ds[0])[-1], params)
    return None


def _if_return(ast, stmts, params):
    """`if (c) return a; return b;` and `if (c) return a; else return b;` as the conditional expression c ? a : b; None for other shapes"""
    if len(stmts) == 2 and stmts[0].get("kind") == "IfStmt" and len(children(stmts[0])) == 2:
        c, a = children(stmts[0])
        ra, rb = _returned(ast, a, params), _returned(ast, stmts[1], params)
        if ra is not None and rb is not None:
            return ["CCond", cexpr(ast, c, params), ra, rb]
    if len(stmts) == 1 and stmts[0].get("kind") == "IfStmt" and len(children(stmts[0])) == 3:
        c, a, b = children(stmts[0])
        ra, rb = _returned(ast, a, params), _returned(ast, b, params)
        if ra is not None and rb is not None:
            return ["CCond", cexpr(ast, c, params), ra, rb]
    return None


def impl_inline_ops(ast, wanted=(("Elementary_substitution", "operator[]"),)):
    """bodies of a few implementation member functions, as expression trees (rows are keyed impl::<class>::<name>):
    `return e;`, or `if (c) return a; return b;` / `if (c) return a; else return b;` read as c ? a : b.
    Anything else becomes CUnknown and fails the obligation.  Also the constructor's member initialisers
    (member name -> index of the constructor parameter it is initialised from)."""
    rows, inits = {}, {}
    for n, p in ast.nodes:
        if n.get("kind") not in ("CXXMethodDecl", "CXXConstructorDecl") or n.get("isImplicit"):
            continue
        names = [x for x in p if isinstance(x, str)]
        if "impl" not in names:
            continue
        for cls, fn in wanted:
            if cls not in names:
                continue
            params = [c.get("name") for c in children(n, "ParmVarDecl")]
            if n.get("kind") == "CXXConstructorDecl" and n.get("name") == cls and has_body(n):
                row = []
                for c in children(n, "CXXCtorInitializer"):
                    field = (c.get("anyInit") or {}).get("name")
                    src = None
                    for m, _ in walk(c):
                        if m.get("kind") == "DeclRefExpr" and m.get("referencedDecl", {}).get("kind") == "ParmVarDecl":
                            nm = m["referencedDecl"].get("name")
                            src = params.index(nm) if nm in params else None
                            break
                    if field is not None and src is not None:
                        row.append([field, src])
                inits["impl::" + cls] = row
            elif n.get("name") == fn and has_body(n):
                stmts = children(body_of(n))
                body = None
                if len(stmts) == 1:
                    body = _returned(ast, stmts[0], params)
                    if body is None and stmts[0].get("kind") == "IfStmt" and len(children(stmts[0])) == 3:
                        c, a, b = children(stmts[0])
                        ra, rb = _returned(ast, a, params), _returned(ast, b, params)
                        if ra is not None and rb is not None:
                            body = ["CCond", cexpr(ast, c, params), ra, rb]
                elif len(stmts) == 2 and stmts[0].get("kind") == "IfStmt" and len(children(stmts[0])) == 2:
                    c, a = children(stmts[0])
                    ra, rb = _returned(ast, a, params), _returned(ast, stmts[1], params)
                    if ra is not None and rb is not None:
                        body = ["CCond", cexpr(ast, c, params), ra, rb]
                if body is None:
                    body = ["CUnknown", "statements:%d" % len(stmts)]
                rows["impl::%s::%s" % (cls, fn)] = {"nparams": len(params), "body": body}
    for cls, fn in wanted:
        rows.setdefault("impl::%s::%s" % (cls, fn), {"nparams": 0, "body": ["CUnknown", "not-found-inline"]})
        inits.setdefault("impl::" + cls, [])
    return rows, inits


# ---------------------------------------------------------------------------
# factories and interface accessors
# ---------------------------------------------------------------------------
FACTORY_CLASSES = ("type_factory", "name_factory", "expr_factory", "dir_factory", "stmt_factory", "Lexicon",
                   "form_factory", "attr_factory", "capture_spec_factory")


_WRAP = {"ImplicitCastExpr", "MaterializeTemporaryExpr", "CXXBindTemporaryExpr", "ExprWithCleanups", "CXXConstructExpr",
         "ParenExpr"}

SORTS = [
    ("const ipr::Expr &", "E"), ("const ipr::Type &", "T"), ("const ipr::Region &", "R"), ("const ipr::Identifier &", "I"),
    ("const ipr::Name &", "N"), ("const ipr::String &", "S"), ("const ipr::Token &", "TK"), ("const ipr::Product &", "P"),
    ("const ipr::Sum &", "U"), ("const ipr::Expr_list &", "XL"), ("const ipr::Attribute &", "A"), ("const ipr::Transfer &", "X"),
    ("const ipr::Sequence<ipr::Attribute> &", "As"), ("const ipr::Decl &", "D"), ("const ipr::Linkage &", "LK"),
    ("const ipr::Calling_convention &", "CC"), ("const ipr::Capture_specification::Named &", "NC"),
    ("const ipr::Scope_ref &", "SR"), ("const ipr::Scope &", "SC"), ("const ipr::Literal &", "L"),
    ("const ipr::Enclosure &", "EN"), ("const ipr::Parameter &", "PA"), ("const ipr::Substitution &", "SU"),
    ("const ipr::Construction &", "CO"), ("const ipr::Template &", "TM"), ("const ipr::Block &", "B"),
    ("const cxx_form::Elemental_initializer &", "IN"), ("const ipr::cxx_form::Elemental_initializer &", "IN"),
    ("const cxx_form::Species_declarator &", "SP"), ("const ipr::cxx_form::Species_declarator &", "SP"),
    ("ipr::Qualifiers", "q"), ("ipr::Mapping_level", "lvl"), ("ipr::Binding_mode", "bm"), ("ipr::Phases", "ph"),
    ("ipr::Using_declaration::Designator::Mode", "dm"), ("ipr::Category_code", "cc"), ("ipr::Delimiter", "dl"),
    ("ipr::cxx_form::Reference_flavor", "rf"), ("ipr::Enum::Kind", "ek"), ("ipr::TokenValue", "tv"), ("ipr::TokenCategory", "tc"),
    ("ipr::Optional<ipr::Type>", "T?"), ("ipr::Optional<ipr::String>", "S?"), ("ipr::Optional<ipr::Expr_list>", "XL?"),
    ("std::basic_string_view<char8_t>", "w"), ("const ipr::Sequence<ipr::Type> &", "Ts"),
    ("const Warehouse<ipr::Type> &", "Tw"), ("const ipr::impl::Warehouse<ipr::Type> &", "Tw"),
    ("const ipr::Source_location &", "loc"),
]


def sort_code(ptype):
    for t, c in SORTS:
        if t == ptype:
            return c
    return "?" + ptype


def _param_ref(e, pidx):
    while True:
        k = e.get("kind")
        if k == "DeclRefExpr":
            return pidx.get(e.get("referencedDecl", {}).get("id"))
        if k == "UnaryOperator" and e.get("opcode") in ("&", "*") and children(e):
            e = children(e)[0]
            continue
        if k in _WRAP and len(children(e)) == 1:
            e = children(e)[0]
            continue
        return None


def _member_name(e):
    while e.get("kind") in _WRAP and len(children(e)) == 1:
        e = children(e)[0]
    return e.get("name") if e.get("kind") == "MemberExpr" else None


def factory_call(n, stmts):
    """for a body that is one return statement building the node with make/insert: which parameter goes
    where.  {'farm', 'args': [param index | None], 'with_type': param index | None} or None (opaque body)."""
    if len(stmts) != 1 or stmts[0].get("kind") != "ReturnStmt":
        return None
    pidx = {c["id"]: i for i, c in enumerate(children(n, "ParmVarDecl"))}
    found, wt = None, None
    for m, _ in walk(stmts[0]):
        if m.get("kind") not in ("CallExpr", "CXXMemberCallExpr") or not children(m):
            continue
        f = children(m)[0]
        while f.get("kind") == "ImplicitCastExpr" and children(f):
            f = children(f)[0]
        args = children(m)[1:]
        if f.get("kind") == "MemberExpr" and f.get("name") == "with_type" and len(args) == 1:
            wt = _param_ref(args[0], pidx)
            if wt is None:
                return None
        elif f.get("kind") == "MemberExpr" and f.get("name") == "make" and children(f):
            farm = _member_name(children(f)[0])
            if farm is None or found is not None:
                return None
            found = {"farm": farm, "args": [_param_ref(a, pidx) for a in args]}
        elif f.get("kind") == "DeclRefExpr" and f.get("referencedDecl", {}).get("name") == "make" and args:
            farm = _member_name(args[0])
            if farm is None or found is not None:
                return None
            found = {"farm": farm, "args": [_param_ref(a, pidx) for a in args[1:]]}
    if found is None:
        return None
    found["with_type"] = wt
    return found


def factories(ast):
    """member functions of the factory classes: signature, whether defined, body shape"""
    by_mangled = {}
    for n, p in ast.nodes:
        if n.get("kind") != "CXXMethodDecl" or n.get("isImplicit"):
            continue
        mn = n.get("mangledName", "")
        names = [x for x in p if isinstance(x, str)]
        owner = None
        for fc in FACTORY_CLASSES:
            if fc in names:
                owner = fc
        if owner is None and n.get("parentDeclContextId"):
            pd = ast.ids.get(n["parentDeclContextId"])
            if pd is not None and pd.get("name") in FACTORY_CLASSES:
                owner = pd.get("name")
        if owner is None:
            continue
        nm = n.get("name", "")
        if nm.startswith("operator") or nm.startswith("~") or nm == owner:
            continue
        ps = [c for c in children(n, "ParmVarDecl")]
        sig = tuple(c["type"].get("desugaredQualType", c["type"]["qualType"]).replace("ipr::impl::", "").replace("impl::", "").replace("ipr::", "") for c in ps)
        e = by_mangled.setdefault((owner, nm, sig), {"class": owner, "name": nm, "type": n["type"]["qualType"], "mangled": mn,
                                        "params": [], "defined": False, "shape": None, "access": None})
        if ps and not e["params"]:
            e["params"] = [{"type": c["type"].get("desugaredQualType", c["type"]["qualType"]), "written": c["type"]["qualType"],
                            "sort": sort_code(c["type"].get("desugaredQualType", c["type"]["qualType"])),
                            "default": any(x.get("kind") not in () for x in children(c))} for c in ps]
        if has_body(n):
            e["defined"] = True
            stmts = children(body_of(n))
            e["call"] = factory_call(n, stmts)
            txt = json.dumps(stmts)
            shape = "other"
            if len(stmts) == 1 and stmts[0].get("kind") == "ReturnStmt":
                if '"name": "with_type"' in txt:
                    shape = "make.with_type"
                elif '"name": "make"' in txt:
                    shape = "farm.make"
                elif '"name": "insert"' in txt:
                    shape = "table.insert"
                else:
                    shape = "delegate"
            e["shape"] = shape
            e["nstmts"] = len(stmts)
    out = []
    for mn, e in by_mangled.items():
        t = e["type"]
        ret = t.split("(", 1)[0].strip()
        e["ret"] = ret
        r_ = re.sub(r"[*&]", "", ret.replace("const ", "")).strip()
        e["result"] = ("Capture_specification::" if "Capture_specification::" in r_ else "") + r_.split("::")[-1]
        e.setdefault("call", None)
        out.append(e)
    out.sort(key=lambda e: (e["class"], e["name"], e["type"]))
    return out


def type_bodies(ast):
    """every definition of a member function type() in the library: class -> body (expression tree)"""
    rows = {}
    for n, p in ast.nodes:
        if n.get("kind") != "CXXMethodDecl" or n.get("name") != "type" or not has_body(n) or children(n, "ParmVarDecl"):
            continue
        names = [x for x in p if isinstance(x, str)]
        if not names or names[0] != "ipr" or "iprv_uses" in names:
            continue
        cls = class_key(p)
        pd = ast.ids.get(n.get("parentDeclContextId")) if n.get("parentDeclContextId") else None
        if pd is not None and pd.get("name"):
            # defined out of line: the lexical path is the namespace, the semantic parent is the class
            cls = (cls + "::" if cls else "") + pd["name"]
        stmts = children(body_of(n))
        if len(stmts) == 1 and stmts[0].get("kind") == "ReturnStmt" and children(stmts[0]):
            body = cexpr(ast, children(stmts[0])[0], [])
        elif _named_result(ast, stmts, []) is not None:
            body = _named_result(ast, stmts, [])
        else:
            body = ["CUnknown", "statements:%d" % len(stmts)]
        txt = json.dumps(body)
        old = rows.get(cls)
        if old is None:
            rows[cls] = body
        elif old != body:
            if "CUnknown" in json.dumps(old) and "CUnknown" not in txt:
                rows[cls] = body                      # an instantiation replaces the dependent pattern
            elif "CUnknown" in txt:
                pass
            elif old[0] == "CCall" and body[0] == "CCall" and old[1].endswith("::type") and body[1].endswith("::type") and old[2] == body[2]:
                pass                                  # instantiations that differ only in the static type of the callee
            else:
                rows[cls] = ["CUnknown", "instantiations-differ"]
    return rows


def impl_defs(ast):
    """ipr::impl class / alias name -> the type expressions it is defined from (alias target or bases)"""
    defs = {}
    for n, p in ast.nodes:
        names = [x for x in p if isinstance(x, str)]
        if names[:2] != ["ipr", "impl"] or len(names) > 3:
            continue
        k = n.get("kind")
        if k == "TypeAliasDecl":
            defs.setdefault(n["name"], []).append(n["type"]["qualType"])
        elif k == "CXXRecordDecl" and n.get("completeDefinition") and n.get("bases"):
            defs.setdefault(n["name"], []).extend(b["type"]["qualType"] for b in n["bases"])
    return defs


def type_classes(ast, cats, bodies):
    """for every node category K: the class whose type() body a node built as impl::K runs — found by walking the
    definition of impl::K (alias targets, bases, template arguments used as bases, in that order) to the first
    class that defines type().  Declarations are stored as decl_rep<impl::K>, whose type() comes first."""
    defs = impl_defs(ast)

    def tokens(t):
        return re.findall(r"(?:ipr::)?(?:impl::|util::|cxx_form::)*[A-Za-z_]\w*", t)

    def visit(tok, seen, depth=0):
        if depth > 40:
            return None
        iface = tok.startswith("ipr::") and "impl::" not in tok
        name = tok.split("::")[-1]
        if iface:
            return name if name in bodies else None
        if ("impl", name) in seen:
            return None
        seen.add(("impl", name))
        if name == "Decl":
            return "impl::decl_rep" if "impl::decl_rep" in bodies else None
        if "impl::" + name in bodies:
            return "impl::" + name
        for d in defs.get(name, []):
            for t in tokens(d):
                r = visit(t, seen, depth + 1)
                if r:
                    return r
        return None
    out = {}
    for c in cats:
        out[c] = visit("impl::" + c, set()) if c in defs else None
    return out


def _strip_casts(e):
    while e.get("kind") in ("ImplicitCastExpr", "ParenExpr", "MaterializeTemporaryExpr", "ExprWithCleanups", "CXXBindTemporaryExpr") and children(e):
        e = children(e)[0]
    return e


def _describe_ptr(e):
    e = _strip_casts(e)
    k = e.get("kind")
    if k == "MemberExpr":
        inner = children(e)
        if not inner or _strip_casts(inner[0]).get("kind") == "CXXThisExpr":
            return "this." + e.get("name", "?")
        return _describe_ptr(inner[0]) + "." + e.get("name", "?")
    if k == "CXXThisExpr":
        return "this"
    if k in ("CallExpr", "CXXMemberCallExpr") and children(e):
        f = _strip_casts(children(e)[0])
        return "call:" + str(f.get("name") or f.get("referencedDecl", {}).get("name"))
    if k == "DeclRefExpr":
        return "local:" + str(e.get("referencedDecl", {}).get("name"))
    if k in ("CXXFunctionalCastExpr", "CStyleCastExpr", "CXXStaticCastExpr", "CXXReinterpretCastExpr", "CXXUnresolvedConstructExpr") and children(e):
        return "cast(" + _describe_ptr(children(e)[-1]) + ")"
    return str(k)


def _owner_class(ast, n, p):
    cls = class_key(p)
    pd = ast.ids.get(n.get("parentDeclContextId")) if n.get("parentDeclContextId") else None
    if pd is not None and pd.get("name"):
        cls = (cls + "::" if cls else "") + pd["name"]
    return cls


def raw_derefs(ast):
    """every place where a const member function of the library dereferences a pointer (unary * or ->) that is
    neither `this` nor the result of util::check: (class, function) -> what is dereferenced"""
    rows = {}
    for n, p in ast.nodes:
        if n.get("kind") != "CXXMethodDecl" or not has_body(n):
            continue
        names = [x for x in p if isinstance(x, str)]
        if names[:1] != ["ipr"] or "util" in names or "iprv_uses" in names:
            continue
        if ") const" not in n.get("type", {}).get("qualType", ""):
            continue
        cls = _owner_class(ast, n, p)
        for m, _ in walk(body_of(n)):
            k = m.get("kind")
            tgt = None
            if k == "UnaryOperator" and m.get("opcode") == "*" and children(m):
                tgt = children(m)[0]
            elif k == "MemberExpr" and m.get("isArrow") and children(m):
                tgt = children(m)[0]
            if tgt is None or _strip_casts(tgt).get("kind") == "CXXThisExpr":
                continue
            d = _describe_ptr(tgt)
            if d.startswith("call:check"):
                continue
            rows.setdefault(cls + "::" + n.get("name", "?"), set()).add(d)
    return {k: sorted(v) for k, v in sorted(rows.items())}


def noexcept_refusing(ast):
    """functions of namespace ipr declared noexcept whose body calls something or throws: a refusal raised inside such a function
    cannot reach the caller as std::logic_error (the program is terminated instead)"""
    rows = {}
    for n, p in ast.nodes:
        if n.get("kind") not in ("CXXMethodDecl", "FunctionDecl", "CXXConstructorDecl") or not has_body(n) or n.get("isImplicit"):
            continue
        names = [x for x in p if isinstance(x, str)]
        if names[:1] != ["ipr"] or "iprv_uses" in names:
            continue
        qt = n.get("type", {}).get("qualType", "")
        if "noexcept" not in qt or "noexcept(false)" in qt:
            continue
        calls = set()
        for m, _ in walk(body_of(n)):
            k = m.get("kind")
            if k == "CXXThrowExpr":
                calls.add("throw")
            elif k in ("CXXMemberCallExpr", "CallExpr", "CXXOperatorCallExpr") and children(m):
                f = _strip_casts(children(m)[0])
                calls.add(str(f.get("name") or f.get("referencedDecl", {}).get("name") or "?"))
        if calls:
            rows[class_key(p) + "::" + n.get("name", "?")] = sorted(calls)
    return dict(sorted(rows.items()))


def catch_clauses(ast):
    """every catch clause in a function of namespace ipr: (function, what is caught, does the handler end by rethrowing / throwing)"""
    rows = []
    for n, p in ast.nodes:
        if n.get("kind") not in ("CXXMethodDecl", "FunctionDecl", "CXXConstructorDecl", "CXXDestructorDecl") or not has_body(n):
            continue
        names = [x for x in p if isinstance(x, str)]
        if names[:1] != ["ipr"] or "iprv_uses" in names:
            continue
        for m, _ in walk(body_of(n)):
            if m.get("kind") != "CXXCatchStmt":
                continue
            ch = children(m)
            body = ch[-1] if ch else {}
            stmts = children(body) if body.get("kind") == "CompoundStmt" else [body]
            last = stmts[-1] if stmts else {}
            while last.get("kind") in ("ExprWithCleanups",) and children(last):
                last = children(last)[-1]
            rethrows = last.get("kind") == "CXXThrowExpr"
            caught = "..." if len(ch) < 2 or ch[0].get("kind") != "VarDecl" else ch[0].get("type", {}).get("qualType", "?")
            row = [class_key(p) + "::" + n.get("name", "?"), caught, bool(rethrows)]
            if row not in rows:
                rows.append(row)
    return rows


def seq_gets(ast):
    """the positional access function get(Index) of every Sequence implementation: which safeguards its body uses"""
    rows = {}
    for n, p in ast.nodes:
        if n.get("kind") != "CXXMethodDecl" or n.get("name") != "get" or not has_body(n) or len(children(n, "ParmVarDecl")) != 1:
            continue
        names = [x for x in p if isinstance(x, str)]
        if names[:2] != ["ipr", "impl"]:
            continue
        cls = _owner_class(ast, n, p)
        feats = set()
        for m, _ in walk(body_of(n)):
            k = m.get("kind")
            if k == "CXXThrowExpr":
                feats.add("throw")
            elif k == "IfStmt":
                feats.add("if")
            elif k in ("CXXMemberCallExpr", "CallExpr") and children(m):
                f = _strip_casts(children(m)[0])
                nm = f.get("name") or f.get("referencedDecl", {}).get("name")
                if nm in ("at", "get", "size", "advance", "check", "front"):
                    feats.add(nm)
            elif k in ("CXXOperatorCallExpr", "ArraySubscriptExpr"):
                txt = json.dumps(m)[:4000]
                if k == "ArraySubscriptExpr" or "operator[]" in txt:
                    feats.add("subscript")
            elif k == "CXXDependentScopeMemberExpr" and m.get("member") in ("at", "get", "size"):
                feats.add(m.get("member"))
        old = rows.get(cls)
        rows[cls] = sorted(feats | set(old or []))
    return rows


def accessor_names(ast):
    """names of the const, parameterless member functions of the interface classes"""
    names = {}
    for n, p in ast.nodes:
        if n.get("kind") != "CXXMethodDecl" or n.get("isImplicit"):
            continue
        ps = [x for x in p if isinstance(x, str)]
        if not ps or ps[0] != "ipr" or "impl" in ps or "util" in ps:
            continue
        if children(n, "ParmVarDecl"):
            continue
        t = n.get("type", {}).get("qualType", "")
        if not t.rstrip().endswith("const"):
            continue
        nm = n.get("name", "")
        if nm.startswith("operator") or nm in ("accept", "begin", "end"):
            continue
        names.setdefault(nm, {"pure": False, "classes": []})
        if n.get("pure"):
            names[nm]["pure"] = True
        c = class_key(p)
        if c not in names[nm]["classes"]:
            names[nm]["classes"].append(c)
    return names


def iface_shapes(ast):
    """interface class -> Unary / Binary / Ternary / Other, from its declared base"""
    out = {}
    for o in ast.objs:
        for n, p in walk(o):
            if n.get("kind") == "CXXRecordDecl" and n.get("completeDefinition") and n.get("bases") and \
                    [x for x in p if isinstance(x, str)][:1] == ["ipr"] and "impl" not in p:
                b = n["bases"][0]["type"].get("desugaredQualType", n["bases"][0]["type"]["qualType"])
                shape = "Other"
                for k in ("Unary", "Binary", "Ternary"):
                    if b.startswith("ipr::" + k + "<") or b.startswith(k + "<"):
                        shape = k
                if "Member_selection<" in b or "Cast_expr<" in b:
                    shape = "Binary"
                key = class_key(p + (n.get("name"),))
                if b.startswith("ipr::Capture_specification") and "::" not in key:
                    key = "Capture_specification::" + key          # nested class defined out of line
                out.setdefault(key, {"shape": shape, "base": b})
    return out

# ---------------------------------------------------------------------------
# reflection probe (compiled with the real compiler)
# ---------------------------------------------------------------------------
PROBE_HEAD = r'''
#include <ipr/interface>
#include <cstdio>
#include <type_traits>
template<ipr::Category_code C, class T> constexpr int code_of(const ipr::Category<C, T>*) { return int(C); }
constexpr int code_of(...) { return -1; }
template<class X> const char* nearest()
{
   if constexpr (std::is_base_of_v<ipr::Classic, X> and not std::is_same_v<ipr::Classic, X>) return "Classic";
   else if constexpr (std::is_base_of_v<ipr::Decl, X> and not std::is_same_v<ipr::Decl, X>) return "Decl";
   else if constexpr (std::is_base_of_v<ipr::Stmt, X> and not std::is_same_v<ipr::Stmt, X>) return "Stmt";
   else if constexpr (std::is_base_of_v<ipr::Directive, X> and not std::is_same_v<ipr::Directive, X>) return "Directive";
   else if constexpr (std::is_base_of_v<ipr::Type, X> and not std::is_same_v<ipr::Type, X>) return "Type";
   else if constexpr (std::is_base_of_v<ipr::Name, X> and not std::is_same_v<ipr::Name, X>) return "Name";
   else if constexpr (std::is_base_of_v<ipr::Expr, X> and not std::is_same_v<ipr::Expr, X>) return "Expr";
   else if constexpr (std::is_base_of_v<ipr::Node, X> and not std::is_same_v<ipr::Node, X>) return "Node";
   else return "-";
}
template<class X> void probe(const char* name)
{
   std::printf("%s %d %d %d %s\n", name, int(std::is_base_of_v<ipr::Node, X>), code_of((X*) nullptr),
               int(std::is_abstract_v<X>), nearest<X>());
}
int main() {
'''


def reflect(names, workdir):
    src = os.path.join(workdir, "reflect_probe.cxx")
    exe = os.path.join(workdir, "reflect_probe")
    with open(src, "w") as fh:
        fh.write(PROBE_HEAD)
        for n in names:
            fh.write('   probe<ipr::%s>("%s");\n' % (n, n))
        fh.write("}\n")
    p = subprocess.run(["g++", "-std=c++20", "-I", os.path.join(REPO, "include"), "-w", src, "-o", exe],
                       stdout=subprocess.PIPE, stderr=subprocess.PIPE, text=True)
    if p.returncode != 0:
        raise RuntimeError("reflection probe failed to compile:\n" + p.stderr[-3000:])
    out = subprocess.run([exe], stdout=subprocess.PIPE, text=True).stdout
    res = {}
    for l in out.splitlines():
        name, isnode, code, abstract, near = l.split()
        res[name] = {"is_node": isnode == "1", "code": int(code), "nearest": near}
    os.remove(src)
    os.remove(exe)
    return res


# ---------------------------------------------------------------------------
def extract(workdir):
    with cf.ThreadPoolExecutor(max_workers=6) as ex:
        futs = {tu: ex.submit(dump_ast, tu + ".cxx") for tu in ("impl", "traversal", "io", "utility", "interface")}
        uses = os.path.join(os.path.dirname(os.path.dirname(os.path.abspath(__file__))), "harness", "derived_uses.cxx")
        fut_uses = ex.submit(dump_ast, uses)
        asts = {tu: Ast(f.result()) for tu, f in futs.items()}
        ast_uses = Ast(fut_uses.result())
    impl, trav = asts["impl"], asts["traversal"]
    facts = {}
    facts["categories"] = categories(impl)
    names = iface_names(impl)
    facts["iface_names"] = names
    facts["visitor"] = visitor_decl(impl)
    cand = set(facts["visitor"]) | set(facts["categories"])
    facts["reflect"] = reflect([n for n in names if n in cand], workdir)
    facts["visitor_forwards"] = visitor_forwards(trav)
    facts["accept"] = accept_instances(impl)
    facts["words"] = word_tables(impl)
    facts["lexicon_accessors"] = lexicon_accessors(impl)
    facts["cmp_sites"] = cmp_sites(impl)
    facts["statics"] = statics(asts)
    facts["mutable_records"] = mutable_records(asts)
    facts["class_fields"] = class_fields(asts)
    facts["stores"] = store_facts(impl)
    facts["derived"] = derived_ops(ast_uses)
    inline_rows, facts["ctor_inits"] = impl_inline_ops(impl)
    facts["derived"].update(inline_rows)
    facts["derived"].update(compare_fns(impl))
    facts["compare_calls"] = compare_calls(impl)
    facts["factories"] = factories(impl)
    facts["accessor_names"] = accessor_names(impl)
    facts["iface_shapes"] = iface_shapes(impl)
    import printer_facts
    facts["printer"] = printer_facts.extract(asts["io"].objs)
    facts["raw_derefs"] = raw_derefs(impl)
    facts["seq_gets"] = seq_gets(impl)
    facts["noexcept_refusing"] = noexcept_refusing(impl)
    facts["catch_clauses"] = catch_clauses(impl) + [r for r in catch_clauses(asts["io"]) + catch_clauses(asts["utility"]) + catch_clauses(asts["traversal"])
                                                     if r not in catch_clauses(impl)]
    facts["type_bodies"] = type_bodies(impl)
    facts["type_classes"] = type_classes(impl, facts["categories"], facts["type_bodies"])
    return facts, asts


if __name__ == "__main__":
    out = sys.argv[1] if len(sys.argv) > 1 else "/var/tmp/iprv-facts"
    os.makedirs(out, exist_ok=True)
    facts, _ = extract(out)
    with open(os.path.join(out, "facts.json"), "w") as fh:
        json.dump(facts, fh, indent=1)
    print("facts written to", out)
