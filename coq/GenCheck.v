(* GenCheck.v — checkers over the comparator call-site table regenerated from
   src/impl.cxx (GenCmp): every rb-tree insert/find site of the unification
   tables must resolve to a comparator that compares the KEY of the stored
   element with the request, never the (const Node&, const Node&) overload
   applied to an element whose type is not the key type (which compares the
   element's own address and therefore never finds anything). *)
From Coq Require Import List String Bool Ascii.
From IprV Require Import GenTypes.
Import ListNotations.
Local Open Scope string_scope.

Fixpoint str_prefix (p s : string) : bool :=
  match p, s with
  | EmptyString, _ => true
  | String a p', String b s' => Ascii.eqb a b && str_prefix p' s'
  | _, _ => false
  end.
Fixpoint str_contains (needle hay : string) : bool :=
  str_prefix needle hay || match hay with EmptyString => false | String _ h' => str_contains needle h' end.

Definition node_node : string := "int (const ipr::Node &, const ipr::Node &) const".

Definition self_address (r : cmp_row) : bool :=
  existsb (fun s => streq s node_node) (c_resolved r).

Definition site_ok (r : cmp_row) : bool :=
  negb (self_address r) && negb (match c_resolved r with [] => true | _ => false end).

Definition has_site (sites : list cmp_row) (elem_fragment : string) : bool :=
  existsb (fun r => str_contains elem_fragment (c_elem r) && streq (c_op r) "insert") sites.

(* element-type fragments of the tables behind the type, name and atom constructors *)
Definition type_tables : list string :=
  ["Composite<ipr::Pointer>"; "Composite<ipr::Reference>"; "Composite<ipr::Rvalue_reference>"; "Composite<ipr::Array>";
   "Composite<ipr::Qualified>"; "Composite<ipr::Function>"; "Function_with_transfer"; "Composite<ipr::Product>";
   "Composite<ipr::Sum>"; "Composite<ipr::Forall>"; "Composite<ipr::Ptr_to_member>"; "Composite<ipr::Tor>";
   "Composite<ipr::As_type>"; "As_type_with_transfer"; "symbolic_type<ipr::Identifier>"; "ref_sequence<ipr::Type>";
   "Transfer_from_linkage"; "Transfer_from_cc"; "Basic_binary<ipr::Transfer>"].
Definition name_tables : list string :=
  ["immotile_node<ipr::Identifier>"; "immotile_node<ipr::Operator>"; "immotile_node<ipr::Suffix>";
   "immotile_node<ipr::Conversion>"; "immotile_node<ipr::Ctor_name>"; "immotile_node<ipr::Dtor_name>";
   "immotile_node<ipr::Guide_name>"; "Basic_unary<ipr::Logogram>"; "immotile_node<ipr::Template_id>";
   "ipr::Linkage"; "ipr::Calling_convention"; "impl::Symbol"; "Conversion_expr<ipr::Literal>"].

Definition tables_ok (sites : list cmp_row) (tables : list string) : bool :=
  forallb (has_site sites) tables &&
  forallb (fun r => negb (existsb (fun t => str_contains t (c_elem r)) tables) || site_ok r) sites.

Lemma tables_ok_lift : forall sites tables, tables_ok sites tables = true ->
  (forall t, In t tables -> exists r, In r sites /\ str_contains t (c_elem r) = true /\ c_op r = "insert") /\
  (forall r t, In r sites -> In t tables -> str_contains t (c_elem r) = true -> self_address r = false /\ c_resolved r <> []).
Proof.
  unfold tables_ok. intros sites tables H. apply andb_true_iff in H as [H1 H2].
  rewrite forallb_forall in H1, H2. split.
  - intros t Ht. specialize (H1 t Ht). unfold has_site in H1. apply existsb_exists in H1 as (r & Hr & Hc).
    apply andb_true_iff in Hc as [Hc1 Hc2]. exists r. repeat split; auto. apply streq_eq; auto.
  - intros r t Hr Ht Hc. specialize (H2 r Hr). apply orb_true_iff in H2 as [H2|H2].
    + apply negb_true_iff in H2. exfalso.
      assert (existsb (fun t0 => str_contains t0 (c_elem r)) tables = true) by (apply existsb_exists; eauto).
      congruence.
    + unfold site_ok in H2. apply andb_true_iff in H2 as [A B]. apply negb_true_iff in A. split; auto.
      destruct (c_resolved r); discriminate.
Qed.
