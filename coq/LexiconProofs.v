(* LexiconProofs.v — proofs about the unification model (C01, C04, C11, C13). *)
From Coq Require Import List ZArith NArith Bool Lia PeanoNat.
From IprV Require Import Arena ArenaProofs Lexicon.
Import ListNotations.

(* ---- decidable equality of keys ---- *)
Lemma nid_eq_dec : forall a b : nid, {a = b} + {a <> b}.
Proof. decide equality; apply Nat.eq_dec. Defined.
Lemma word_eq_dec : forall a b : word, {a = b} + {a <> b}.
Proof. apply list_eq_dec. apply N.eq_dec. Defined.
Lemma key_eq_dec : forall a b : key, {a = b} + {a <> b}.
Proof.
  decide equality; try apply nid_eq_dec; try apply word_eq_dec; try apply N.eq_dec;
    try (apply list_eq_dec; apply nid_eq_dec); try (decide equality);
    try apply word_eq_dec.
Defined.
Definition key_eqb (a b : key) : bool := if key_eq_dec a b then true else false.
Lemma key_eqb_eq a b : key_eqb a b = true <-> a = b.
Proof. unfold key_eqb. destruct (key_eq_dec a b); split; auto; discriminate. Qed.

Lemma nth_error_lt2 : forall (A : Type) (l : list A) i x, nth_error l i = Some x -> (i < length l)%nat.
Proof. intros A l i x H. apply nth_error_Some. rewrite H. discriminate. Qed.

Section LexProofs.
Variable known : list word.
Variable builtin_words : list nat.
Variable ix_default ix_this ix_C ix_Cxx : nat.
Variable builtin_void : nat.

Notation norm := (norm known builtin_words ix_default ix_this ix_C ix_Cxx builtin_void).
Notation step := (step known builtin_words ix_default ix_this ix_C ix_Cxx builtin_void key_eqb).
Notation run := (run known builtin_words ix_default ix_this ix_C ix_Cxx builtin_void key_eqb).
Notation final_key := (final_key known builtin_words ix_default ix_this ix_C ix_Cxx builtin_void key_eqb).
Notation aget := (aget key_eqb).

(* ---- the association list ---- *)
Definition AOk (m : table) : Prop :=
  (forall i e, nth_error m i = Some e -> snd e = i) /\ NoDup (map fst m).

Definition extends (m m' : table) : Prop := exists ext, m' = m ++ ext.

Lemma extends_refl m : extends m m.
Proof. exists []. rewrite app_nil_r. reflexivity. Qed.
Lemma extends_trans a b c : extends a b -> extends b c -> extends a c.
Proof. intros [x ->] [y ->]. exists (x ++ y). rewrite app_assoc. reflexivity. Qed.
Lemma extends_nth m m' i e : extends m m' -> nth_error m i = Some e -> nth_error m' i = Some e.
Proof. intros [x ->] H. rewrite nth_error_app1; auto. eapply nth_error_lt2; eauto. Qed.
Lemma extends_length m m' : extends m m' -> (length m <= length m')%nat.
Proof. intros [x ->]. rewrite app_length. lia. Qed.

Lemma AOk_nil : AOk [].
Proof. split; [intros [|i] e H; discriminate | constructor]. Qed.

Lemma aget_spec : forall m k, AOk m ->
  let '(m', i) := aget m k in
  AOk m' /\ extends m m' /\ nth_error m' i = Some (k, i) /\
  (forall j, nth_error m j = Some (k, j) -> i = j).
Proof.
  intros m k [Hpos Hnd]. unfold Lexicon.aget.
  destruct (List.find (fun e => key_eqb (fst e) k) m) as [e|] eqn:Hf.
  - apply List.find_some in Hf as [Hin He]. apply key_eqb_eq in He.
    apply In_nth_error in Hin as [i Hi]. pose proof (Hpos _ _ Hi) as Hs.
    destruct e as [k' s]; simpl in *; subst.
    repeat split; auto using extends_refl.
    intros j Hj.
    apply (proj1 (NoDup_nth_error (map fst m)) Hnd i j).
    + rewrite map_length. eapply nth_error_lt2; eauto.
    + rewrite (map_nth_error fst _ _ Hi), (map_nth_error fst _ _ Hj). reflexivity.
  - assert (Hn : ~ In k (map fst m)).
    { intros Hin. apply in_map_iff in Hin as (e & He & Hin).
      eapply List.find_none in Hf; eauto. simpl in Hf. subst k.
      rewrite (proj2 (key_eqb_eq (fst e) (fst e)) eq_refl) in Hf. discriminate. }
    repeat split.
    + intros i e Hi. destruct (Nat.lt_ge_cases i (length m)).
      * rewrite nth_error_app1 in Hi by auto. auto.
      * assert (i = length m).
        { pose proof (nth_error_lt2 _ _ _ _ Hi) as Hl. rewrite app_length in Hl; simpl in Hl; lia. }
        subst. rewrite nth_error_app2, Nat.sub_diag in Hi by lia. inversion Hi; reflexivity.
    + rewrite map_app. simpl. clear - Hnd Hn. induction m as [|x m IH]; simpl in *.
      * constructor; [intros []|constructor].
      * inversion Hnd; subst. constructor.
        -- rewrite in_app_iff. simpl. intros [H|[H|[]]]; auto.
        -- apply IH; auto.
    + eexists; reflexivity.
    + rewrite nth_error_app2, Nat.sub_diag by lia. reflexivity.
    + intros j Hj. exfalso. apply Hn. apply in_map_iff. exists (k, j). split; auto. eapply nth_error_In; eauto.
Qed.

(* position <-> key in a well-formed table *)
Lemma AOk_inj : forall m a b k, AOk m -> nth_error m a = Some (k, a) -> nth_error m b = Some (k, b) -> a = b.
Proof.
  intros m a b k [_ Hnd] Ha Hb.
  apply (proj1 (NoDup_nth_error (map fst m)) Hnd a b).
  - rewrite map_length. eapply nth_error_lt2; eauto.
  - rewrite (map_nth_error fst _ _ Ha), (map_nth_error fst _ _ Hb). reflexivity.
Qed.

(* a constant answer is never a dynamically created node *)
Lemma norm_const_not_dyn : forall m r n, norm m r = NConst n -> forall i, n <> Dyn i.
Proof.
  intros m r n H i. destruct r; simpl in H;
    repeat match type of H with
           | context [match ?x with _ => _ end] => destruct x eqn:?; try discriminate
           end; inversion H; subst; discriminate.
Qed.

(* ---- one step ---- *)
Definition answers (M : table) (o : option nid) (fk : option (nid + key)) : Prop :=
  match fk with
  | Some (inl c) => o = Some c /\ forall i, c <> Dyn i
  | Some (inr k) => exists i, o = Some (Dyn i) /\ nth_error M i = Some (k, i)
  | None => o = None
  end.

Lemma step_spec : forall m r, AOk m ->
  AOk (fst (step m r)) /\ extends m (fst (step m r)) /\
  answers (fst (step m r)) (snd (step m r)) (final_key m r).
Proof.
  intros m r Hm. unfold Lexicon.step, Lexicon.final_key, answers.
  destruct (norm m r) as [c|k|k1 mk|] eqn:Hn; cbn [fst snd].
  - split; [exact Hm|]. split; [apply extends_refl|].
    split; [reflexivity|]. exact (norm_const_not_dyn m r c Hn).
  - pose proof (aget_spec m k Hm) as H. destruct (aget m k) as [m' i]. cbn [fst snd].
    destruct H as (A & E & N & _). split; [exact A|]. split; [exact E|]. exists i. auto.
  - pose proof (aget_spec m k1 Hm) as H1. destruct (aget m k1) as [m1 i1].
    destruct H1 as (A1 & E1 & _ & _).
    pose proof (aget_spec m1 (mk (Dyn i1)) A1) as H2. cbn [snd].
    destruct (aget m1 (mk (Dyn i1))) as [m2 i2]. cbn [fst snd].
    destruct H2 as (A2 & E2 & N2 & _). split; [exact A2|]. split; [eapply extends_trans; eauto|].
    exists i2. auto.
  - split; [exact Hm|]. split; [apply extends_refl|reflexivity].
Qed.

(* the trace of a history: state before each request, request, answer *)
Fixpoint trace (m : table) (rs : list request) : list (table * request * option nid) :=
  match rs with
  | [] => []
  | r :: rs' => (m, r, snd (step m r)) :: trace (fst (step m r)) rs'
  end.

Lemma answers_extends : forall M M' o fk, extends M M' -> answers M o fk -> answers M' o fk.
Proof.
  intros M M' o fk E. unfold answers. destruct fk as [[c|k]|]; auto.
  intros (i & Ho & Hn). exists i. split; auto. eapply extends_nth; eauto.
Qed.

Lemma trace_spec : forall rs m, AOk m ->
  exists M, AOk M /\ extends m M /\
  Forall (fun e => answers M (snd e) (final_key (fst (fst e)) (snd (fst e)))) (trace m rs).
Proof.
  induction rs as [|r rs IH]; intros m Hm; cbn [trace].
  - exists m. split; [exact Hm|]. split; [apply extends_refl|constructor].
  - destruct (step_spec m r Hm) as (A1 & E1 & Hres).
    destruct (IH (fst (step m r)) A1) as (M & AM & EM & HF).
    exists M. split; [exact AM|]. split; [eapply extends_trans; eauto|].
    constructor; [|exact HF]. cbn [fst snd]. eapply answers_extends; eauto.
Qed.

(* C01 / C04: for every history, two requests are answered by the same node
   exactly when they stand for the same key (or the same constant) *)
Theorem requests_unified : forall rs i j mi ri ni mj rj nj,
  nth_error (trace [] rs) i = Some (mi, ri, Some ni) ->
  nth_error (trace [] rs) j = Some (mj, rj, Some nj) ->
  (ni = nj <-> final_key mi ri = final_key mj rj).
Proof.
  intros rs i j mi ri ni mj rj nj Hi Hj.
  destruct (trace_spec rs [] AOk_nil) as (M & AM & _ & HF).
  rewrite Forall_forall in HF.
  pose proof (HF _ (nth_error_In _ _ Hi)) as Pi. pose proof (HF _ (nth_error_In _ _ Hj)) as Pj.
  cbn [fst snd] in Pi, Pj. unfold answers in Pi, Pj.
  destruct (final_key mi ri) as [[ci|ki]|]; destruct (final_key mj rj) as [[cj|kj]|]; try discriminate.
  - destruct Pi as [Ei _], Pj as [Ej _]. inversion Ei; inversion Ej; subst. split; congruence.
  - destruct Pi as [Ei Hc], Pj as (b & Ej & _). inversion Ei; inversion Ej; subst.
    split; [intros E; exfalso; eapply Hc; eauto|discriminate].
  - destruct Pj as [Ej Hc], Pi as (a & Ei & _). inversion Ei; inversion Ej; subst.
    split; [intros E; exfalso; eapply Hc; eauto|discriminate].
  - destruct Pi as (a & Ei & Na), Pj as (b & Ej & Nb). inversion Ei; inversion Ej; subst. split.
    + intros E. inversion E; subst. rewrite Na in Nb. inversion Nb; reflexivity.
    + intros E. inversion E; subst. f_equal. eapply AOk_inj; eauto.
Qed.

(* a refused request is one that stands for no key *)
Theorem refused_iff : forall rs i mi ri o,
  nth_error (trace [] rs) i = Some (mi, ri, o) -> (o = None <-> final_key mi ri = None).
Proof.
  intros rs i mi ri o Hi.
  destruct (trace_spec rs [] AOk_nil) as (M & AM & _ & HF).
  rewrite Forall_forall in HF. pose proof (HF _ (nth_error_In _ _ Hi)) as P.
  cbn [fst snd] in P. unfold answers in P.
  destruct (final_key mi ri) as [[c|k]|].
  - destruct P as [-> _]. split; discriminate.
  - destruct P as (a & -> & _). split; discriminate.
  - subst. tauto.
Qed.

(* earlier answers never change when the history is extended *)
Theorem answers_stable : forall rs rs' m i e,
  nth_error (trace m rs) i = Some e -> nth_error (trace m (rs ++ rs')) i = Some e.
Proof.
  induction rs as [|r rs IH]; intros rs' m i e H; cbn [trace app] in *.
  - destruct i; discriminate.
  - destruct i as [|i]; simpl in *; auto.
Qed.

(* ---- C11: qualified types are in normal form ---- *)
Definition unqualified (m : table) (t : nid) : Prop :=
  match key_of m t with Some (KQual _ _) => False | _ => True end.

Theorem qualified_never_empty : forall m t, step m (RQualified 0 t) = (m, None).
Proof. intros. unfold Lexicon.step. simpl. reflexivity. Qed.

(* the key a qualification request stands for *)
Theorem qualify_unqualified : forall m q t, q <> 0%N -> unqualified m t ->
  final_key m (RQualified q t) = Some (inr (KQual q t)).
Proof.
  intros m q t Hq Hu. unfold Lexicon.final_key. simpl.
  destruct (N.eqb_spec q 0); [contradiction|].
  unfold unqualified in Hu. destruct (key_of m t) as [[]|]; try reflexivity. contradiction.
Qed.

Theorem qualify_qualified : forall m q q' t t', q <> 0%N -> key_of m t = Some (KQual q' t') ->
  final_key m (RQualified q t) = Some (inr (KQual (N.lor q q') t')).
Proof.
  intros m q q' t t' Hq Hk. unfold Lexicon.final_key. simpl.
  destruct (N.eqb_spec q 0); [contradiction|]. rewrite Hk. reflexivity.
Qed.

(* well-scoped tables: the operand of every Qualified entry was created earlier
   and is itself unqualified; qualifier sets are never empty *)
Definition QInv (m : table) : Prop :=
  forall i q t, nth_error m i = Some (KQual q t, i) ->
    q <> 0%N /\ (forall j, t = Dyn j -> (j < i)%nat) /\
    (forall j q' t', t = Dyn j -> nth_error m j <> Some (KQual q' t', j)).

Definition scoped (m : table) (r : request) : Prop :=
  match r with RQualified _ (Dyn j) => (j < length m)%nat | _ => True end.

Lemma key_of_nth m j k : AOk m -> key_of m (Dyn j) = Some k <-> nth_error m j = Some (k, j).
Proof.
  intros [Hpos _]. simpl. split.
  - destruct (nth_error m j) as [[k' s]|] eqn:E; simpl; [|discriminate].
    intros H; inversion H; subst. pose proof (Hpos _ _ E). simpl in *. subst. reflexivity.
  - intros ->. reflexivity.
Qed.

Lemma norm_KQual : forall m r q t, norm m r = NKey (KQual q t) ->
  exists q0 t0, r = RQualified q0 t0 /\ q0 <> 0%N /\
    ((exists q', key_of m t0 = Some (KQual q' t) /\ q = N.lor q0 q') \/
     (q = q0 /\ t = t0 /\ unqualified m t0)).
Proof.
  intros m r q t H.
  destruct r; simpl in H;
    try (repeat match type of H with
                | context [match ?x with _ => _ end] => destruct x eqn:?; try discriminate
                end; discriminate).
  exists q0, t0. split; [reflexivity|].
  destruct (N.eqb_spec q0 0); [discriminate|]. split; [assumption|].
  unfold unqualified.
  destruct (key_of m t0) as [k|] eqn:Hk; [destruct k|]; inversion H; subst; eauto.
Qed.

Lemma norm_NKey2_not_qual : forall m r k1 mk, norm m r = NKey2 k1 mk ->
  (forall q t, k1 <> KQual q t) /\ (forall n q t, mk n <> KQual q t).
Proof.
  intros m r k1 mk H.
  destruct r; simpl in H;
    repeat match type of H with
           | context [match ?x with _ => _ end] => destruct x eqn:?; try discriminate
           end; inversion H; subst; split; intros; discriminate.
Qed.

Lemma QInv_snoc_other : forall m k, QInv m -> (forall q t, k <> KQual q t) -> QInv (m ++ [(k, length m)]).
Proof.
  intros m k HQ Hk i q t Hi.
  destruct (Nat.lt_ge_cases i (length m)) as [Hlt|Hge].
  - rewrite nth_error_app1 in Hi by auto. destruct (HQ i q t Hi) as (Q1 & Q2 & Q3).
    repeat split; auto. intros j q' t' -> Hj. specialize (Q2 j eq_refl).
    rewrite nth_error_app1 in Hj by lia. eapply Q3; eauto.
  - pose proof (nth_error_lt2 _ _ _ _ Hi) as Hl. rewrite app_length in Hl; simpl in Hl.
    assert (i = length m) by lia. subst i.
    rewrite nth_error_app2, Nat.sub_diag in Hi by lia. simpl in Hi. inversion Hi. exfalso. eapply Hk; eauto.
Qed.

Lemma aget_QInv_other : forall m k, QInv m -> (forall q t, k <> KQual q t) -> QInv (fst (aget m k)).
Proof.
  intros m k HQ Hk. unfold Lexicon.aget.
  destruct (List.find (fun e => key_eqb (fst e) k) m); cbn [fst]; auto using QInv_snoc_other.
Qed.

Theorem step_QInv : forall m r, AOk m -> QInv m -> scoped m r -> QInv (fst (step m r)).
Proof.
  intros m r Hm HQ Hsc. unfold Lexicon.step.
  destruct (norm m r) as [c|k|k1 mk|] eqn:Hn; cbn [fst]; auto.
  - (* one insert-or-find *)
    destruct (aget m k) as [m' a] eqn:Eg. cbn [fst].
    assert (m' = fst (aget m k)) by (rewrite Eg; reflexivity). subst m'. clear Eg a.
    destruct k; try (apply aget_QInv_other; auto; intros; discriminate).
    (* k = KQual q t *)
    destruct (norm_KQual m r q t Hn) as (q0 & t0 & -> & Hq0 & Hcase).
    unfold Lexicon.aget.
    destruct (List.find (fun e => key_eqb (fst e) (KQual q t)) m) eqn:Hf; cbn [fst]; [exact HQ|].
    intros i q1 t1 Hi.
    destruct (Nat.lt_ge_cases i (length m)) as [Hlt|Hge].
    + rewrite nth_error_app1 in Hi by auto. destruct (HQ i q1 t1 Hi) as (Q1 & Q2 & Q3).
      repeat split; auto. intros j q' t' -> Hj. specialize (Q2 j eq_refl).
      rewrite nth_error_app1 in Hj by lia. eapply Q3; eauto.
    + pose proof (nth_error_lt2 _ _ _ _ Hi) as Hl. rewrite app_length in Hl; simpl in Hl.
      assert (i = length m) by lia. subst i.
      rewrite nth_error_app2, Nat.sub_diag in Hi by lia. simpl in Hi. inversion Hi; subst q1 t1. clear Hi.
      destruct Hcase as [(q' & Hk & ->)|(-> & -> & Hu)].
      * (* flattened: (KQual q' t) is already in the table, at the position of t0 *)
        destruct t0; simpl in Hk; try discriminate.
        apply (key_of_nth m _ _ Hm) in Hk.
        destruct (HQ _ _ _ Hk) as (Q1 & Q2 & Q3). pose proof (nth_error_lt2 _ _ _ _ Hk) as Hl0.
        repeat split.
        -- intros E. apply N.lor_eq_0_iff in E. tauto.
        -- intros j ->. specialize (Q2 j eq_refl). lia.
        -- intros j q'' t'' -> Hj. specialize (Q2 j eq_refl).
           rewrite nth_error_app1 in Hj by lia. eapply Q3; eauto.
      * (* plain: t0 is not qualified *)
        repeat split; auto.
        -- intros j ->. simpl in Hsc. exact Hsc.
        -- intros j q'' t'' -> Hj. simpl in Hsc. rewrite nth_error_app1 in Hj by lia.
           apply (key_of_nth m _ _ Hm) in Hj. unfold unqualified in Hu. rewrite Hj in Hu. exact Hu.
  - (* two lookups: neither key is a KQual *)
    destruct (norm_NKey2_not_qual m r k1 mk Hn) as [N1 N2].
    destruct (aget m k1) as [m1 i1] eqn:E1.
    assert (Q1 : QInv m1) by (replace m1 with (fst (aget m k1)) by (rewrite E1; reflexivity); apply aget_QInv_other; auto).
    destruct (aget m1 (mk (Dyn i1))) as [m2 i2] eqn:E2. cbn [fst].
    replace m2 with (fst (aget m1 (mk (Dyn i1)))) by (rewrite E2; reflexivity). apply aget_QInv_other; auto.
Qed.

(* the main variant of a qualified node is never itself qualified, and its
   qualifier set is never empty *)
Theorem main_variant_unqualified : forall m i q t, AOk m -> QInv m ->
  nth_error m i = Some (KQual q t, i) -> q <> 0%N /\ unqualified m t.
Proof.
  intros m i q t Hm HQ Hi. destruct (HQ i q t Hi) as (Q1 & Q2 & Q3). split; auto.
  unfold unqualified. destruct (key_of m t) as [k|] eqn:Hk; auto. destruct k; auto.
  destruct t; simpl in Hk; try discriminate.
  apply (key_of_nth m _ _ Hm) in Hk. eapply Q3; eauto.
Qed.

(* ---- histories keep the invariants ---- *)
Fixpoint scoped_run (m : table) (rs : list request) : Prop :=
  match rs with [] => True | r :: rs' => scoped m r /\ scoped_run (fst (step m r)) rs' end.

Theorem run_invariants : forall rs m, AOk m -> QInv m -> scoped_run m rs ->
  AOk (fst (run m rs)) /\ QInv (fst (run m rs)) /\ extends m (fst (run m rs)).
Proof.
  induction rs as [|r rs IH]; intros m Hm HQ Hs; cbn [Lexicon.run].
  - cbn [fst]. auto using extends_refl.
  - destruct Hs as [Hs1 Hs2].
    destruct (step_spec m r Hm) as (A1 & E1 & _).
    pose proof (step_QInv m r Hm HQ Hs1) as Q1.
    destruct (step m r) as [m1 o]. cbn [fst] in *.
    destruct (IH m1 A1 Q1 Hs2) as (A2 & Q2 & E2).
    destruct (Lexicon.run known builtin_words ix_default ix_this ix_C ix_Cxx builtin_void key_eqb m1 rs) as [m2 os].
    cbn [fst] in *. eauto using extends_trans.
Qed.

Lemma QInv_nil : QInv [].
Proof. intros [|i] q t H; discriminate. Qed.

(* ---- C11: the result of successive qualifications ---- *)
(* [chain m cur q0 t]: cur is t itself (q0 = 0, t unqualified and already
   created) or the node of (q0, t) *)
Definition chain (m : table) (cur : nid) (q0 : N) (t : nid) : Prop :=
  (q0 = 0%N /\ cur = t /\ unqualified m t /\ (forall j, t = Dyn j -> (j < length m)%nat)) \/
  (q0 <> 0%N /\ exists i, cur = Dyn i /\ nth_error m i = Some (KQual q0 t, i)).

Lemma chain_extends : forall m m' cur q0 t, AOk m -> extends m m' -> chain m cur q0 t -> chain m' cur q0 t.
Proof.
  intros m m' cur q0 t Hm E [(H1 & H2 & H3 & H4)|(H1 & i & H2 & H3)].
  - left. repeat split; auto.
    + unfold unqualified in *. destruct t; simpl in *; auto.
      specialize (H4 i eq_refl).
      destruct (nth_error m i) as [e|] eqn:En; [|apply nth_error_None in En; lia].
      rewrite (extends_nth _ _ _ _ E En). exact H3.
    + intros j ->. specialize (H4 j eq_refl). pose proof (extends_length _ _ E). lia.
  - right. split; auto. exists i. split; auto. eapply extends_nth; eauto.
Qed.

Lemma step_chain : forall m cur q0 t q, AOk m -> chain m cur q0 t -> q <> 0%N ->
  exists i, snd (step m (RQualified q cur)) = Some (Dyn i) /\
            nth_error (fst (step m (RQualified q cur))) i = Some (KQual (N.lor q q0) t, i).
Proof.
  intros m cur q0 t q Hm Hc Hq.
  destruct (step_spec m (RQualified q cur) Hm) as (_ & _ & Ha).
  assert (Hk : final_key m (RQualified q cur) = Some (inr (KQual (N.lor q q0) t))).
  { destruct Hc as [(-> & -> & Hu & _)|(Hq0 & i & -> & Hi)].
    - rewrite N.lor_0_r. apply qualify_unqualified; auto.
    - apply qualify_qualified; auto. apply key_of_nth; auto. }
  rewrite Hk in Ha. exact Ha.
Qed.

Fixpoint qualify_seq (m : table) (cur : nid) (qs : list N) : table * option nid :=
  match qs with
  | [] => (m, Some cur)
  | q :: qs' => match step m (RQualified q cur) with
                | (m', Some c') => qualify_seq m' c' qs'
                | (m', None) => (m', None)
                end
  end.

Lemma qualify_seq_chain : forall qs m cur q0 t, AOk m -> chain m cur q0 t -> Forall (fun q => q <> 0%N) qs ->
  exists c, snd (qualify_seq m cur qs) = Some c /\ AOk (fst (qualify_seq m cur qs)) /\
            extends m (fst (qualify_seq m cur qs)) /\
            chain (fst (qualify_seq m cur qs)) c (fold_left (fun acc q => N.lor q acc) qs q0) t.
Proof.
  induction qs as [|q qs IH]; intros m cur q0 t Hm Hc Hq; cbn [qualify_seq fold_left].
  - exists cur. cbn [fst snd]. split; [reflexivity|]. split; [exact Hm|]. split; [apply extends_refl|exact Hc].
  - inversion Hq as [|? ? Hq1 Hq2]; subst.
    destruct (step_chain m cur q0 t q Hm Hc Hq1) as (i & Hs & Hn).
    destruct (step_spec m (RQualified q cur) Hm) as (A1 & E1 & _).
    destruct (step m (RQualified q cur)) as [m1 o]. cbn [fst snd] in *. subst o.
    assert (Hc1 : chain m1 (Dyn i) (N.lor q q0) t).
    { right. split; [intros E; apply N.lor_eq_0_iff in E; tauto|]. exists i. auto. }
    destruct (IH m1 (Dyn i) (N.lor q q0) t A1 Hc1 Hq2) as (c & H1 & H2 & H3 & H4).
    exists c. split; [exact H1|]. split; [exact H2|]. split; [eapply extends_trans; eauto|exact H4].
Qed.

(* qualifying an unqualified type by any two non-empty sequences of non-empty
   qualifier sets with the same union yields the very same node, whatever was
   built in between *)
Theorem qualification_order_irrelevant : forall m t qs qs' m1,
  AOk m -> unqualified m t -> (forall j, t = Dyn j -> (j < length m)%nat) ->
  Forall (fun q => q <> 0%N) qs -> Forall (fun q => q <> 0%N) qs' -> qs <> [] -> qs' <> [] ->
  fold_left (fun acc q => N.lor q acc) qs 0%N = fold_left (fun acc q => N.lor q acc) qs' 0%N ->
  AOk m1 -> extends (fst (qualify_seq m t qs)) m1 ->
  exists c, snd (qualify_seq m t qs) = Some c /\ snd (qualify_seq m1 t qs') = Some c /\
            exists q, q <> 0%N /\ key_of (fst (qualify_seq m1 t qs')) c = Some (KQual q t).
Proof.
  intros m t qs qs' m1 Hm Hu Hsc Hq Hq' Hne Hne' Hor Hm1 E1.
  assert (Hc0 : chain m t 0 t) by (left; auto).
  destruct (qualify_seq_chain qs m t 0%N t Hm Hc0 Hq) as (c & Hs & A & E & Hc).
  assert (Hc0' : chain m1 t 0 t) by (eapply chain_extends; [exact Hm|eapply extends_trans; eauto|exact Hc0]).
  destruct (qualify_seq_chain qs' m1 t 0%N t Hm1 Hc0' Hq') as (c' & Hs' & A' & E' & Hc').
  rewrite <- Hor in Hc'.
  set (Q := fold_left (fun acc q => N.lor q acc) qs 0%N) in *.
  assert (HQ : Q <> 0%N).
  { unfold Q. destruct qs as [|q qs]; [congruence|]. inversion Hq; subst. cbn [fold_left].
    assert (G : forall l a, a <> 0%N -> fold_left (fun acc q => N.lor q acc) l a <> 0%N).
    { induction l as [|x l IHl]; intros a Ha; cbn [fold_left]; auto.
      apply IHl. intros E0. apply N.lor_eq_0_iff in E0. tauto. }
    apply G. rewrite N.lor_0_r. auto. }
  destruct Hc as [(Hz & _)|(_ & i & -> & Hi)]; [contradiction|].
  destruct Hc' as [(Hz & _)|(_ & i' & -> & Hi')]; [contradiction|].
  assert (i = i').
  { eapply AOk_inj; [exact A'| |exact Hi']. eapply extends_nth; [|exact Hi]. eapply extends_trans; eauto. }
  subst i'. exists (Dyn i). repeat split; auto.
  exists Q. split; auto. apply key_of_nth; auto.
Qed.

(* ---- C04: strings, identifiers, value equality ---- *)
Hypothesis known_sorted : sorted_strict known.
Hypothesis known_nonempty : ~ In [] known.

Definition TInv (m : table) : Prop :=
  forall i k, nth_error m i = Some (k, i) ->
    match k with
    | KStr w => w <> [] /\ word_if_known known w = None
    | K1 CIdentifier s => forall k', s <> StrKnown k'
    | K1 CLogogram s => s <> StrEmpty /\ forall k', s <> StrKnown k'
    | _ => True
    end.

Lemma TInv_nil : TInv [].
Proof. intros [|i] k H; discriminate. Qed.

Definition key_ok (k : key) : Prop :=
  match k with
  | KStr w => w <> [] /\ word_if_known known w = None
  | K1 CIdentifier s => forall k', s <> StrKnown k'
  | K1 CLogogram s => s <> StrEmpty /\ forall k', s <> StrKnown k'
  | _ => True
  end.

Lemma norm_key_ok1 : forall m r k, norm m r = NKey k -> key_ok k.
Proof.
  intros m r k H. destruct r; simpl in H;
    repeat match type of H with
           | context [match ?x with _ => _ end] => destruct x eqn:?; try discriminate
           end; inversion H; subst; simpl; auto;
    try (split; [discriminate|assumption]); try (intros; discriminate);
    try (split; intros; discriminate).
Qed.

Lemma norm_key_ok2 : forall m r k1 mk, norm m r = NKey2 k1 mk -> key_ok k1 /\ forall n, key_ok (mk n).
Proof.
  intros m r k1 mk H. destruct r; simpl in H;
    repeat match type of H with
           | context [match ?x with _ => _ end] => destruct x eqn:?; try discriminate
           end; inversion H; subst; simpl; auto;
    try (split; [split|]; intros; try discriminate; auto).
Qed.

Lemma aget_TInv : forall m k, TInv m -> key_ok k -> TInv (fst (aget m k)).
Proof.
  intros m k HT Hk. unfold Lexicon.aget.
  destruct (List.find (fun e => key_eqb (fst e) k) m); cbn [fst]; auto.
  intros i k' Hi.
  destruct (Nat.lt_ge_cases i (length m)) as [Hlt|Hge].
  - rewrite nth_error_app1 in Hi by auto. apply (HT i k' Hi).
  - pose proof (nth_error_lt2 _ _ _ _ Hi) as Hl. rewrite app_length in Hl; simpl in Hl.
    assert (i = length m) by lia. subst i.
    rewrite nth_error_app2, Nat.sub_diag in Hi by lia. simpl in Hi. inversion Hi; subst. exact Hk.
Qed.

Theorem step_TInv : forall m r, TInv m -> TInv (fst (step m r)).
Proof.
  intros m r HT. unfold Lexicon.step.
  destruct (norm m r) as [c|k|k1 mk|] eqn:Hn; cbn [fst]; auto.
  - pose proof (aget_TInv m k HT (norm_key_ok1 m r k Hn)) as H. destruct (aget m k). exact H.
  - destruct (norm_key_ok2 m r k1 mk Hn) as [H1 H2].
    pose proof (aget_TInv m k1 HT H1) as T1. destruct (aget m k1) as [m1 i1]. cbn [fst] in T1.
    pose proof (aget_TInv m1 (mk (Dyn i1)) T1 (H2 _)) as T2. destruct (aget m1 (mk (Dyn i1))). exact T2.
Qed.

Lemma known_NoDup_idx : forall a b w, nth_error known a = Some w -> nth_error known b = Some w -> a = b.
Proof.
  intros a b w Ha Hb.
  apply (word_if_known_correct known known_sorted) in Ha. apply (word_if_known_correct known known_sorted) in Hb. congruence.
Qed.

(* a String node of the Lexicon *)
Definition is_string (m : table) (s : nid) : Prop :=
  s = StrEmpty \/ (exists k, s = StrKnown k /\ (k < length known)%nat) \/
  (exists i w, s = Dyn i /\ nth_error m i = Some (KStr w, i)).

(* one String per spelling *)
Theorem string_unique : forall m s s' w, AOk m -> TInv m -> is_string m s -> is_string m s' ->
  str_word known m s = Some w -> str_word known m s' = Some w -> s = s'.
Proof.
  intros m s s' w Hm HT Hs Hs' Hw Hw'.
  assert (Dynw : forall i v, nth_error m i = Some (KStr v, i) -> str_word known m (Dyn i) = Some v).
  { intros i v H. simpl. rewrite H. reflexivity. }
  destruct Hs as [->|[(k & -> & Hk)|(i & v & -> & Hi)]];
  destruct Hs' as [->|[(k' & -> & Hk')|(i' & v' & -> & Hi')]]; auto; simpl in Hw, Hw'.
  - inversion Hw; subst. exfalso. apply known_nonempty. eapply nth_error_In; eauto.
  - rewrite Hi' in Hw'. simpl in Hw'. inversion Hw; inversion Hw'; subst. destruct (HT _ _ Hi') as [Hne _]. congruence.
  - inversion Hw'; subst. exfalso. apply known_nonempty. eapply nth_error_In; eauto.
  - f_equal. eapply known_NoDup_idx; eauto.
  - rewrite Hi' in Hw'. simpl in Hw'. inversion Hw'; subst.
    destruct (HT _ _ Hi') as [_ Hnk]. apply (word_if_known_correct known known_sorted) in Hw. congruence.
  - rewrite Hi in Hw. simpl in Hw. inversion Hw; inversion Hw'; subst. destruct (HT _ _ Hi) as [Hne _]. congruence.
  - rewrite Hi in Hw. simpl in Hw. inversion Hw; subst.
    destruct (HT _ _ Hi) as [_ Hnk]. apply (word_if_known_correct known known_sorted) in Hw'. congruence.
  - rewrite Hi in Hw. rewrite Hi' in Hw'. simpl in Hw, Hw'. inversion Hw; inversion Hw'; subst.
    f_equal. eapply AOk_inj; eauto.
Qed.

(* an Identifier node: a reserved word, or a dynamic node over a String *)
Definition is_identifier (m : table) (n : nid) : Prop :=
  (exists k, n = WordId k /\ (k < length known)%nat) \/
  (exists i s, n = Dyn i /\ nth_error m i = Some (K1 CIdentifier s, i) /\ is_string m s).

Definition ident_word (m : table) (n : nid) : option word :=
  match n with
  | WordId k => nth_error known k
  | Dyn _ => match key_of m n with Some (K1 CIdentifier s) => str_word known m s | _ => None end
  | _ => None
  end.

(* the Identifier for a spelling is the one and only Identifier with that spelling *)
Theorem identifier_unique : forall m n n' w, AOk m -> TInv m ->
  is_identifier m n -> is_identifier m n' -> ident_word m n = Some w -> ident_word m n' = Some w -> n = n'.
Proof.
  intros m n n' w Hm HT Hn Hn' Hw Hw'.
  assert (Hno : forall i s k, nth_error m i = Some (K1 CIdentifier s, i) -> is_string m s ->
                              str_word known m s = Some w -> nth_error known k = Some w -> False).
  { intros i s k Hi Hs Hsw Hk. pose proof (HT _ _ Hi) as Hnk. simpl in Hnk.
    destruct Hs as [->|[(k' & -> & _)|(j & v & -> & Hj)]].
    - simpl in Hsw. inversion Hsw; subst. apply known_nonempty. eapply nth_error_In; eauto.
    - eapply Hnk; eauto.
    - simpl in Hsw. rewrite Hj in Hsw. simpl in Hsw. inversion Hsw; subst.
      destruct (HT _ _ Hj) as [_ Hx]. apply (word_if_known_correct known known_sorted) in Hk. congruence. }
  destruct Hn as [(k & -> & Hk)|(i & s & -> & Hi & Hs)]; destruct Hn' as [(k' & -> & Hk')|(i' & s' & -> & Hi' & Hs')];
    simpl in Hw, Hw'.
  - f_equal. eapply known_NoDup_idx; eauto.
  - rewrite Hi' in Hw'. simpl in Hw'. exfalso. eapply Hno; eauto.
  - rewrite Hi in Hw. simpl in Hw. exfalso. eapply Hno; eauto.
  - rewrite Hi in Hw. rewrite Hi' in Hw'. simpl in Hw, Hw'.
    assert (s = s') by (eapply string_unique; eauto). subst s'.
    f_equal. eapply AOk_inj; eauto.
Qed.

(* Logogram / Linkage / Calling_convention / Transfer values compare equal
   (operator==: identity of the String under the logogram) exactly when they are
   spelled the same *)
Definition logo_eq (m : table) (g g' : nid) : Prop := logo_string m g = logo_string m g' /\ logo_string m g <> None.

Theorem value_equality_is_spelling : forall m g g' s s' w w', AOk m -> TInv m ->
  logo_string m g = Some s -> logo_string m g' = Some s' -> is_string m s -> is_string m s' ->
  str_word known m s = Some w -> str_word known m s' = Some w' ->
  (s = s' <-> w = w').
Proof.
  intros m g g' s s' w w' Hm HT Hg Hg' Hs Hs' Hw Hw'. split.
  - intros ->. congruence.
  - intros ->. eapply string_unique; eauto.
Qed.
End LexProofs.
