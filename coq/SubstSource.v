(* SubstSource.v — the body of impl::Elementary_substitution::operator[] as it stands in
   <ipr/impl> (regenerated into GenDerived.gen_derived on every run) denotes the
   singleton finite map of Subst.elem_apply, for EVERY interpretation of the
   object's two reference members and every parameter it is applied to. *)
From Coq Require Import List PeanoNat Bool String ZArith.
From IprV Require Import GenTypes Derived GenDerived GenFactory Subst.
Import ListNotations.
Local Open Scope string_scope.

Definition elem_key := "impl::Elementary_substitution::operator[]".

(* node identities of the model's expressions: a parameter is itself an expression *)
Definition obj_of (e : expr) : nat := match e with Param p => p | Value v => v end.

Definition elem_body : option (nat * cexpr) := lookup_row gen_derived elem_key.

Section Denotation.
Variable I : interp.

Definition apply_source (fuel : nat) (s q : nat) : value :=
  match elem_body with
  | Some (_, body) => eval gen_derived I fuel (VObj s) [VObj q] body
  | None => VErr "no body"
  end.

(* the constructor's member initialisers, regenerated: which constructor argument each member is bound to *)
Definition elem_inits : list (string * nat) :=
  match List.find (fun r => streq (fst r) "impl::Elementary_substitution") gen_ctor_inits with
  | Some r => snd r | None => [] end.

(* object s is what the constructor leaves when called with (parameter p, expression v) *)
Definition constructed (s p v : nat) : Prop :=
  forall f i, In (f, i) elem_inits -> fld I f (VObj s) = VObj (nth i [p; v] 0).

Theorem elementary_source_denotes : forall fuel s p v q,
  constructed s p v ->
  apply_source (12 + fuel) s q = VObj (obj_of (elem_apply p (Value v) q)).
Proof.
  intros fuel s p v q H. unfold apply_source, elem_apply.
  let b := eval vm_compute in elem_body in change elem_body with b.
  cbn -[Nat.eqb].
  repeat match goal with
         | |- context [fld I ?f (VObj s)] =>
             first [ rewrite (H f 0 ltac:(vm_compute; auto 6)) | rewrite (H f 1 ltac:(vm_compute; auto 6)) ]
         end.
  cbn -[Nat.eqb].
  destruct (Nat.eqb_spec q p) as [E|E]; destruct (Nat.eqb_spec p q) as [E'|E']; subst;
    try congruence; try reflexivity.
Qed.
End Denotation.

(* the premises are satisfiable: an interpretation in which object 9 is the substitution 4 := 7 *)
Definition demo_interp : interp :=
  {| prim := fun _ _ _ => VErr "no primitive";
     fld := fun name o => match o with
                          | VObj 9 => if streq name "parm" then VObj 4 else if streq name "value" then VObj 7 else VErr "field"
                          | _ => VErr "field" end |}.
Example elementary_source_example :
  constructed demo_interp 9 4 7 /\ map (apply_source demo_interp 12 9) [4; 5] = [VObj 7; VObj 5].
Proof.
  split; [|vm_compute; reflexivity].
  intros f i Hin. vm_compute in Hin.
  repeat match type of Hin with _ \/ _ => destruct Hin as [Hin|Hin] end;
    try contradiction; inversion Hin; subst; reflexivity.
Qed.

(* the factory hands its two operands, in order, to the constructor through the farm *)
Definition elem_factory_forwards : bool :=
  match List.find (fun g => streq (gf_name g) "make_elementary_substitution") gen_factories with
  | Some g => streq (gf_body g) "farm.make" &&
              match gf_call g with Some [Some 0; Some 1] => true | _ => false end
  | None => false
  end.
Lemma elem_factory_forwards_checked : elem_factory_forwards = true.
Proof. vm_compute. reflexivity. Qed.
