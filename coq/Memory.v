(* Memory.v — allocation accounting (C19): what the destructors release is
   exactly what was allocated, once.

   Two kinds of owners allocate on behalf of a Lexicon besides the standard
   containers: the red-black containers (one node per element, make_node) and
   the string arena (pools).  The destructor of the container walks the tree
   from the root; the destructor of the arena walks the `previous` chain. *)
From Coq Require Import List ZArith Lia Bool PeanoNat Permutation Sorted.
From IprV Require Import RBModel RBProofs Unify Arena ArenaProofs.
Import ListNotations.

Section Tree.
Variable key : Type.
Variable cmp : key -> key -> Z.
Hypothesis cmp_total : TotalOrder key cmp.
Hypothesis cmp_eq : forall a b, cmp a b = 0%Z <-> a = b.
Variable key_eqb : key -> key -> bool.
Hypothesis key_eqb_eq : forall a b, key_eqb a b = true <-> a = b.

Notation elt := (elt key).
Notation ecmp := (ecmp key cmp).

Lemma ordered_NoDup : forall t, ordered elt ecmp t -> NoDup (elements elt t).
Proof.
  unfold ordered. intros t. generalize (elements elt t). induction l as [|x l IH]; intros H; [constructor|].
  inversion H as [|? ? Hs Hall]; subst. constructor; auto.
  intros Hin. rewrite Forall_forall in Hall. specialize (Hall x Hin). unfold before in Hall.
  pose proof (cmp_refl elt ecmp (ecmp_total key cmp cmp_total) x). lia.
Qed.

(* serial numbers of the nodes the tree holds = serial numbers ever allocated *)
Theorem tree_holds_exactly_allocated : forall ks s ns,
  trun key cmp (rb_empty elt) ks = Some (s, ns) ->
  Permutation (map snd (elements elt (rb_tree elt s))) (seq 0 (Z.to_nat (rb_count elt s))).
Proof.
  intros ks s ns H.
  destruct (trun_refines key cmp cmp_total cmp_eq key_eqb key_eqb_eq ks _ _ (Rel_init key cmp)) as (s' & Ht & HR).
  rewrite H in Ht. inversion Ht; subst s'. clear Ht.
  destruct HR as ((_ & Hord) & Hc & (Hpos & Hnd) & Hel).
  set (m := fst (arun key key_eqb [] ks)) in *.
  rewrite Hc, Nat2Z.id.
  assert (Hm : map snd m = seq 0 (length m)).
  { clear - Hpos. revert Hpos. generalize m. intros l. induction l as [|e l IH] using rev_ind; intros Hp; [reflexivity|].
    rewrite map_app, app_length, Nat.add_1_r, seq_S. simpl. f_equal.
    - apply IH. intros i x Hi. apply Hp. rewrite nth_error_app1; auto. apply nth_error_Some. congruence.
    - f_equal. apply (Hp (length l)). rewrite nth_error_app2, Nat.sub_diag by lia. reflexivity. }
  rewrite <- Hm. apply Permutation_map. apply NoDup_Permutation.
  - apply ordered_NoDup. exact Hord.
  - apply NoDup_map_inv with (f := fst). exact Hnd.
  - exact Hel.
Qed.
End Tree.

(* the ledger of one Lexicon-like owner: pools of its arena, nodes of its trees *)
Inductive cell := CPool (p : nat) | CNode (table serial : nat).

Definition allocated (a : arena) (trees : list (nat * nat)) : list cell :=      (* (table id, node count) *)
  map CPool (seq 0 (a_npools a)) ++ flat_map (fun t => map (CNode (fst t)) (seq 0 (snd t))) trees.

(* what destruction releases, given what the destructors in the source do *)
Definition released (arena_dtor container_dtor : bool) (a : arena) (held : list (nat * list nat)) : list cell :=
  (if arena_dtor then map CPool (a_chain a) else []) ++
  (if container_dtor then flat_map (fun t => map (CNode (fst t)) (snd t)) held else []).

Lemma NoDup_app_intro : forall (A : Type) (l1 l2 : list A),
  NoDup l1 -> NoDup l2 -> (forall x, In x l1 -> In x l2 -> False) -> NoDup (l1 ++ l2).
Proof.
  induction l1 as [|a l1 IH]; intros l2 Hn1 Hn2 H; simpl; auto.
  inversion Hn1; subst. constructor.
  - rewrite in_app_iff. intros [Hi|Hi]; [auto|eapply H; simpl; eauto].
  - apply IH; auto. intros x Hx Hy. eapply H; simpl; eauto.
Qed.

Lemma Permutation_flat_map : forall (A B : Type) (f g : A -> list B) l,
  (forall x, In x l -> Permutation (f x) (g x)) -> Permutation (flat_map f l) (flat_map g l).
Proof.
  induction l as [|x l IH]; intros H; simpl; [constructor|].
  apply Permutation_app; [apply H; simpl; auto | apply IH; intros; apply H; simpl; auto].
Qed.

(* if both destructors walk their structures, everything allocated is released, exactly once *)
Theorem no_leak_no_double_free : forall ns (held : list (nat * list nat)) (counts : list (nat * nat)),
  Forall (fun n => (0 <= n)%Z) ns ->
  map fst held = map fst counts -> NoDup (map fst held) ->
  (forall t l c, In (t, l) held -> In (t, c) counts -> Permutation l (seq 0 c)) ->
  let a := run_arena arena_init ns in
  Permutation (released true true a held) (allocated a counts) /\ NoDup (released true true a held).
Proof.
  intros ns held counts Hns Hfst Hnd Hperm a.
  pose proof (chain_complete ns Hns) as Hc. fold a in Hc.
  assert (Hheld : Permutation (flat_map (fun t => map (CNode (fst t)) (snd t)) held)
                              (flat_map (fun t => map (CNode (fst t)) (seq 0 (snd t))) counts)).
  { clear Hc. revert counts Hfst Hperm. induction held as [|[t l] held IH]; intros [|[t' c] counts] Hf Hp; simpl in *; try discriminate; [constructor|].
    inversion Hf; subst t'. apply Permutation_app.
    - apply Permutation_map. apply (Hp t l c); auto.
    - inversion Hnd; subst. apply IH; auto.
      intros t2 l2 c2 Hi1 Hi2. apply (Hp t2 l2 c2); auto. }
  split.
  - unfold released, allocated. apply Permutation_app; [apply Permutation_map; exact Hc|exact Hheld].
  - eapply Permutation_NoDup; [apply Permutation_sym; unfold released; apply Permutation_app; [apply Permutation_map; exact Hc|exact Hheld]|].
    (* the allocated cells are pairwise distinct *)
    apply NoDup_app_intro.
    + apply FinFun.Injective_map_NoDup; [intros x y E; inversion E; auto|apply seq_NoDup].
    + assert (Hfc : NoDup (map fst counts)) by (rewrite <- Hfst; exact Hnd).
      clear - Hfc. induction counts as [|[t c] counts IH]; simpl; [constructor|].
      inversion Hfc; subst. apply NoDup_app_intro.
      * apply FinFun.Injective_map_NoDup; [intros x y E; inversion E; auto|apply seq_NoDup].
      * apply IH; auto.
      * intros x Hx Hy. apply in_map_iff in Hx as (i & <- & _).
        apply in_flat_map in Hy as ((t2, c2) & Hin & Hy). apply in_map_iff in Hy as (j & E & _). inversion E; subst.
        apply H1. apply in_map_iff. exists (t, c2). auto.
    + intros x Hx Hy. apply in_map_iff in Hx as (i & <- & _).
      apply in_flat_map in Hy as (t & _ & Hy). apply in_map_iff in Hy as (j & E & _). discriminate.
Qed.

(* without the container destructor, every tree node is leaked *)
Theorem no_container_destructor_leaks : forall a held t n rest,
  held = (t, n :: rest) :: nil -> ~ In (CNode t n) (released true false a held).
Proof.
  intros a held t n rest -> H. unfold released in H. simpl in H. rewrite app_nil_r in H.
  apply in_map_iff in H as (p & E & _). discriminate.
Qed.
