(* Visitor.v — model of category stamping, accept, default visitor hooks and
   util::view over the tables regenerated from the sources (C06).

   The tables are parameters: the checkers are boolean functions evaluated on
   the generated tables by vm_compute in Properties_C06.v and lifted to
   universally quantified statements by the lemmas below. *)
From Coq Require Import List ZArith String Bool PeanoNat.
From IprV Require Import GenTypes.
Import ListNotations.
Local Open Scope string_scope.

Definition sinks : list string := ["Node"; "Expr"; "Name"; "Type"; "Directive"; "Stmt"; "Decl"].
Definition is_sink (h : string) : bool := str_mem h sinks.

Fixpoint strs_eqb (a b : list string) : bool :=
  match a, b with
  | [], [] => true
  | x :: a', y :: b' => streq x y && strs_eqb a' b'
  | _, _ => false
  end.

Lemma strs_eqb_eq a b : strs_eqb a b = true <-> a = b.
Proof.
  revert b; induction a as [|x a IH]; destruct b as [|y b]; simpl;
    try (split; [discriminate|congruence]); [tauto|].
  rewrite andb_true_iff, streq_eq, IH. split; [intros [-> ->]; auto | intros H; inversion H; auto].
Qed.

Section Tables.
Variable cats : list string.
Variable ifaces : list iface_row.
Variable visitor : list visitor_row.
Variable accepts : list accept_row.

Definition find_iface (n : string) : option iface_row :=
  List.find (fun r => streq (if_name r) n) ifaces.
Definition find_hook (n : string) : option visitor_row :=
  List.find (fun r => streq (v_param r) n) visitor.

(* a leaf interface: a node class carrying its own category code *)
Definition is_leaf (r : iface_row) : bool := if_is_node r && (0 <=? if_code r)%Z.

(* 1. the code stamped by Category<> is the enumerator bearing the class's own name *)
Definition own_code_ok (r : iface_row) : bool :=
  negb (is_leaf r) ||
  match nth_error cats (Z.to_nat (if_code r)) with
  | Some c => streq c (if_name r)
  | None => false
  end.

(* 2. accept: *this implements interface X and the call resolves to visit(const X&) *)
Definition accept_ok (a : accept_row) : bool := strs_eqb (a_targets a) [a_iface a].
(* interface classes for which the library instantiates no implementation
   class (there is no factory for them): impl::Comment and impl::Annotation are
   alias templates never used inside the library *)
Definition unimplemented : list string := ["Comment"; "Annotation"].
Definition leaf_has_accept (r : iface_row) : bool :=
  negb (is_leaf r) || str_mem (if_name r) unimplemented ||
  existsb (fun a => streq (a_iface a) (if_name r)) accepts.

(* 3. the default hook of a leaf (and of Classic) is one call, to the hook of
      the nearest abstract super-category *)
Definition needs_default (r : iface_row) : bool :=
  if_is_node r && negb (is_sink (if_name r)).
Definition forward_ok (r : iface_row) : bool :=
  negb (needs_default r) ||
  match find_hook (if_name r) with
  | Some h => negb (v_pure h) && v_defined h && Nat.eqb (v_stmts h) 1 &&
              strs_eqb (v_forward h) [if_nearest r]
  | None => false
  end.

(* 4. dispatch: the hooks of a visitor overriding exactly [ov] that run when
      the hook for class [h] is entered *)
Fixpoint dispatch (fuel : nat) (ov : string -> bool) (h : string) : list string :=
  if ov h then [h] else
  match fuel with
  | O => ["<loop>"]
  | S f =>
    match find_hook h with
    | Some r => if v_pure r then ["<pure>"] else flat_map (dispatch f ov) (v_forward r)
    | None => ["<nohook>"]
    end
  end.

Definition fuel0 : nat := 8.

Definition nearest_sink (r : iface_row) : string :=
  if streq (if_nearest r) "Classic" then "Expr" else if_nearest r.

(* accept on a node of leaf class r, visitor overriding only the seven sinks *)
Definition sink_dispatch_ok (r : iface_row) : bool :=
  negb (is_leaf r) || strs_eqb (dispatch fuel0 is_sink (if_name r)) [nearest_sink r].

(* util::view<K>: a visitor overriding visit(const K&) and the seven sinks (no-ops) *)
Definition view (k : string) (i : string) : bool :=
  match dispatch fuel0 (fun h => streq h k || is_sink h) i with
  | [h] => streq h k
  | _ => false
  end.

Definition leaves : list iface_row := filter is_leaf ifaces.

Definition view_ok : bool :=
  forallb (fun k => forallb (fun i => Bool.eqb (view (if_name k) (if_name i))
                                              (streq (if_name k) (if_name i))) leaves) leaves.

(* 5. codes, leaf interfaces, hooks are in bijection *)
Definition codes_of_leaves : list string := map if_name leaves.
Definition codeless : list string := ["Unknown"; "Deduction_guide"; "Unit"; "last_code_cat"].
Definition bijection_ok : bool :=
  str_nodup (map if_name ifaces) && str_nodup (map v_param visitor) &&
  (* every code belongs to a leaf class of the same name, except the abstract
     `Unknown`, the end marker, and two enumerators whose classes are only
     forward-declared (Deduction_guide) or do not exist (Unit) *)
  forallb (fun c => str_mem c codeless || str_mem c codes_of_leaves) cats &&
  (* every leaf class has a hook, every hook is for a node class of the table *)
  forallb (fun r => match find_hook (if_name r) with Some _ => true | None => false end) leaves &&
  forallb (fun h => match find_iface (v_param h) with Some r => if_is_node r | None => false end) visitor &&
  (* the pure hooks are exactly the seven sinks *)
  forallb (fun h => Bool.eqb (v_pure h) (is_sink (v_param h))) visitor &&
  (* every hook is virtual: what accept() calls is the client's overrider, not the default *)
  forallb v_virtual visitor.

(* --- lifting --- *)
Lemma own_code_lift : forallb own_code_ok ifaces = true ->
  forall r, In r ifaces -> is_leaf r = true ->
  nth_error cats (Z.to_nat (if_code r)) = Some (if_name r).
Proof.
  intros H r Hin Hl. rewrite forallb_forall in H. specialize (H r Hin).
  unfold own_code_ok in H. rewrite Hl in H. simpl in H.
  destruct (nth_error cats (Z.to_nat (if_code r))); [|discriminate].
  apply streq_eq in H. congruence.
Qed.

Lemma accept_lift : forallb accept_ok accepts = true ->
  forall a, In a accepts -> a_targets a = [a_iface a].
Proof.
  intros H a Hin. rewrite forallb_forall in H. specialize (H a Hin). apply strs_eqb_eq; auto.
Qed.

Lemma forward_lift : forallb forward_ok ifaces = true ->
  forall r, In r ifaces -> needs_default r = true ->
  exists h, find_hook (if_name r) = Some h /\ v_pure h = false /\ v_forward h = [if_nearest r] /\ v_stmts h = 1.
Proof.
  intros H r Hin Hn. rewrite forallb_forall in H. specialize (H r Hin).
  unfold forward_ok in H. rewrite Hn in H. simpl in H.
  destruct (find_hook (if_name r)) as [h|]; [|discriminate].
  repeat rewrite andb_true_iff in H. destruct H as [[[Hp _] Hs] Hf].
  exists h. repeat split; auto.
  - apply negb_true_iff; auto.
  - apply strs_eqb_eq; auto.
  - apply Nat.eqb_eq; auto.
Qed.

Lemma sink_dispatch_lift : forallb sink_dispatch_ok ifaces = true ->
  forall r, In r ifaces -> is_leaf r = true ->
  dispatch fuel0 is_sink (if_name r) = [nearest_sink r].
Proof.
  intros H r Hin Hl. rewrite forallb_forall in H. specialize (H r Hin).
  unfold sink_dispatch_ok in H. rewrite Hl in H. simpl in H. apply strs_eqb_eq; auto.
Qed.

Lemma view_lift : view_ok = true ->
  forall k i, In k ifaces -> In i ifaces -> is_leaf k = true -> is_leaf i = true ->
  (view (if_name k) (if_name i) = true <-> if_name k = if_name i).
Proof.
  unfold view_ok. intros H k i Hk Hi Lk Li. rewrite forallb_forall in H.
  assert (Hk' : In k leaves) by (apply filter_In; auto).
  assert (Hi' : In i leaves) by (apply filter_In; auto).
  specialize (H k Hk'). rewrite forallb_forall in H. specialize (H i Hi').
  apply Bool.eqb_prop in H. rewrite H. apply streq_eq.
Qed.
End Tables.
