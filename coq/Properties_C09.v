(* Properties_C09.v — C09: every node has the type its kind prescribes; sequence types
   track their members.

   [Typing.prescribed] is the prescription (specification).  The first four theorems tie it to
   the CURRENT source: the body of every type() member function is re-translated on every run
   (GenTypeRule.gen_type_bodies), the class whose type() a node of each category runs is found
   by walking the current class definitions (GenTypeRule.gen_type_class), and [classify] must
   read the prescribed rule off that body.  The remaining theorems are about the interpretation
   of the rules over ANY heap of nodes (all operands, all later states). *)
From Coq Require Import List String Bool Arith ZArith Lia.
From IprV Require Import GenTypes Derived Schema Typing Visitor.
From IprV.gen Require Import GenDerived GenTypeRule GenIface GenCategory.
Import ListNotations.
Local Open Scope string_scope.

Definition cat_ok := category_ok gen_derived gen_type_bodies gen_type_class.
Lemma rules_match_source : forallb cat_ok prescribed = true.
Proof. vm_compute. reflexivity. Qed.

Lemma extra_classes_match_source : forallb (extra_ok gen_derived gen_type_bodies) extra_classes = true.
Proof. vm_compute. reflexivity. Qed.

Lemma no_unaccounted_type_override : forallb (class_accounted gen_type_class) gen_type_bodies = true.
Proof. vm_compute. reflexivity. Qed.

(* every concrete node category that is an expression (has a type) is prescribed a rule *)
Definition typed_kind (r : iface_row) : bool :=
  if_is_node r && Z.leb 0 (if_code r) && negb (str_mem (if_nearest r) ["Name"; "Node"; "-"]).
Definition category_of (r : iface_row) : string :=
  match nth_error gen_categories (Z.to_nat (if_code r)) with Some c => c | None => "?" end.
Definition prescribed_for (r : iface_row) : bool :=
  negb (typed_kind r) || match Schema.lookup (category_of r) prescribed with Some _ => true | None => false end.
Lemma every_typed_category_prescribed : forallb prescribed_for gen_ifaces = true.
Proof. vm_compute. reflexivity. Qed.
Lemma prescription_has_no_duplicates : str_nodup (map fst prescribed) = true.
Proof. vm_compute. reflexivity. Qed.

(* ---- interpretation ---- *)
Definition rule_of (c : string) : type_rule :=
  match Schema.lookup c prescribed with Some r => r | None => NoRule "unprescribed" end.

Lemma kind_fixed_types : forall h n x k f, nth_error h n = Some x -> rule_of (t_cat x) = Fixed k ->
  type_of rule_of (S f) h n = TBuiltin k.
Proof. intros h n x k f Hn Hr. cbn [type_of]. rewrite Hn, Hr. reflexivity. Qed.

Lemma borrowed_types : forall h n x a m f, nth_error h n = Some x -> rule_of (t_cat x) = Borrow a ->
  Schema.lookup a (t_slots x) = Some m -> type_of rule_of (S f) h n = type_of rule_of f h m.
Proof. intros h n x a m f Hn Hr Hm. cbn [type_of]. rewrite Hn, Hr, Hm. reflexivity. Qed.

Lemma borrowed_unset_refused : forall h n x a f, nth_error h n = Some x -> rule_of (t_cat x) = Borrow a ->
  Schema.lookup a (t_slots x) = None -> type_of rule_of (S f) h n = TRefused.
Proof. intros h n x a f Hn Hr Hm. cbn [type_of]. rewrite Hn, Hr, Hm. reflexivity. Qed.

Lemma cast_literal_types : forall h n x m f, nth_error h n = Some x -> rule_of (t_cat x) = FirstOperand ->
  Schema.lookup "first" (t_slots x) = Some m -> type_of rule_of (S f) h n = TNode m.
Proof. intros h n x m f Hn Hr Hm. cbn [type_of]. rewrite Hn, Hr, Hm. reflexivity. Qed.

Lemma constructed_types : forall h n x f, nth_error h n = Some x -> (rule_of (t_cat x) = Stored \/ rule_of (t_cat x) = DeclType) ->
  type_of rule_of (S f) h n = match t_typing x with Some t => TNode t | None => TRefused end.
Proof. intros h n x f Hn [Hr|Hr]; cbn [type_of]; rewrite Hn, Hr; reflexivity. Qed.

Lemma nth_error_add_member_same : forall h n m x, nth_error h n = Some x ->
  nth_error (add_member h n m) n = Some (with_member x m).
Proof.
  induction h as [|y h IH]; intros n m x H; [destruct n; discriminate|].
  destruct n; simpl in *; [inversion H; reflexivity|apply IH; exact H].
Qed.
Lemma nth_error_add_member_other : forall h n m k, k <> n -> nth_error (add_member h n m) k = nth_error h k.
Proof.
  induction h as [|y h IH]; intros n m k Hk; [destruct n; reflexivity|].
  destruct n, k; simpl; try reflexivity; try congruence. apply IH. congruence.
Qed.

(* the type of a sequence node is the product of its CURRENT members' types: after an addition it is
   computed from the extended member list *)
Lemma sequence_types_track : forall h n x m f, nth_error h n = Some x -> rule_of (t_cat x) = Members ->
  type_of rule_of (S f) (add_member h n m) n =
    TProduct (map (type_of rule_of f (add_member h n m)) (t_members x ++ [m])).
Proof.
  intros h n x m f Hn Hr. cbn [type_of]. rewrite (nth_error_add_member_same h n m x Hn). simpl. rewrite Hr. reflexivity.
Qed.

(* ... and the addition changes no other node's own data *)
Lemma addition_leaves_other_nodes : forall h n m k, k <> n -> nth_error (add_member h n m) k = nth_error h k.
Proof. exact nth_error_add_member_other. Qed.

(* ---- property theorems ---- *)
Theorem c09_rules_match_source : forallb cat_ok prescribed = true.
Proof. exact rules_match_source. Qed.
Theorem c09_extra_classes_match_source : forallb (extra_ok gen_derived gen_type_bodies) extra_classes = true.
Proof. exact extra_classes_match_source. Qed.
Theorem c09_no_unaccounted_type_override : forallb (class_accounted gen_type_class) gen_type_bodies = true.
Proof. exact no_unaccounted_type_override. Qed.
Theorem c09_every_typed_category_prescribed : forallb prescribed_for gen_ifaces = true.
Proof. exact every_typed_category_prescribed. Qed.
Theorem c09_prescription_has_no_duplicates : str_nodup (map fst prescribed) = true.
Proof. exact prescription_has_no_duplicates. Qed.
Theorem c09_kind_fixed_types : forall h n x k f, nth_error h n = Some x -> rule_of (t_cat x) = Fixed k ->
  type_of rule_of (S f) h n = TBuiltin k.
Proof. exact kind_fixed_types. Qed.
Theorem c09_borrowed_types : forall h n x a m f, nth_error h n = Some x -> rule_of (t_cat x) = Borrow a ->
  Schema.lookup a (t_slots x) = Some m -> type_of rule_of (S f) h n = type_of rule_of f h m.
Proof. exact borrowed_types. Qed.
Theorem c09_borrowed_unset_refused : forall h n x a f, nth_error h n = Some x -> rule_of (t_cat x) = Borrow a ->
  Schema.lookup a (t_slots x) = None -> type_of rule_of (S f) h n = TRefused.
Proof. exact borrowed_unset_refused. Qed.
Theorem c09_cast_literal_types : forall h n x m f, nth_error h n = Some x -> rule_of (t_cat x) = FirstOperand ->
  Schema.lookup "first" (t_slots x) = Some m -> type_of rule_of (S f) h n = TNode m.
Proof. exact cast_literal_types. Qed.
Theorem c09_constructed_types : forall h n x f, nth_error h n = Some x -> (rule_of (t_cat x) = Stored \/ rule_of (t_cat x) = DeclType) ->
  type_of rule_of (S f) h n = match t_typing x with Some t => TNode t | None => TRefused end.
Proof. exact constructed_types. Qed.
Theorem c09_sequence_types_track : forall h n x m f, nth_error h n = Some x -> rule_of (t_cat x) = Members ->
  type_of rule_of (S f) (add_member h n m) n =
    TProduct (map (type_of rule_of f (add_member h n m)) (t_members x ++ [m])).
Proof. exact sequence_types_track. Qed.
Theorem c09_addition_leaves_other_nodes : forall h n m k, k <> n -> nth_error (add_member h n m) k = nth_error h k.
Proof. exact addition_leaves_other_nodes. Qed.

(* the premises are met: a while-statement whose body is an expression statement of a typed expression *)
Example c09_example :
  let h := [ {| t_cat := "Plus"; t_slots := []; t_typing := Some 7; t_members := [] |};
             {| t_cat := "Expr_stmt"; t_slots := [("expr", 0)]; t_typing := None; t_members := [] |};
             {| t_cat := "While"; t_slots := [("body", 1)]; t_typing := None; t_members := [] |};
             {| t_cat := "Break"; t_slots := []; t_typing := None; t_members := [] |};
             {| t_cat := "Expr_list"; t_slots := []; t_typing := None; t_members := [0; 3] |} ] in
  type_of rule_of 5 h 2 = TNode 7 /\ type_of rule_of 5 h 3 = TBuiltin "Void" /\
  type_of rule_of 5 (add_member h 4 2) 4 = TProduct [TNode 7; TBuiltin "Void"; TNode 7].
Proof. vm_compute. repeat split. Qed.

Print Assumptions c09_rules_match_source.
Print Assumptions c09_extra_classes_match_source.
Print Assumptions c09_no_unaccounted_type_override.
Print Assumptions c09_every_typed_category_prescribed.
Print Assumptions c09_prescription_has_no_duplicates.
Print Assumptions c09_kind_fixed_types.
Print Assumptions c09_borrowed_types.
Print Assumptions c09_borrowed_unset_refused.
Print Assumptions c09_cast_literal_types.
Print Assumptions c09_constructed_types.
Print Assumptions c09_sequence_types_track.
Print Assumptions c09_addition_leaves_other_nodes.
Print Assumptions c09_example.
