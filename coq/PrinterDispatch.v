(* PrinterDispatch.v — C18 (termination) and C17 (what the printer consults): the dispatch structure
   of the pretty printer, as data regenerated from src/io.cxx (GenPrinter), and its analysis.

   Printing node n with visitor class V runs one handler (found by C++ override resolution along V's
   bases and, failing that, the default forwarding of ipr::Visitor).  A handler emits text and then
   dispatches: to proper sub-nodes of n (the printed term gets smaller) or to THE SAME node n in
   another visitor class / through another overload (parenthesise-and-retry, type -> name -> type-id
   of the same type, Decl as primary expression, ...).  Printing can only fail to terminate through
   same-node dispatches; [acyclic_from] decides, by exhaustive search over the finite state space
   (visitor class x overload x category x guard flag), that no same-node cycle exists. *)
From Coq Require Import List String Bool Arith ZArith NArith Lia.
From IprV Require Import GenTypes Schema.
Import ListNotations.
Local Open Scope string_scope.
Local Open Scope list_scope.

Inductive pr_action :=
| PDispatch (cls : string) (path : list string)                (* path.accept(visitor of class cls); "this" = the running visitor *)
| PVisit (cls : string) (virt : bool) (st : string) (path : list string)  (* visit(static type S) on path; virt = found by virtual dispatch *)
| PRefuse                                                      (* throws std::logic_error *)
| PGuardReentry                                                (* if (pp.parenthesizing == &node) refuse *)
| PGuardSelfName                                               (* if the name is the type-id of the node itself, refuse *)
| PMarkReentry                                                 (* pp.parenthesizing = &node / restore *)
| PManip (name : string)                                       (* an iostream manipulator inserted into the stream *)
| PAddress (what : string)                                     (* an address-dependent operation *)
| POpaque (what : string).                                     (* something the translator could not read *)

(* what one case of the literal-escaping switch writes *)
Inductive lit_piece :=
| LStr (bs : list N)          (* a string or character literal *)
| LRaw                        (* the byte itself *)
| LNum                        (* the byte's value as a number, in the stream's current base *)
| LManip (name : string)      (* an iostream manipulator *)
| LOther (what : string).     (* something the translator could not read *)

Record pr_handler := { ph_class : string; ph_static : string; ph_actions : list pr_action; ph_net_indent : option (list Z) }.

Section Analysis.
Variable classes : list (string * list string).
Variable handlers : list pr_handler.
Variable forward : string -> option string.          (* default ipr::Visitor::visit(const X&) forwards to visit(const parent(X)&) *)
Variable is_type_kind : string -> bool.              (* categories whose name() may be the type-id of the node itself *)

Definition base_of (c : string) : option string :=
  match Schema.lookup c classes with Some (b :: _) => Some b | _ => None end.

Definition handler_in (c St : string) : option pr_handler :=
  List.find (fun h => streq (ph_class h) c && streq (ph_static h) St) handlers.

(* override resolution: most derived class first *)
Fixpoint find_up (fuel : nat) (c St : string) : option pr_handler :=
  match fuel with
  | O => None
  | S f => match handler_in c St with
           | Some h => Some h
           | None => match base_of c with Some b => find_up f b St | None => None end
           end
  end.

(* ... then the default forwarding chain of ipr::Visitor; None = Constant_visitor<Missing_overrider> refuses *)
Fixpoint resolve (fuel : nat) (c St : string) : option pr_handler :=
  match fuel with
  | O => None
  | S f => match find_up 40 c St with
           | Some h => Some h
           | None => match forward St with Some P => resolve f c P | None => None end
           end
  end.

(* a state: the running visitor's class, the class overload lookup starts from, the overload's static type,
   the node's category (or "Type_id<K>": the type-id naming a type of category K), the re-entry mark *)
Record pstate := { ps_dyn : string; ps_from : string; ps_static : string; ps_cat : string; ps_mark : bool }.

Definition pstate_eqb (a b : pstate) : bool :=
  streq (ps_dyn a) (ps_dyn b) && streq (ps_from a) (ps_from b) && streq (ps_static a) (ps_static b) &&
  streq (ps_cat a) (ps_cat b) && Bool.eqb (ps_mark a) (ps_mark b).

Definition has_action (p : pr_action -> bool) (h : pr_handler) : bool := existsb p (ph_actions h).
Definition is_guard_reentry (a : pr_action) := match a with PGuardReentry => true | _ => false end.
Definition is_guard_selfname (a : pr_action) := match a with PGuardSelfName => true | _ => false end.
Definition is_mark_reentry (a : pr_action) := match a with PMarkReentry => true | _ => false end.
(* the re-entry test protects only if the handler itself records the node before it dispatches:
   `pp.parenthesizing = &e` must be an assignment in the handler's own body (a helper object that is
   destroyed before the dispatch does not count) *)
Definition guards_reentry (h : pr_handler) : bool := has_action is_guard_reentry h && has_action is_mark_reentry h.
Definition is_opaque (a : pr_action) := match a with POpaque _ => true | _ => false end.

Definition typeid_of (k : string) : string := "Type_id<" ++ k ++ ">".
Definition is_typeid_of (k : string) : option string :=
  if prefix "Type_id<" k then Some (substring 8 (String.length k - 9) k) else None.

Definition paths_eqb (a b : list string) : bool :=
  (fix go a b := match a, b with [] , [] => true | x :: a', y :: b' => streq x y && go a' b' | _, _ => false end) a b.

(* the same-node successors of a state, or None when an opaque action makes them unknown *)
Definition successors (s : pstate) : option (list pstate) :=
  match resolve 40 (ps_from s) (ps_static s) with
  | None => Some []                                         (* refused *)
  | Some h =>
    if has_action is_opaque h then None
    else if guards_reentry h && ps_mark s then Some []       (* the guard refuses the second visit *)
    else
      let mark' := ps_mark s || guards_reentry h in
      let k := ps_cat s in
      Some (flat_map (fun a =>
        match a with
        | PDispatch c path =>
            let c' := if streq c "this" then ps_dyn s else c in
            if paths_eqb path [] then
              [{| ps_dyn := c'; ps_from := c'; ps_static := (match is_typeid_of k with Some _ => "Type_id" | None => k end); ps_cat := k; ps_mark := mark' |}]
            else if paths_eqb path ["name"] && is_type_kind k && negb (has_action is_guard_selfname h) then
              (* the name of a compound type is the type-id of that very type *)
              [{| ps_dyn := c'; ps_from := c'; ps_static := "Type_id"; ps_cat := typeid_of k; ps_mark := false |}]
            else if paths_eqb path ["type_expr"] then
              match is_typeid_of k with
              | Some k0 => [{| ps_dyn := c'; ps_from := c'; ps_static := k0; ps_cat := k0; ps_mark := false |}]
              | None => []
              end
            else []
        | PVisit c virt St path =>
            if paths_eqb path [] then
              let from := if virt || streq c "this" then ps_dyn s else c in
              [{| ps_dyn := ps_dyn s; ps_from := from; ps_static := St; ps_cat := k; ps_mark := mark' |}]
            else []
        | _ => []
        end) (ph_actions h))
  end.

(* depth-first search along same-node edges; false when a state repeats on the current path or fuel runs out *)
Fixpoint acyclic (fuel : nat) (path : list pstate) (s : pstate) : bool :=
  match fuel with
  | O => false
  | S f =>
    if existsb (pstate_eqb s) path then false
    else match successors s with
         | None => false
         | Some l => forallb (acyclic f (s :: path)) l
         end
  end.

(* length of the longest same-node chain from a state (a rank function when acyclic) *)
Fixpoint chain_length (fuel : nat) (s : pstate) : nat :=
  match fuel with
  | O => 0
  | S f => match successors s with
           | None => 0
           | Some l => S (fold_left Nat.max (map (chain_length f) l) 0)
           end
  end.
End Analysis.

(* ---- the generic termination argument ---- *)
(* A finite tree of nodes; a handler makes calls on the same node in another state, or on a child in a state chosen
   from the child's label.  If some bounded rank decreases along same-node calls, running with fuel
   height * (bound + 1) + rank + 1 never runs out. *)
Section Termination.
Variable state : Type.
Variable rank : state -> nat.
Variable bound : nat.
Hypothesis rank_bounded : forall s, rank s <= bound.

Inductive tree := Tr (label : nat) (kids : list tree).
Inductive call := Same (s' : state) | Child (i : nat) (k : nat -> state).
Variable handler : state -> nat -> list call.            (* depends on the state and the node's label only *)
Hypothesis same_decreases : forall s l s', In (Same s') (handler s l) -> rank s' < rank s.

Fixpoint height (t : tree) : nat :=
  match t with Tr _ ks => S (fold_right Nat.max 0 (map height ks)) end.
Definition label_of (t : tree) : nat := match t with Tr l _ => l end.

Fixpoint run (fuel : nat) (s : state) (t : tree) : bool :=
  match fuel with
  | O => false
  | S f =>
    match t with
    | Tr l ks =>
      forallb (fun c => match c with
                        | Same s' => run f s' t
                        | Child i k => match nth_error ks i with Some kid => run f (k (label_of kid)) kid | None => true end
                        end) (handler s l)
    end
  end.

Lemma run_mono : forall f s t, run f s t = true -> forall g, f <= g -> run g s t = true.
Proof.
  induction f as [|f IH]; intros s t H g Hg; [discriminate|].
  destruct g as [|g]; [lia|]. destruct t as [l ks]. simpl in *.
  rewrite forallb_forall in *. intros c Hc. specialize (H c Hc).
  destruct c as [s'|i k]; [apply IH with (g := g) in H; auto; lia|].
  destruct (nth_error ks i); auto. apply IH with (g := g) in H; auto; lia.
Qed.

Lemma height_kid : forall l ks i k, nth_error ks i = Some k -> height k < height (Tr l ks).
Proof.
  intros l ks i k H. simpl. apply nth_error_In in H.
  assert (height k <= fold_right Nat.max 0 (map height ks)).
  { induction ks as [|x ks IH]; [contradiction|]. simpl. destruct H as [->|H]; [lia|]. specialize (IH H). lia. }
  lia.
Qed.

Theorem terminates : forall t s, run (height t * S bound + rank s + 1) s t = true.
Proof.
  intros t. remember (height t) as h eqn:Hh. revert t Hh.
  induction h as [h IHh] using lt_wf_ind. intros t Hh s.
  remember (rank s) as r eqn:Hr. revert s Hr.
  induction r as [r IHr] using lt_wf_ind. intros s Hr.
  replace (h * S bound + r + 1) with (S (h * S bound + r)) by lia.
  destruct t as [l ks]. cbn [run]. rewrite forallb_forall. intros c Hc.
  destruct c as [s'|i k].
  - pose proof (same_decreases s l s' Hc) as Hd.
    specialize (IHr (rank s') ltac:(lia) s' eq_refl).
    eapply run_mono; [exact IHr|]. lia.
  - destruct (nth_error ks i) as [kid|] eqn:Hk; [|reflexivity].
    pose proof (height_kid l ks i kid Hk) as Hlt.
    specialize (IHh (height kid) ltac:(lia) kid eq_refl (k (label_of kid))).
    eapply run_mono; [exact IHh|].
    pose proof (rank_bounded (k (label_of kid))). nia.
Qed.
End Termination.
