#!/bin/sh
# usage: dbg.sh File.v LINE  -- show goals just before LINE (scratch copy under /var/tmp)
f=$1; n=$2
mkdir -p /var/tmp/iprv-dbg
head -n $((n-1)) $f > /var/tmp/iprv-dbg/D.v
echo "Show. Abort." >> /var/tmp/iprv-dbg/D.v
timeout 120 coqc -Q . IprV /var/tmp/iprv-dbg/D.v 2>&1 | tail -${3:-40}
rm -rf /var/tmp/iprv-dbg
