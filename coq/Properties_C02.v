(* Properties_C02.v — C02: every factory-built node reports exactly the operands it was
   built from, under the accessor the interface documents.

   [Schema.doc_table] is the documentation (hand-written specification); [Schema.store_of]
   and [Schema.resolve] are the model of the CURRENT code: constructor-argument order read by
   the translator from each factory body (GenFactory) and accessor forwarding read from the
   interface header (GenDerived).  The statements below are about that model for EVERY
   argument tuple; the sweep (lib/c02.py) runs the same rows against the implementation. *)
From Coq Require Import List String Bool Arith Lia.
From IprV Require Import GenTypes Derived Schema.
From IprV.gen Require Import GenDerived GenFactory.
Import ListNotations.
Local Open Scope string_scope.

Lemma spart_eqb_eq a b : spart_eqb a b = true -> a = b.
Proof.
  destruct a, b; simpl; try discriminate; intros H.
  - apply streq_eq in H. congruence.
  - apply Nat.eqb_eq in H. congruence.
Qed.
Lemma sparts_eqb_eq : forall a b, sparts_eqb a b = true -> a = b.
Proof.
  induction a as [|x a IH]; destruct b as [|y b]; simpl; try discriminate; auto.
  rewrite andb_true_iff. intros [H1 H2]. apply spart_eqb_eq in H1. apply IH in H2. congruence.
Qed.
Lemma sval_eqb_eq a b : sval_eqb a b = true -> a = b.
Proof.
  destruct a, b; simpl; try discriminate; intros H;
    try (apply Nat.eqb_eq in H; congruence).
  - apply andb_true_iff in H as [H1 H2]. apply streq_eq in H1. apply Nat.eqb_eq in H2. congruence.
  - apply sparts_eqb_eq in H. congruence.
  - apply streq_eq in H. congruence.
Qed.

(* every factory of today's <ipr/impl> has a row of the documentation table (or is exempt:
   declared but never defined, a Lexicon constant accessor, a word-table helper) *)
Definition covered (f : gfactory) : bool := exempt f || match doc f with Some _ => true | None => false end.
Lemma schema_covers_source : forallb covered gen_factories = true.
Proof. vm_compute. reflexivity. Qed.

(* the symbolic check: wherever the model knows the slot an accessor reads, the slot holds the documented operand *)
Definition pair_ok (f : gfactory) (r : string * sval) : bool :=
  match model_read gen_derived f (fst r) with
  | Some v => sval_eqb v (snd r)
  | None => true                               (* opaque body or accessor that is not a stored slot: swept, not modelled *)
  end.
Definition row_ok (f : gfactory) : bool :=
  match doc f with Some d => forallb (pair_ok f) d | None => true end.
Lemma rows_ok : forallb row_ok gen_factories = true.
Proof. vm_compute. reflexivity. Qed.

(* how much of the table the model reaches (reported in the evidence; must not be empty) *)
Definition modelled_pairs : nat :=
  fold_left (fun n f => match doc f with
                        | Some d => n + List.length (filter (fun r => match model_read gen_derived f (fst r) with Some _ => true | None => false end) d)
                        | None => n end) gen_factories 0.
Lemma modelled_pairs_many : 300 <= modelled_pairs.
Proof. vm_compute. lia. Qed.

(* for EVERY argument tuple: the node the factory builds reads back, under each documented accessor,
   exactly what the documentation says (the operand given; absent if it was not supplied) *)
Lemma factory_reads_back : forall f, In f gen_factories -> forall d, doc f = Some d ->
  forall a sv, In (a, sv) d ->
  forall st v, store_of f = Some st -> lookup (resolve gen_derived f a) st = Some v ->
  forall args, lookup (resolve gen_derived f a) (build st args) = Some (render args sv).
Proof.
  intros f Hf d Hd a sv Hin st v Hst Hv args.
  pose proof rows_ok as H. rewrite forallb_forall in H. specialize (H f Hf).
  unfold row_ok in H. rewrite Hd in H. rewrite forallb_forall in H. specialize (H (a, sv) Hin).
  unfold pair_ok, model_read in H. simpl in H. rewrite Hst, Hv in H. apply sval_eqb_eq in H. subst v.
  apply lookup_build. exact Hv.
Qed.

(* optional parts that were not supplied read as absent; an absent type reads as "not set" *)
Lemma absent_parts_read_absent : forall args p, nth p args "?" = "none" ->
  render args (Arg p) = "none" /\ render args (ArgT p) = "E".
Proof. intros args p H. unfold render, arg_name. rewrite H. split; reflexivity. Qed.

(* "exactly the operands it was given": every parameter of every factory is documented under some accessor.
   One exception, listed: the region a where-expression's scope is created in (ipr::Where offers no accessor
   for it; C12 speaks of region parents). *)
Definition mentions (p : nat) (v : sval) : bool :=
  match v with
  | Arg q | ArgT q | Proj _ q | Len q => Nat.eqb p q
  | Fmt parts => existsb (fun x => match x with PArg q => Nat.eqb p q | _ => false end) parts
  | Lit _ => false
  end.
Definition unobservable_operands : list (string * nat) := [("make_where(R)", 0)].
Definition operand_documented (f : gfactory) (d : list (string * sval)) (p : nat) : bool :=
  existsb (fun r => mentions p (snd r)) d ||
  existsb (fun x => streq (fst x) (factory_key f) && Nat.eqb (snd x) p) unobservable_operands.
Definition operands_documented (f : gfactory) : bool :=
  match doc f with Some d => forallb (operand_documented f d) (seq 0 (List.length (gf_sorts f))) | None => true end.
Lemma every_operand_documented : forallb operands_documented gen_factories = true.
Proof. vm_compute. reflexivity. Qed.

(* ---- property theorems ---- *)
Theorem c02_every_operand_is_documented : forallb operands_documented gen_factories = true.
Proof. exact every_operand_documented. Qed.
Theorem c02_schema_covers_source : forallb covered gen_factories = true.
Proof. exact schema_covers_source. Qed.
Theorem c02_documented_slots_hold_documented_operands : forallb row_ok gen_factories = true.
Proof. exact rows_ok. Qed.
Theorem c02_factory_reads_back : forall f, In f gen_factories -> forall d, doc f = Some d ->
  forall a sv, In (a, sv) d ->
  forall st v, store_of f = Some st -> lookup (resolve gen_derived f a) st = Some v ->
  forall args, lookup (resolve gen_derived f a) (build st args) = Some (render args sv).
Proof. exact factory_reads_back. Qed.
Theorem c02_absent_parts_read_absent : forall args p, nth p args "?" = "none" ->
  render args (Arg p) = "none" /\ render args (ArgT p) = "E".
Proof. exact absent_parts_read_absent. Qed.
Theorem c02_model_is_not_vacuous : 300 <= modelled_pairs.
Proof. exact modelled_pairs_many. Qed.

(* the premises are met by a familiar row: make_array_ref(base, member, type) *)
Definition reads (f : gfactory) (a : string) (v : sval) : bool :=
  match model_read gen_derived f a with Some w => sval_eqb w v | None => false end.
Example c02_example_array_ref :
  existsb (fun f => streq (gf_name f) "make_array_ref" && reads f "base" (Arg 0) && reads f "member" (Arg 1) &&
                    reads f "type" (ArgT 2)) gen_factories = true.
Proof. vm_compute. reflexivity. Qed.

Print Assumptions c02_every_operand_is_documented.
Print Assumptions c02_schema_covers_source.
Print Assumptions c02_documented_slots_hold_documented_operands.
Print Assumptions c02_factory_reads_back.
Print Assumptions c02_absent_parts_read_absent.
Print Assumptions c02_model_is_not_vacuous.
Print Assumptions c02_example_array_ref.
