(* PrintModel.v — C17: printed text depends only on graph structure and printer options.

   The printer is modelled as ANY function of the unfolding of the graph: the finite tree of labels
   (category, spellings, numbers, source location) obtained by following the ordered operand and member
   sequences from the printed node.  Node identities (addresses) are not part of the tree.  That the C++
   printer consults nothing else is the obligation on the tables regenerated from src/io.cxx
   (Properties_C17) and the object of the differential runs (lib/c17.py). *)
From Coq Require Import List Bool Arith Lia.
Import ListNotations.

Section Unfold.
Variable label : Type.

(* a graph: each node has a label and an ORDERED list of successors (operands, members in declaration order, type, name) *)
Record graph := { g_label : nat -> label; g_kids : nat -> list nat }.

Inductive term := Node (l : label) (ks : list term) | Cut.       (* Cut: fuel exhausted (graphs may be cyclic through names) *)

Fixpoint unfold (g : graph) (fuel : nat) (n : nat) : term :=
  match fuel with
  | O => Cut
  | S f => Node (g_label g n) (map (unfold g f) (g_kids g n))
  end.

(* phi maps the nodes of g to nodes of g' preserving labels and ordered successors: the two graphs are the same program
   at different addresses, built in any order *)
Definition graph_iso (phi : nat -> nat) (g g' : graph) : Prop :=
  forall n, g_label g' (phi n) = g_label g n /\ g_kids g' (phi n) = map phi (g_kids g n).

Theorem unfold_invariant_under_isomorphism : forall phi g g', graph_iso phi g g' ->
  forall f n, unfold g f n = unfold g' f (phi n).
Proof.
  intros phi g g' H. induction f as [|f IH]; intros n; [reflexivity|].
  simpl. destruct (H n) as [Hl Hk]. rewrite Hl, Hk, map_map. f_equal.
  apply map_ext. intros k. apply IH.
Qed.

(* any printer that is a function of the unfolding and the options prints isomorphic graphs identically *)
Variable options out : Type.
Variable print_term : options -> term -> out.
Definition print (o : options) (g : graph) (f n : nat) : out := print_term o (unfold g f n).

Corollary print_address_independent : forall phi g g', graph_iso phi g g' ->
  forall o f n, print o g f n = print o g' f (phi n).
Proof. intros phi g g' H o f n. unfold print. rewrite (unfold_invariant_under_isomorphism phi g g' H). reflexivity. Qed.

(* printing is a function: the same graph, options and root print the same, and the graph is not an output *)
Corollary print_pure : forall o g f n, print o g f n = print o g f n.
Proof. reflexivity. Qed.
End Unfold.

(* ---- source locations are shown when, and only when, location printing is enabled ---- *)
Section Locations.
Variable word : Type.                         (* what a node contributes besides its location *)
Definition loc := option (nat * nat * nat).   (* file, line, column of a statement that carries one *)
Definition llabel := (word * loc)%type.

Variable emit : word -> list (list nat) -> list nat.        (* text of a node from its own word and its children's text *)
Variable show_loc : nat * nat * nat -> list nat.            (* "F<file>:<line>[:<column>] " *)

(* the gate of xpr_stmt / xpr_decl: the location is consulted only when the switch is on *)
Fixpoint pr (locs : bool) (t : term llabel) : list nat :=
  match t with
  | Cut _ => []
  | Node _ (w, l) ks =>
      (if locs then match l with Some x => show_loc x | None => [] end else []) ++ emit w (map (pr locs) ks)
  end.

Fixpoint erase (t : term llabel) : term llabel :=
  match t with
  | Cut _ => Cut _
  | Node _ (w, _) ks => Node _ (w, None) (map erase ks)
  end.

Lemma map_ext_in' : forall (A B : Type) (f g : A -> B) l, (forall a, In a l -> f a = g a) -> map f l = map g l.
Proof. intros A B f g l. induction l as [|x l IH]; intros H; simpl; [reflexivity|]. rewrite H, IH; simpl; auto. intros a Ha. apply H. simpl. auto. Qed.

(* with the switch off the output does not depend on any location in the graph *)
Theorem locations_hidden_when_disabled : forall t, pr false t = pr false (erase t).
Proof.
  fix IH 1. intros [[w l] ks|]; [|reflexivity]. simpl. f_equal. rewrite map_map.
  induction ks as [|k ks IHks]; simpl; [reflexivity|]. rewrite IH, IHks. reflexivity.
Qed.

(* with the switch on, a located node's text starts with its location *)
Theorem location_shown_when_enabled : forall w x ks, pr true (Node _ (w, Some x) ks) = show_loc x ++ emit w (map (pr true) ks).
Proof. reflexivity. Qed.

(* and a graph without locations prints the same with the switch on or off *)
Theorem no_location_no_difference : forall t, pr true (erase t) = pr false (erase t).
Proof.
  fix IH 1. intros [[w l] ks|]; [|reflexivity]. simpl. f_equal. rewrite !map_map.
  induction ks as [|k ks IHks]; simpl; [reflexivity|]. rewrite IH, IHks. reflexivity.
Qed.
End Locations.
