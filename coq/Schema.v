(* Schema.v — C02/C09: what every factory stores and what the interface documents.

   Three layers:
   * [doc_table] — THE SPECIFICATION, written by hand from <ipr/interface>, <ipr/cxx-form>,
     <ipr/attribute>, <ipr/ancillary> and the comments of <ipr/impl>: for every factory
     signature, the accessor under which each operand must be readable (and what the parts
     that were not supplied read as).  It mentions only interface names.
   * [store_of] — THE MODEL OF THE CODE: which constructor slot each parameter lands in.
     For factories whose body is one `return make(farm, a, b).with_type(t)` /
     `farm.make(a, b)` it is computed from the argument order the translator reads in the
     CURRENT source (GenFactory.gf_call, gf_with_type); the constructor slot order of the
     generic Unary/Binary/Ternary implementations is positional, that of the few classes with
     their own constructor is listed in [ctor_slots] (modelled by hand).
   * [resolve] — named accessors forward to the generic slots as the CURRENT interface header
     says (GenDerived, regenerated on every run).
   The theorem (Properties_C02) says that reading a documented accessor of the node built by
   the model yields the documented operand, for every argument tuple. *)
From Coq Require Import List String Bool Arith Ascii.
From IprV Require Import GenTypes Derived.
Import ListNotations.
Local Open Scope string_scope.

Inductive spart := Txt (s : string) | PArg (p : nat).

Inductive sval :=
| Arg (p : nat)                    (* the p-th argument, as given; an absent Optional reads absent *)
| ArgT (p : nat)                   (* the p-th argument in the type slot: absent reads as "not set" (logic_error) *)
| Proj (what : string) (p : nat)   (* what(argument p): name / type of a declaration, linkage of a transfer *)
| Len (p : nat)                    (* number of elements of the sequence argument p *)
| Fmt (parts : list spart)         (* an unnamed sub-object built from the arguments, shown structurally *)
| Lit (s : string).                (* a fixed value: a constant of the library, an empty sequence, "E" = refused *)

Definition spart_eqb (a b : spart) : bool :=
  match a, b with Txt x, Txt y => streq x y | PArg x, PArg y => Nat.eqb x y | _, _ => false end.
Fixpoint sparts_eqb (a b : list spart) : bool :=
  match a, b with [], [] => true | x :: a', y :: b' => spart_eqb x y && sparts_eqb a' b' | _, _ => false end.
Definition sval_eqb (a b : sval) : bool :=
  match a, b with
  | Arg x, Arg y => Nat.eqb x y | ArgT x, ArgT y => Nat.eqb x y
  | Proj w x, Proj v y => streq w v && Nat.eqb x y | Len x, Len y => Nat.eqb x y
  | Fmt x, Fmt y => sparts_eqb x y | Lit x, Lit y => streq x y
  | _, _ => false
  end.

(* ---- rendering against a concrete argument tuple (names as the sweep prints them) ---- *)
Definition arg_name (args : list string) (p : nat) : string := nth p args "?".
Definition render (args : list string) (v : sval) : string :=
  match v with
  | Arg p => arg_name args p
  | ArgT p => if streq (arg_name args p) "none" then "E" else arg_name args p
  | Proj w p => w ++ "(" ++ arg_name args p ++ ")"
  | Len p => "len(" ++ arg_name args p ++ ")"
  | Fmt parts => concat "" (map (fun x => match x with Txt s => s | PArg p => arg_name args p end) parts)
  | Lit s => s
  end.

(* ---- the model of the code ---- *)
Definition shape_slots (shape : string) : option (list string) :=
  if streq shape "Unary" then Some ["operand"]
  else if streq shape "Binary" then Some ["first"; "second"]
  else if streq shape "Ternary" then Some ["first"; "second"; "third"]
  else None.

(* implementation classes with a constructor of their own: the slot each constructor argument initialises
   (read from <ipr/impl>; these classes are MODELLED, the sweep checks them dynamically) *)
Definition ctor_slots : list (string * list string) :=
  [("Binary_fold", ["operation"; "first"; "second"]);
   ("Enclosure", ["delimiters"; "operand"]);
   ("Capture_specification::Binding", ["name"; "initializer"; "mode"]);
   ("Capture_specification::Default", ["mode"]);
   ("Capture_specification::Enclosing_local", ["declaration"; "mode"]);
   ("Capture_specification::Expansion", ["what"]);
   ("Capture_specification::Implicit_object", ["how"]);
   ("Phased_evaluation", ["expression"; "phases"]);
   ("Eclipsis", ["type"]);
   ("Where_no_decl", ["first"; "second"]);
   ("Classic_provision", ["initializer"]);
   ("Compound_requirement", ["expr"]);
   ("Field_designator", ["name"]);
   ("Member_indirector", ["scope"; "qualifiers"]);
   ("Nested_requirement", ["condition"]);
   ("Parenthesized_provision", ["initializer"]);
   ("Pointer_indirector", ["qualifiers"]);
   ("Reference_indirector", ["flavor"]);
   ("Simple_requirement", ["expr"]);
   ("Slot_designator", ["index"]);
   ("Targeted_declarator", ["species"; "target"]);
   ("Instantiation", ["pattern"; "substitution"]);
   ("Using_directive", ["nominated_scope"])].

Definition lookup {A : Type} (k : string) (l : list (string * A)) : option A :=
  option_map snd (List.find (fun r => streq (fst r) k) l).

Definition slots_for (f : gfactory) (n : nat) : option (list string) :=
  match lookup (gf_result f) ctor_slots with
  | Some l => if Nat.eqb (List.length l) n then Some l else None
  | None => match shape_slots (gf_shape f) with
            | Some l => if Nat.eqb (List.length l) n then Some l else None
            | None => None
            end
  end.

Definition type_slot (f : gfactory) : list (string * sval) :=
  match gf_with_type f with
  | Some p => [("type", if streq (nth p (gf_sorts f) "") "T?" then ArgT p else Arg p)]
  | None => []
  end.

Definition store_of (f : gfactory) : option (list (string * sval)) :=
  match gf_call f with
  | Some cargs =>
      match slots_for f (List.length cargs) with
      | Some slots =>
          Some (combine slots (map (fun a => match a with Some p => Arg p | None => Lit "none" end) cargs) ++ type_slot f)%list
      | None => None
      end
  | None => None
  end.

(* ---- alias resolution through the current interface header ---- *)
Section Resolve.
Variable derived : list (string * (nat * cexpr)).

Fixpoint last_component (fuel : nat) (s acc : string) : string :=
  match s with
  | EmptyString => acc
  | String c r => if Ascii.eqb c (Ascii.ascii_of_nat 58) then last_component fuel r "" else last_component fuel r (acc ++ String c EmptyString)
  end.

Definition alias_target (cls a : string) : option string :=
  match lookup_row derived (cls ++ "::" ++ a) with
  | Some (0, CCall q CThis []) => Some (last_component 0 q "")
  | _ => None
  end.

Fixpoint resolve_in (classes : list string) (a : string) : string :=
  match classes with
  | [] => a
  | c :: cs => match alias_target c a with Some q => q | None => resolve_in cs a end
  end.

Definition resolve (f : gfactory) (a : string) : string := resolve_in (gf_bases f) a.

(* what the model says accessor [a] of the node built by [f] holds *)
Definition model_read (f : gfactory) (a : string) : option sval :=
  match store_of f with
  | Some st => lookup (resolve f a) st
  | None => None
  end.
End Resolve.

(* ---- concrete nodes ---- *)
Definition node := list (string * string).
Definition build (st : list (string * sval)) (args : list string) : node :=
  map (fun r => (fst r, render args (snd r))) st.

Lemma lookup_build : forall st args k v, lookup k st = Some v -> lookup k (build st args) = Some (render args v).
Proof.
  unfold lookup, build. induction st as [|[k0 v0] st IH]; intros args k v H; simpl in *; [discriminate|].
  destruct (streq k0 k); simpl in *; [inversion H; reflexivity|apply IH; exact H].
Qed.

(* ---- the specification ---- *)
Definition factory_key (f : gfactory) : string := gf_name f ++ "(" ++ concat "," (gf_sorts f) ++ ")".

Definition doc_table : list (string * list (string * sval)) :=
  [("get_literal(T,S)", [("category", Lit "Literal"); ("first", Arg 0); ("second", Arg 1); ("string", Arg 1); ("type", Arg 0)]);
   ("get_literal(T,w)", [("category", Lit "Literal"); ("first", Arg 0); ("second", Arg 1); ("string", Arg 1); ("type", Arg 0)]);
   ("get_template_id(E,XL)", [("category", Lit "Template_id"); ("args", Arg 1); ("first", Arg 0); ("second", Arg 1); ("template_name", Arg 0)]);
   ("make_asm(S)", [("category", Lit "Phased_evaluation"); ("expression", Fmt [Txt "Asm("; PArg 0; Txt ")"]); ("phases", Lit "256"); ("type", Lit "$void")]);
   ("make_mapping(R,lvl)", [("category", Lit "Mapping"); ("parameters", Fmt [Txt "Parameter_list(in:"; PArg 0; Txt ":level:"; PArg 1; Txt ")"]); ("result", Lit "E"); ("type", Lit "E")]);
   ("make_static_assert(E,S?)", [("category", Lit "Phased_evaluation"); ("expression", Fmt [Txt "Static_assert("; PArg 0; Txt ":"; PArg 1; Txt ")"]); ("phases", Lit "240"); ("type", Lit "$bool")]);
   ("make_basic_attribute(TK)", [("operand", Arg 0); ("token", Arg 0)]);
   ("make_called_attribute(A,As)", [("arguments", Arg 1); ("first", Arg 0); ("function", Arg 0); ("second", Arg 1)]);
   ("make_elaborated_attribute(E)", [("elaboration", Arg 0); ("operand", Arg 0)]);
   ("make_expanded_attribute(TK,A)", [("expander", Arg 0); ("first", Arg 0); ("operand", Arg 1); ("second", Arg 1)]);
   ("make_factored_attribute(TK,As)", [("factor", Arg 0); ("first", Arg 0); ("second", Arg 1); ("terms", Arg 1)]);
   ("make_labeled_attribute(TK,A)", [("attribute", Arg 1); ("first", Arg 0); ("label", Arg 0); ("second", Arg 1)]);
   ("make_scoped_attribute(TK,TK)", [("first", Arg 0); ("member", Arg 1); ("scope", Arg 0); ("second", Arg 1)]);
   ("binding_capture(I,E,bm)", [("initializer", Arg 1); ("mode", Arg 2); ("name", Arg 0)]);
   ("default_capture(bm)", [("mode", Arg 0)]);
   ("enclosing_local_capture(D,bm)", [("declaration", Arg 0); ("mode", Arg 1); ("name", Proj "name" 0)]);
   ("expansion_capture(NC)", [("what", Arg 0)]);
   ("implicit_object_capture(bm)", [("how", Arg 0)]);
   ("make_phased_evaluation(E,ph)", [("category", Lit "Phased_evaluation"); ("expression", Arg 0); ("phases", Arg 1); ("type", Proj "type" 0)]);
   ("make_pragma()", [("category", Lit "Pragma"); ("incantation", Lit "[]"); ("operand", Lit "[]"); ("phases", Lit "-1"); ("type", Lit "E")]);
   ("make_specifiers_spread()", [("category", Lit "Specifiers_spread"); ("phases", Lit "240"); ("specifiers", Lit "0"); ("targets", Lit "[]"); ("type", Lit "E")]);
   ("make_structured_binding()", [("category", Lit "Structured_binding"); ("bindings", Lit "[]"); ("initializer", Lit "E"); ("mode", Lit "0"); ("names", Lit "[]"); ("phases", Lit "240"); ("specifiers", Lit "0"); ("type", Lit "E")]);
   ("make_using_declaration()", [("category", Lit "Using_declaration"); ("designators", Lit "[]"); ("phases", Lit "240"); ("type", Lit "E")]);
   ("make_using_declaration(SR,dm)", [("category", Lit "Using_declaration"); ("designators", Fmt [Txt "[Designator("; PArg 0; Txt ":"; PArg 1; Txt ")]"]); ("phases", Lit "240"); ("type", Lit "E")]);
   ("make_using_directive(SC,T)", [("category", Lit "Using_directive"); ("nominated_scope", Arg 0); ("phases", Lit "240"); ("type", Arg 1)]);
   ("get_calling_convention(w)", [("name", Fmt [Txt "Logogram("; PArg 0; Txt ")"])]);
   ("get_label(I)", [("category", Lit "Symbol"); ("name", Arg 0); ("operand", Arg 0); ("type", Lit "$void")]);
   ("get_linkage(S)", [("language", Fmt [Txt "Logogram("; PArg 0; Txt ")"])]);
   ("get_linkage(w)", [("language", Fmt [Txt "Logogram("; PArg 0; Txt ")"])]);
   ("get_symbol(N,T)", [("category", Lit "Symbol"); ("name", Arg 0); ("operand", Arg 0); ("type", Arg 1)]);
   ("get_this(T)", [("category", Lit "Symbol"); ("name", Lit "Identifier(x:74686973)"); ("operand", Lit "Identifier(x:74686973)"); ("type", Arg 0)]);
   ("make_address(E,T?)", [("category", Lit "Address"); ("operand", Arg 0); ("type", ArgT 1)]);
   ("make_alignof(E,T?)", [("category", Lit "Alignof"); ("operand", Arg 0); ("type", ArgT 1)]);
   ("make_and(E,E,T?)", [("category", Lit "And"); ("first", Arg 0); ("second", Arg 1); ("type", ArgT 2)]);
   ("make_args_cardinality(E,T?)", [("category", Lit "Args_cardinality"); ("operand", Arg 0); ("type", ArgT 1)]);
   ("make_array_delete(E)", [("category", Lit "Array_delete"); ("operand", Arg 0); ("storage", Arg 0); ("type", Lit "E")]);
   ("make_array_ref(E,E,T?)", [("category", Lit "Array_ref"); ("base", Arg 0); ("first", Arg 0); ("member", Arg 1); ("second", Arg 1); ("type", ArgT 2)]);
   ("make_arrow(E,E,T?)", [("category", Lit "Arrow"); ("base", Arg 0); ("first", Arg 0); ("member", Arg 1); ("second", Arg 1); ("type", ArgT 2)]);
   ("make_arrow_star(E,E,T?)", [("category", Lit "Arrow_star"); ("base", Arg 0); ("first", Arg 0); ("member", Arg 1); ("second", Arg 1); ("type", ArgT 2)]);
   ("make_assign(E,E,T?)", [("category", Lit "Assign"); ("first", Arg 0); ("second", Arg 1); ("type", ArgT 2)]);
   ("make_binary_fold(cc,E,E,T?)", [("category", Lit "Binary_fold"); ("first", Arg 1); ("operation", Arg 0); ("second", Arg 2); ("type", ArgT 3)]);
   ("make_bitand(E,E,T?)", [("category", Lit "Bitand"); ("first", Arg 0); ("second", Arg 1); ("type", ArgT 2)]);
   ("make_bitand_assign(E,E,T?)", [("category", Lit "Bitand_assign"); ("first", Arg 0); ("second", Arg 1); ("type", ArgT 2)]);
   ("make_bitor(E,E,T?)", [("category", Lit "Bitor"); ("first", Arg 0); ("second", Arg 1); ("type", ArgT 2)]);
   ("make_bitor_assign(E,E,T?)", [("category", Lit "Bitor_assign"); ("first", Arg 0); ("second", Arg 1); ("type", ArgT 2)]);
   ("make_bitxor(E,E,T?)", [("category", Lit "Bitxor"); ("first", Arg 0); ("second", Arg 1); ("type", ArgT 2)]);
   ("make_bitxor_assign(E,E,T?)", [("category", Lit "Bitxor_assign"); ("first", Arg 0); ("second", Arg 1); ("type", ArgT 2)]);
   ("make_call(E,XL,T?)", [("category", Lit "Call"); ("args", Arg 1); ("first", Arg 0); ("function", Arg 0); ("second", Arg 1); ("type", ArgT 2)]);
   ("make_cast(T,E)", [("category", Lit "Cast"); ("expr", Arg 1); ("first", Arg 0); ("second", Arg 1); ("type", Arg 0)]);
   ("make_coercion(E,T,T)", [("category", Lit "Coercion"); ("expr", Arg 0); ("first", Arg 0); ("second", Arg 1); ("target", Arg 1); ("type", Arg 2)]);
   ("make_comma(E,E,T?)", [("category", Lit "Comma"); ("first", Arg 0); ("second", Arg 1); ("type", ArgT 2)]);
   ("make_complement(E,T?)", [("category", Lit "Complement"); ("operand", Arg 0); ("type", ArgT 1)]);
   ("make_conditional(E,E,E,T?)", [("category", Lit "Conditional"); ("condition", Arg 0); ("else_expr", Arg 2); ("first", Arg 0); ("second", Arg 1); ("then_expr", Arg 1); ("third", Arg 2); ("type", ArgT 3)]);
   ("make_const_cast(T,E)", [("category", Lit "Const_cast"); ("expr", Arg 1); ("first", Arg 0); ("second", Arg 1); ("type", Arg 0)]);
   ("make_construction(T,EN)", [("category", Lit "Construction"); ("arguments", Arg 1); ("operand", Arg 1); ("type", Arg 0)]);
   ("make_delete(E)", [("category", Lit "Delete"); ("operand", Arg 0); ("storage", Arg 0); ("type", Lit "E")]);
   ("make_demotion(E,T)", [("category", Lit "Demotion"); ("operand", Arg 0); ("type", Arg 1)]);
   ("make_deref(E,T?)", [("category", Lit "Deref"); ("operand", Arg 0); ("type", ArgT 1)]);
   ("make_div(E,E,T?)", [("category", Lit "Div"); ("first", Arg 0); ("second", Arg 1); ("type", ArgT 2)]);
   ("make_div_assign(E,E,T?)", [("category", Lit "Div_assign"); ("first", Arg 0); ("second", Arg 1); ("type", ArgT 2)]);
   ("make_dot(E,E,T?)", [("category", Lit "Dot"); ("base", Arg 0); ("first", Arg 0); ("member", Arg 1); ("second", Arg 1); ("type", ArgT 2)]);
   ("make_dot_star(E,E,T?)", [("category", Lit "Dot_star"); ("base", Arg 0); ("first", Arg 0); ("member", Arg 1); ("second", Arg 1); ("type", ArgT 2)]);
   ("make_dynamic_cast(T,E)", [("category", Lit "Dynamic_cast"); ("expr", Arg 1); ("first", Arg 0); ("second", Arg 1); ("type", Arg 0)]);
   ("make_eclipsis(T)", [("category", Lit "Eclipsis"); ("type", Arg 0)]);
   ("make_elementary_substitution(PA,E)", [("subst", Fmt [PArg 0; Txt ":"; PArg 1; Txt ","])]);
   ("make_enclosure(dl,E,T?)", [("category", Lit "Enclosure"); ("delimiters", Arg 0); ("expr", Arg 1); ("operand", Arg 1); ("type", ArgT 2)]);
   ("make_equal(E,E,T?)", [("category", Lit "Equal"); ("first", Arg 0); ("second", Arg 1); ("type", ArgT 2)]);
   ("make_expansion(E,T?)", [("category", Lit "Expansion"); ("operand", Arg 0); ("type", ArgT 1)]);
   ("make_expr_list()", [("category", Lit "Expr_list"); ("elements", Lit "[]"); ("operand", Lit "[]"); ("size", Lit "0"); ("type", Lit "Product[]")]);
   ("make_general_substitution()", [("subst", Lit "")]);
   ("make_greater(E,E,T?)", [("category", Lit "Greater"); ("first", Arg 0); ("second", Arg 1); ("type", ArgT 2)]);
   ("make_greater_equal(E,E,T?)", [("category", Lit "Greater_equal"); ("first", Arg 0); ("second", Arg 1); ("type", ArgT 2)]);
   ("make_id_expr(N,T?)", [("category", Lit "Id_expr"); ("name", Arg 0); ("operand", Arg 0); ("resolution", Lit "none"); ("type", ArgT 1)]);
   ("make_id_expr(D)", [("category", Lit "Id_expr"); ("name", Proj "name" 0); ("operand", Proj "name" 0); ("resolution", Arg 0); ("type", Proj "type" 0)]);
   ("make_instantiation(E,SU)", [("category", Lit "Instantiation"); ("instance", Lit "none"); ("pattern", Arg 0); ("substitution", Arg 1); ("type", Lit "E")]);
   ("make_label(I,T?)", [("category", Lit "Label"); ("name", Arg 0); ("operand", Arg 0); ("type", ArgT 1)]);
   ("make_lambda(R,lvl)", [("category", Lit "Lambda"); ("attributes", Lit "[]"); ("captures", Lit "[]"); ("eh_specification", Lit "none"); ("parameters", Fmt [Txt "Parameter_list(in:"; PArg 0; Txt ":level:"; PArg 1; Txt ")"]); ("requirement", Lit "none"); ("result", Lit "E"); ("specifiers", Lit "0"); ("target", Lit "none"); ("type", Lit "E")]);
   ("make_less(E,E,T?)", [("category", Lit "Less"); ("first", Arg 0); ("second", Arg 1); ("type", ArgT 2)]);
   ("make_less_equal(E,E,T?)", [("category", Lit "Less_equal"); ("first", Arg 0); ("second", Arg 1); ("type", ArgT 2)]);
   ("make_literal(T,S)", [("category", Lit "Literal"); ("first", Arg 0); ("second", Arg 1); ("string", Arg 1); ("type", Arg 0)]);
   ("make_literal(T,w)", [("category", Lit "Literal"); ("first", Arg 0); ("second", Arg 1); ("string", Arg 1); ("type", Arg 0)]);
   ("make_lshift(E,E,T?)", [("category", Lit "Lshift"); ("first", Arg 0); ("second", Arg 1); ("type", ArgT 2)]);
   ("make_lshift_assign(E,E,T?)", [("category", Lit "Lshift_assign"); ("first", Arg 0); ("second", Arg 1); ("type", ArgT 2)]);
   ("make_materialization(E,T)", [("category", Lit "Materialization"); ("operand", Arg 0); ("type", Arg 1)]);
   ("make_member_init(E,E,T?)", [("category", Lit "Member_init"); ("first", Arg 0); ("initializer", Arg 1); ("member", Arg 0); ("second", Arg 1); ("type", ArgT 2)]);
   ("make_minus(E,E,T?)", [("category", Lit "Minus"); ("first", Arg 0); ("second", Arg 1); ("type", ArgT 2)]);
   ("make_minus_assign(E,E,T?)", [("category", Lit "Minus_assign"); ("first", Arg 0); ("second", Arg 1); ("type", ArgT 2)]);
   ("make_modulo(E,E,T?)", [("category", Lit "Modulo"); ("first", Arg 0); ("second", Arg 1); ("type", ArgT 2)]);
   ("make_modulo_assign(E,E,T?)", [("category", Lit "Modulo_assign"); ("first", Arg 0); ("second", Arg 1); ("type", ArgT 2)]);
   ("make_mul(E,E,T?)", [("category", Lit "Mul"); ("first", Arg 0); ("second", Arg 1); ("type", ArgT 2)]);
   ("make_mul_assign(E,E,T?)", [("category", Lit "Mul_assign"); ("first", Arg 0); ("second", Arg 1); ("type", ArgT 2)]);
   ("make_narrow(E,T,T)", [("category", Lit "Narrow"); ("derived", Arg 1); ("expr", Arg 0); ("first", Arg 0); ("second", Arg 1); ("type", Arg 2)]);
   ("make_new(XL?,CO,T?)", [("category", Lit "New"); ("first", Arg 0); ("global_requested", Lit "false"); ("initializer", Arg 1); ("placement", Arg 0); ("second", Arg 1); ("type", ArgT 2)]);
   ("make_noexcept(E,T?)", [("category", Lit "Noexcept"); ("operand", Arg 0); ("type", ArgT 1)]);
   ("make_not(E,T?)", [("category", Lit "Not"); ("operand", Arg 0); ("type", ArgT 1)]);
   ("make_not_equal(E,E,T?)", [("category", Lit "Not_equal"); ("first", Arg 0); ("second", Arg 1); ("type", ArgT 2)]);
   ("make_or(E,E,T?)", [("category", Lit "Or"); ("first", Arg 0); ("second", Arg 1); ("type", ArgT 2)]);
   ("make_phantom(T)", [("category", Lit "Phantom"); ("type", Arg 0)]);
   ("make_phantom()", [("category", Lit "Phantom"); ("type", Lit "E")]);
   ("make_plus(E,E,T?)", [("category", Lit "Plus"); ("first", Arg 0); ("second", Arg 1); ("type", ArgT 2)]);
   ("make_plus_assign(E,E,T?)", [("category", Lit "Plus_assign"); ("first", Arg 0); ("second", Arg 1); ("type", ArgT 2)]);
   ("make_post_decrement(E,T?)", [("category", Lit "Post_decrement"); ("operand", Arg 0); ("type", ArgT 1)]);
   ("make_post_increment(E,T?)", [("category", Lit "Post_increment"); ("operand", Arg 0); ("type", ArgT 1)]);
   ("make_pre_decrement(E,T?)", [("category", Lit "Pre_decrement"); ("operand", Arg 0); ("type", ArgT 1)]);
   ("make_pre_increment(E,T?)", [("category", Lit "Pre_increment"); ("operand", Arg 0); ("type", ArgT 1)]);
   ("make_pretend(E,T,T)", [("category", Lit "Pretend"); ("expr", Arg 0); ("first", Arg 0); ("second", Arg 1); ("target", Arg 1); ("type", Arg 2)]);
   ("make_promotion(E,T)", [("category", Lit "Promotion"); ("operand", Arg 0); ("type", Arg 1)]);
   ("make_qualification(E,q,T)", [("category", Lit "Qualification"); ("expr", Arg 0); ("first", Arg 0); ("qualifiers", Arg 1); ("second", Arg 1); ("type", Arg 2)]);
   ("make_read(E,T)", [("category", Lit "Read"); ("operand", Arg 0); ("type", Arg 1)]);
   ("make_reinterpret_cast(T,E)", [("category", Lit "Reinterpret_cast"); ("expr", Arg 1); ("first", Arg 0); ("second", Arg 1); ("type", Arg 0)]);
   ("make_requires(R,lvl)", [("category", Lit "Requires"); ("body", Lit "[]"); ("parameters", Fmt [Txt "Parameter_list(in:"; PArg 0; Txt ":level:"; PArg 1; Txt ")"]); ("type", Lit "$bool")]);
   ("make_restriction(E)", [("category", Lit "Restriction"); ("operand", Arg 0); ("type", Lit "$bool")]);
   ("make_rewrite(E,E)", [("category", Lit "Rewrite"); ("first", Arg 0); ("second", Arg 1); ("source", Arg 0); ("target", Arg 1); ("type", Proj "type" 1)]);
   ("make_rshift(E,E,T?)", [("category", Lit "Rshift"); ("first", Arg 0); ("second", Arg 1); ("type", ArgT 2)]);
   ("make_rshift_assign(E,E,T?)", [("category", Lit "Rshift_assign"); ("first", Arg 0); ("second", Arg 1); ("type", ArgT 2)]);
   ("make_scope_ref(E,E,T?)", [("category", Lit "Scope_ref"); ("first", Arg 0); ("member", Arg 1); ("scope", Arg 0); ("second", Arg 1); ("type", ArgT 2)]);
   ("make_sizeof(E,T?)", [("category", Lit "Sizeof"); ("operand", Arg 0); ("type", ArgT 1)]);
   ("make_static_cast(T,E)", [("category", Lit "Static_cast"); ("expr", Arg 1); ("first", Arg 0); ("second", Arg 1); ("type", Arg 0)]);
   ("make_template_id(E,XL)", [("category", Lit "Template_id"); ("args", Arg 1); ("first", Arg 0); ("second", Arg 1); ("template_name", Arg 0)]);
   ("make_throw(E,T?)", [("category", Lit "Throw"); ("exception", Arg 0); ("operand", Arg 0); ("type", ArgT 1)]);
   ("make_typeid(E,T?)", [("category", Lit "Typeid"); ("operand", Arg 0); ("type", ArgT 1)]);
   ("make_unary_minus(E,T?)", [("category", Lit "Unary_minus"); ("operand", Arg 0); ("type", ArgT 1)]);
   ("make_unary_plus(E,T?)", [("category", Lit "Unary_plus"); ("operand", Arg 0); ("type", ArgT 1)]);
   ("make_where(R)", [("category", Lit "Where"); ("attendant", Lit "?Scope"); ("first", Lit "E"); ("main", Lit "E"); ("second", Lit "?Scope"); ("type", Lit "E")]);
   ("make_where(E,E)", [("category", Lit "Where"); ("attendant", Arg 1); ("first", Arg 0); ("main", Arg 0); ("second", Arg 1); ("type", Proj "type" 0)]);
   ("make_widen(E,T,T)", [("category", Lit "Widen"); ("base", Arg 1); ("expr", Arg 0); ("first", Arg 0); ("second", Arg 1); ("type", Arg 2)]);
   ("make_array_morphism()", [("attributes", Lit "[]"); ("bound", Lit "none")]);
   ("make_braced_provision()", [("elements", Lit "[]")]);
   ("make_classic_provision(IN)", [("initializer", Arg 0)]);
   ("make_compound_requirement(E)", [("constraint", Lit "none"); ("expr", Arg 0); ("nothrow", Lit "false")]);
   ("make_designated_provision()", [("elements", Lit "[]")]);
   ("make_field_designator(I)", [("name", Arg 0)]);
   ("make_function_morphism(R,lvl)", [("attributes", Lit "[]"); ("binding_mode", Lit "0"); ("parameters", Fmt [Txt "Parameter_list(in:"; PArg 0; Txt ":level:"; PArg 1; Txt ")"]); ("qualifiers", Lit "0"); ("throws", Lit "none")]);
   ("make_member_indirector(E,q)", [("attributes", Lit "[]"); ("qualifiers", Arg 1); ("scope", Arg 0)]);
   ("make_monadic_constraint(E,I)", [("concept_name", Arg 1); ("scope", Arg 0)]);
   ("make_monadic_constraint(I)", [("concept_name", Arg 0); ("scope", Lit "none")]);
   ("make_nested_requirement(E)", [("condition", Arg 0)]);
   ("make_pack_species()", [("attributes", Lit "[]"); ("name", Lit "none"); ("suffix", Lit "[]")]);
   ("make_pack_species(I)", [("attributes", Lit "[]"); ("name", Arg 0); ("suffix", Lit "[]")]);
   ("make_parenthesized_provision(E)", [("initializer", Arg 0)]);
   ("make_parenthesized_species()", [("suffix", Lit "[]"); ("term", Lit "E")]);
   ("make_pointer_indirector(q)", [("attributes", Lit "[]"); ("qualifiers", Arg 0)]);
   ("make_polyadic_constraint(E,I)", [("concept_name", Arg 1); ("scope", Arg 0); ("trailing_arguments", Lit "[]")]);
   ("make_polyadic_constraint(I)", [("concept_name", Arg 0); ("scope", Lit "none"); ("trailing_arguments", Lit "[]")]);
   ("make_qualified_id_species(E,N)", [("attributes", Lit "[]"); ("member", Arg 1); ("scope", Arg 0); ("suffix", Lit "[]")]);
   ("make_reference_indirector(rf)", [("attributes", Lit "[]"); ("flavor", Arg 0)]);
   ("make_simple_requirement(E)", [("expr", Arg 0)]);
   ("make_slot_designator(E)", [("index", Arg 0)]);
   ("make_targeted_declarator(SP,T)", [("species", Arg 0); ("target", Arg 1)]);
   ("make_term_declarator()", [("indirectors", Lit "[]"); ("species", Lit "E")]);
   ("make_type_requirement(E,N)", [("scope", Arg 0); ("type_name", Arg 1)]);
   ("make_type_requirement(N)", [("scope", Lit "none"); ("type_name", Arg 0)]);
   ("make_unqualified_id_species()", [("attributes", Lit "[]"); ("name", Lit "none"); ("suffix", Lit "[]")]);
   ("make_unqualified_id_species(N)", [("attributes", Lit "[]"); ("name", Arg 0); ("suffix", Lit "[]")]);
   ("get_conversion(T)", [("category", Lit "Conversion"); ("operand", Arg 0); ("target", Arg 0)]);
   ("get_ctor_name(T)", [("category", Lit "Ctor_name"); ("object_type", Arg 0); ("operand", Arg 0)]);
   ("get_dtor_name(T)", [("category", Lit "Dtor_name"); ("object_type", Arg 0); ("operand", Arg 0)]);
   ("get_guide_name(TM)", [("category", Lit "Guide_name"); ("mapping_decl", Arg 0); ("operand", Arg 0)]);
   ("get_identifier(S)", [("category", Lit "Identifier"); ("operand", Arg 0); ("string", Arg 0)]);
   ("get_identifier(w)", [("category", Lit "Identifier"); ("operand", Arg 0); ("string", Arg 0)]);
   ("get_logogram(S)", [("operand", Arg 0); ("what", Arg 0)]);
   ("get_operator(S)", [("category", Lit "Operator"); ("operand", Arg 0); ("opname", Arg 0)]);
   ("get_operator(w)", [("category", Lit "Operator"); ("operand", Arg 0); ("opname", Arg 0)]);
   ("get_string(w)", [("category", Lit "String"); ("characters", Arg 0); ("size", Lit "2")]);
   ("get_suffix(I)", [("category", Lit "Suffix"); ("name", Arg 0); ("operand", Arg 0)]);
   ("make_block(R,T?)", [("category", Lit "Block"); ("attributes", Lit "[]"); ("body", Lit "[]"); ("handlers", Lit "[]"); ("region", Fmt [Txt "Region(in:"; PArg 0; Txt ")"]); ("try_block", Lit "false"); ("type", ArgT 1)]);
   ("make_break()", [("category", Lit "Break"); ("attributes", Lit "[]"); ("from", Lit "E"); ("type", Lit "$void")]);
   ("make_continue()", [("category", Lit "Continue"); ("attributes", Lit "[]"); ("iteration", Lit "E"); ("type", Lit "$void")]);
   ("make_ctor_body(XL,B)", [("category", Lit "Ctor_body"); ("attributes", Lit "[]"); ("block", Arg 1); ("first", Arg 0); ("inits", Arg 0); ("second", Arg 1); ("type", Lit "E")]);
   ("make_do()", [("category", Lit "Do"); ("attributes", Lit "[]"); ("body", Lit "E"); ("condition", Lit "E"); ("first", Lit "E"); ("second", Lit "E"); ("type", Lit "E")]);
   ("make_expr_stmt(E)", [("category", Lit "Expr_stmt"); ("attributes", Lit "[]"); ("expr", Arg 0); ("operand", Arg 0); ("type", Proj "type" 0)]);
   ("make_for()", [("category", Lit "For"); ("attributes", Lit "[]"); ("body", Lit "E"); ("condition", Lit "E"); ("increment", Lit "E"); ("initializer", Lit "E"); ("type", Lit "E")]);
   ("make_for_in()", [("category", Lit "For_in"); ("attributes", Lit "[]"); ("body", Lit "E"); ("sequence", Lit "E"); ("type", Lit "E"); ("variable", Lit "E")]);
   ("make_goto(E)", [("category", Lit "Goto"); ("attributes", Lit "[]"); ("operand", Arg 0); ("target", Arg 0); ("type", Proj "type" 0)]);
   ("make_if(E,E)", [("category", Lit "If"); ("alternative", Lit "none"); ("attributes", Lit "[]"); ("condition", Arg 0); ("consequence", Arg 1); ("first", Arg 0); ("second", Arg 1); ("third", Lit "none"); ("type", Lit "E")]);
   ("make_if(E,E,E)", [("category", Lit "If"); ("alternative", Arg 2); ("attributes", Lit "[]"); ("condition", Arg 0); ("consequence", Arg 1); ("first", Arg 0); ("second", Arg 1); ("third", Arg 2); ("type", Lit "E")]);
   ("make_labeled_stmt(E,E)", [("category", Lit "Labeled_stmt"); ("attributes", Lit "[]"); ("first", Arg 0); ("label", Arg 0); ("second", Arg 1); ("stmt", Arg 1); ("type", Proj "type" 1)]);
   ("make_return(E)", [("category", Lit "Return"); ("attributes", Lit "[]"); ("operand", Arg 0); ("type", Lit "E"); ("value", Arg 0)]);
   ("make_switch()", [("category", Lit "Switch"); ("attributes", Lit "[]"); ("body", Lit "E"); ("condition", Lit "E"); ("first", Lit "E"); ("second", Lit "E"); ("type", Lit "E")]);
   ("make_while()", [("category", Lit "While"); ("attributes", Lit "[]"); ("body", Lit "E"); ("condition", Lit "E"); ("first", Lit "E"); ("second", Lit "E"); ("type", Lit "E")]);
   ("get_array(T,E)", [("category", Lit "Array"); ("bound", Arg 1); ("element_type", Arg 0); ("first", Arg 0); ("linkage", Lit "$cxx_link"); ("name", Lit "Type_id(self)"); ("second", Arg 1); ("transfer", Lit "$natural"); ("type", Lit "$typename")]);
   ("get_as_type(E)", [("category", Lit "As_type"); ("expr", Arg 0); ("linkage", Lit "$cxx_link"); ("name", Lit "Type_id(self)"); ("operand", Arg 0); ("transfer", Lit "$natural"); ("type", Lit "$typename")]);
   ("get_as_type(E,X)", [("category", Lit "As_type"); ("expr", Arg 0); ("linkage", Proj "linkage" 1); ("name", Lit "Type_id(self)"); ("operand", Arg 0); ("transfer", Arg 1); ("type", Lit "$typename")]);
   ("get_as_type(I)", [("category", Lit "As_type"); ("expr", Lit "self"); ("linkage", Lit "$cxx_link"); ("name", Arg 0); ("operand", Lit "self"); ("transfer", Lit "$natural"); ("type", Lit "$typename")]);
   ("get_auto()", [("category", Lit "Auto"); ("linkage", Lit "$cxx_link"); ("name", Lit "Type_id(self)"); ("transfer", Lit "$natural"); ("type", Lit "$typename")]);
   ("get_decltype(E)", [("category", Lit "Decltype"); ("expr", Arg 0); ("linkage", Lit "$cxx_link"); ("name", Lit "Type_id(self)"); ("operand", Arg 0); ("transfer", Lit "$natural"); ("type", Lit "$typename")]);
   ("get_forall(P,T)", [("category", Lit "Forall"); ("first", Arg 0); ("linkage", Lit "$cxx_link"); ("name", Lit "Type_id(self)"); ("second", Arg 1); ("source", Arg 0); ("target", Arg 1); ("transfer", Lit "$natural"); ("type", Lit "$typename")]);
   ("get_function(P,T)", [("category", Lit "Function"); ("first", Arg 0); ("linkage", Lit "$cxx_link"); ("name", Lit "Type_id(self)"); ("second", Arg 1); ("source", Arg 0); ("target", Arg 1); ("third", Lit "$false"); ("throws", Lit "$false"); ("transfer", Lit "$natural"); ("type", Lit "$typename")]);
   ("get_function(P,T,E)", [("category", Lit "Function"); ("first", Arg 0); ("linkage", Lit "$cxx_link"); ("name", Lit "Type_id(self)"); ("second", Arg 1); ("source", Arg 0); ("target", Arg 1); ("third", Arg 2); ("throws", Arg 2); ("transfer", Lit "$natural"); ("type", Lit "$typename")]);
   ("get_function(P,T,E,X)", [("category", Lit "Function"); ("first", Arg 0); ("linkage", Proj "linkage" 3); ("name", Lit "Type_id(self)"); ("second", Arg 1); ("source", Arg 0); ("target", Arg 1); ("third", Arg 2); ("throws", Arg 2); ("transfer", Arg 3); ("type", Lit "$typename")]);
   ("get_function(P,T,X)", [("category", Lit "Function"); ("first", Arg 0); ("linkage", Proj "linkage" 2); ("name", Lit "Type_id(self)"); ("second", Arg 1); ("source", Arg 0); ("target", Arg 1); ("third", Lit "$false"); ("throws", Lit "$false"); ("transfer", Arg 2); ("type", Lit "$typename")]);
   ("get_pointer(T)", [("category", Lit "Pointer"); ("linkage", Lit "$cxx_link"); ("name", Lit "Type_id(self)"); ("operand", Arg 0); ("points_to", Arg 0); ("transfer", Lit "$natural"); ("type", Lit "$typename")]);
   ("get_product(Tw)", [("category", Lit "Product"); ("elements", Arg 0); ("linkage", Lit "$cxx_link"); ("name", Lit "Type_id(self)"); ("operand", Arg 0); ("size", Len 0); ("transfer", Lit "$natural"); ("type", Lit "$typename")]);
   ("get_product(Ts)", [("category", Lit "Product"); ("elements", Arg 0); ("linkage", Lit "$cxx_link"); ("name", Lit "Type_id(self)"); ("operand", Arg 0); ("size", Len 0); ("transfer", Lit "$natural"); ("type", Lit "$typename")]);
   ("get_ptr_to_member(T,T)", [("category", Lit "Ptr_to_member"); ("containing_type", Arg 0); ("first", Arg 0); ("linkage", Lit "$cxx_link"); ("member_type", Arg 1); ("name", Lit "Type_id(self)"); ("second", Arg 1); ("transfer", Lit "$natural"); ("type", Lit "$typename")]);
   ("get_qualified(q,T)", [("category", Lit "Qualified"); ("first", Arg 0); ("linkage", Lit "$cxx_link"); ("main_variant", Arg 1); ("name", Lit "Type_id(self)"); ("qualifiers", Arg 0); ("second", Arg 1); ("transfer", Lit "$natural"); ("type", Lit "$typename")]);
   ("get_reference(T)", [("category", Lit "Reference"); ("linkage", Lit "$cxx_link"); ("name", Lit "Type_id(self)"); ("operand", Arg 0); ("refers_to", Arg 0); ("transfer", Lit "$natural"); ("type", Lit "$typename")]);
   ("get_rvalue_reference(T)", [("category", Lit "Rvalue_reference"); ("linkage", Lit "$cxx_link"); ("name", Lit "Type_id(self)"); ("operand", Arg 0); ("refers_to", Arg 0); ("transfer", Lit "$natural"); ("type", Lit "$typename")]);
   ("get_sum(Tw)", [("category", Lit "Sum"); ("elements", Arg 0); ("linkage", Lit "$cxx_link"); ("name", Lit "Type_id(self)"); ("operand", Arg 0); ("size", Len 0); ("transfer", Lit "$natural"); ("type", Lit "$typename")]);
   ("get_sum(Ts)", [("category", Lit "Sum"); ("elements", Arg 0); ("linkage", Lit "$cxx_link"); ("name", Lit "Type_id(self)"); ("operand", Arg 0); ("size", Len 0); ("transfer", Lit "$natural"); ("type", Lit "$typename")]);
   ("get_tor(P,U)", [("category", Lit "Tor"); ("first", Arg 0); ("linkage", Lit "$cxx_link"); ("name", Lit "Type_id(self)"); ("second", Arg 1); ("source", Arg 0); ("throws", Arg 1); ("transfer", Lit "$natural"); ("type", Lit "$typename")]);
   ("get_transfer(LK,CC)", [("convention", Arg 1); ("first", Arg 0); ("linkage", Arg 0); ("second", Arg 1)]);
   ("get_transfer_from_convention(CC)", [("convention", Arg 0); ("first", Lit "$cxx_link"); ("linkage", Lit "$cxx_link"); ("second", Arg 0)]);
   ("get_transfer_from_linkage(LK)", [("convention", Lit "$natural_cc"); ("first", Arg 0); ("linkage", Arg 0); ("second", Lit "$natural_cc")]);
   ("make_class(R)", [("category", Lit "Class"); ("bases", Lit "[]"); ("linkage", Lit "$cxx_link"); ("members", Lit "[]"); ("name", Lit "E"); ("region", Fmt [Txt "Region(in:"; PArg 0; Txt ")"]); ("scope", Lit "?Scope"); ("transfer", Lit "$natural"); ("type", Lit "$class")]);
   ("make_closure(R)", [("category", Lit "Closure"); ("linkage", Lit "$cxx_link"); ("members", Lit "[]"); ("name", Lit "E"); ("region", Fmt [Txt "Region(in:"; PArg 0; Txt ")"]); ("scope", Lit "?Scope"); ("transfer", Lit "$natural"); ("type", Lit "$class")]);
   ("make_enum(R,ek)", [("category", Lit "Enum"); ("base", Lit "none"); ("kind", Arg 1); ("linkage", Lit "$cxx_link"); ("members", Lit "[]"); ("name", Lit "E"); ("region", Fmt [Txt "Region(in:"; PArg 0; Txt ")"]); ("scope", Lit "?Scope"); ("transfer", Lit "$natural"); ("type", Lit "$enum")]);
   ("make_namespace(R)", [("category", Lit "Namespace"); ("linkage", Lit "$cxx_link"); ("members", Lit "[]"); ("name", Lit "E"); ("region", Fmt [Txt "Region(in:"; PArg 0; Txt ")"]); ("scope", Lit "?Scope"); ("transfer", Lit "$natural"); ("type", Lit "$namespace")]);
   ("make_union(R)", [("category", Lit "Union"); ("linkage", Lit "$cxx_link"); ("members", Lit "[]"); ("name", Lit "E"); ("region", Fmt [Txt "Region(in:"; PArg 0; Txt ")"]); ("scope", Lit "?Scope"); ("transfer", Lit "$natural"); ("type", Lit "$union")])].

Definition doc (f : gfactory) : option (list (string * sval)) := lookup (factory_key f) doc_table.

(* factories that have no row: accessors of the Lexicon's constants (C13 speaks of those), the word tables,
   and functions declared but never defined *)
Definition exempt (f : gfactory) : bool :=
  negb (gf_defined f) ||
  (streq (gf_class f) "Lexicon" && match gf_sorts f with [] => true | _ => false end) ||
  str_mem (gf_name f) ["specifiers"; "qualifiers"; "decompose"; "make_asm_expr"; "make_static_assert_expr"].
