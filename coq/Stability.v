(* Stability.v — C05: node identity is stable.

   Logical part: the heap of nodes is append-only.  A history is a list of operations; a node
   is identified by its creation index (the model's "address"); what can be observed through a
   node is its record.  Later operations never change an earlier node's record, except that an
   explicit member addition on THAT node appends to its member list.

   Physical part: which C++ containers hold node OBJECTS (as opposed to pointers to nodes), and
   how they grow, is regenerated from the source (GenStore); [reference_stable] encodes the
   C++ standard's invalidation rules for those containers and operations. *)
From Coq Require Import List String Bool Arith Lia.
From IprV Require Import GenTypes Schema Typing.
Import ListNotations.
Local Open Scope string_scope.
Local Open Scope list_scope.

Inductive hop :=
| HMake (cat : string) (slots : list (string * nat)) (typing : option nat)   (* a generative factory call *)
| HAdd (n m : nat).                                                          (* node n gains member m at its end *)

Definition hstep (h : list tnode) (o : hop) : list tnode :=
  match o with
  | HMake c s t => h ++ [{| t_cat := c; t_slots := s; t_typing := t; t_members := [] |}]
  | HAdd n m => add_member h n m
  end.
Definition hrun (ops : list hop) : list tnode := fold_left hstep ops [].

(* members added to node n by a sequence of operations *)
Fixpoint additions_to (n : nat) (ops : list hop) : list nat :=
  match ops with
  | [] => []
  | HAdd k m :: r => if Nat.eqb k n then m :: additions_to n r else additions_to n r
  | _ :: r => additions_to n r
  end.

Lemma add_member_length : forall h n m, List.length (add_member h n m) = List.length h.
Proof.
  induction h as [|x h IH]; intros n m; [destruct n; reflexivity|].
  destruct n; simpl; [reflexivity|rewrite IH; reflexivity].
Qed.

Lemma nth_error_add_same : forall h n m x, nth_error h n = Some x -> nth_error (add_member h n m) n = Some (with_member x m).
Proof.
  induction h as [|y h IH]; intros n m x H; [destruct n; discriminate|].
  destruct n; simpl in *; [inversion H; reflexivity|apply IH; exact H].
Qed.
Lemma nth_error_add_other : forall h n m k, k <> n -> nth_error (add_member h n m) k = nth_error h k.
Proof.
  induction h as [|y h IH]; intros n m k Hk; [destruct n; reflexivity|].
  destruct n, k; simpl; try reflexivity; try congruence. apply IH. congruence.
Qed.

Lemma hstep_length_ge : forall h o, List.length h <= List.length (hstep h o).
Proof. intros h [c s t|n m]; simpl; [rewrite app_length; simpl; lia|rewrite add_member_length; lia]. Qed.

(* one step: every existing node keeps its index, its category, operands and typing; its members grow only
   through an addition aimed at it *)
Lemma step_stable : forall h o n x, nth_error h n = Some x ->
  exists y, nth_error (hstep h o) n = Some y /\ t_cat y = t_cat x /\ t_slots y = t_slots x /\ t_typing y = t_typing x /\
            t_members y = t_members x ++ additions_to n [o].
Proof.
  intros h [c s t|k m] n x H; simpl.
  - exists x. rewrite nth_error_app1 by (apply nth_error_Some; congruence). rewrite app_nil_r. auto.
  - destruct (Nat.eqb_spec k n) as [->|Hk].
    + exists (with_member x m). rewrite (nth_error_add_same h n m x H). simpl. auto.
    + exists x. rewrite nth_error_add_other by congruence. rewrite app_nil_r. auto.
Qed.

Lemma additions_app : forall n a b, additions_to n (a ++ b) = additions_to n a ++ additions_to n b.
Proof.
  induction a as [|[c s t|k m] a IH]; intros b; simpl; auto.
  destruct (Nat.eqb k n); simpl; rewrite IH; reflexivity.
Qed.

Lemma run_from_stable : forall ops h n x, nth_error h n = Some x ->
  exists y, nth_error (fold_left hstep ops h) n = Some y /\ t_cat y = t_cat x /\ t_slots y = t_slots x /\ t_typing y = t_typing x /\
            t_members y = t_members x ++ additions_to n ops.
Proof.
  induction ops as [|o ops IH]; intros h n x H; simpl.
  - exists x. rewrite app_nil_r. auto.
  - destruct (step_stable h o n x H) as (y & Hy & Hc & Hs & Ht & Hm).
    destruct (IH (hstep h o) n y Hy) as (z & Hz & Hc' & Hs' & Ht' & Hm').
    exists z. repeat split; try congruence.
    rewrite Hm', Hm, <- app_assoc. f_equal.
    pose proof (additions_app n [o] ops) as E. simpl app in E. exact (eq_sym E).
Qed.

(* whatever is created afterwards, a node observed after h1 is observed unchanged after h1 ++ h2 *)
Theorem observation_stable : forall h1 h2 n x, nth_error (hrun h1) n = Some x ->
  exists y, nth_error (hrun (h1 ++ h2)) n = Some y /\ t_cat y = t_cat x /\ t_slots y = t_slots x /\ t_typing y = t_typing x /\
            t_members y = t_members x ++ additions_to n h2.
Proof.
  intros h1 h2 n x H. unfold hrun. rewrite fold_left_app. apply run_from_stable. exact H.
Qed.

Corollary untouched_node_is_identical : forall h1 h2 n x, nth_error (hrun h1) n = Some x -> additions_to n h2 = [] ->
  nth_error (hrun (h1 ++ h2)) n = Some x.
Proof.
  intros h1 h2 n x H Ha. destruct (observation_stable h1 h2 n x H) as (y & Hy & Hc & Hs & Ht & Hm).
  rewrite Ha, app_nil_r in Hm. rewrite Hy. f_equal. destruct x, y; simpl in *; congruence.
Qed.

(* every generative call yields a node distinct from every node alive before it *)
Theorem make_fresh : forall h c s t, nth_error (hstep h (HMake c s t)) (List.length h) =
    Some {| t_cat := c; t_slots := s; t_typing := t; t_members := [] |} /\
  forall k, k < List.length h -> k <> List.length h.
Proof.
  intros h c s t. split; [|intros; lia].
  simpl. rewrite nth_error_app2 by lia. rewrite Nat.sub_diag. reflexivity.
Qed.

(* ---- physical part: containers of node objects ---- *)
Fixpoint contains (sub s : string) : bool :=
  match s with
  | EmptyString => match sub with EmptyString => true | _ => false end
  | String _ r => prefix sub s || contains sub r
  end.

(* the C++ standard's rules: does growing the container by operation [op] keep references to its elements valid? *)
Definition growth_keeps_references (container op : string) : bool :=
  if contains "forward_list" container then str_mem op ["emplace_front"; "emplace_after"; "push_front"; "insert_after"]
  else if contains "std::list" container then str_mem op ["emplace_back"; "emplace_front"; "push_back"; "push_front"; "insert"; "emplace"]
  else if contains "std::deque" container then str_mem op ["emplace_back"; "emplace_front"; "push_back"; "push_front"]
       (* insertion at either end of a deque invalidates iterators but no reference; insert/erase in the middle do *)
  else if contains "std::map" container || contains "std::set" container then str_mem op ["insert"; "emplace"; "insert_or_assign"; "try_emplace"]
  else false.                                       (* vector, basic_string, unknown: references may be invalidated *)

(* a base holds node objects unless its element type is a pointer *)
Definition holds_objects (base : string) : bool :=
  contains "std::" base && negb (contains "void *" base) && negb (contains "*>" base).

Definition store_ok (growth : list (string * list string)) (bases : list (string * list string)) (r : string * list string) : bool :=
  let ops := match Schema.lookup (fst r) growth with Some l => l | None => [] end in
  forallb (fun b => negb (holds_objects b) ||
                    (* an object-holding standard container: every growth operation used must keep references *)
                    forallb (fun op => growth_keeps_references b op) ops) (snd r).
