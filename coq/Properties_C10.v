(* Properties_C10.v — C10: specifier and qualifier sets are a Boolean algebra
   with exact decomposition.  Generic theorems: Bits.v (any table of distinct
   words, any subset, any size); here they are instantiated at the tables
   regenerated from src/impl.cxx, whose side conditions are checked by
   computation. *)
From Coq Require Import List NArith String Bool PeanoNat.
From IprV Require Import GenTypes Bits.
From IprV.gen Require Import GenWords GenLexAcc.
Import ListNotations.
Local Open Scope string_scope.

(* the specification of the named accessors, from include/ipr/interface *)
Definition documented_specifier_accessors : list (string * string) :=
  [("export_specifier", "export"); ("static_specifier", "static"); ("extern_specifier", "extern");
   ("mutable_specifier", "mutable"); ("thread_local_specifier", "thread_local");
   ("register_specifier", "register"); ("inline_specifier", "inline");
   ("constexpr_specifier", "constexpr"); ("consteval_specifier", "consteval");
   ("virtual_specifier", "virtual"); ("abstract_specifier", "=0"); ("explicit_specifier", "explicit");
   ("friend_specifier", "friend"); ("typedef_specifier", "typedef"); ("public_specifier", "public");
   ("protected_specifier", "protected"); ("private_specifier", "private")].
Definition documented_qualifier_accessors : list (string * string) :=
  [("const_qualifier", "const"); ("volatile_qualifier", "volatile"); ("restrict_qualifier", "restrict")].

Definition acc_lookup (n : string) : option lex_acc :=
  option_map snd (List.find (fun p => streq (fst p) n) gen_lex_accessors).

Definition spec_acc_ok (p : string * string) : bool :=
  match acc_lookup (fst p) with
  | Some (AccSpecifierWord w) => streq w (snd p) && str_mem w gen_std_specifiers
  | _ => false
  end.
Definition qual_acc_ok (p : string * string) : bool :=
  match acc_lookup (fst p) with
  | Some (AccQualifierWord w) => streq w (snd p) && str_mem w gen_std_qualifiers
  | _ => false
  end.
(* no other accessor of the Lexicon returns a specifier / qualifier set *)
Definition no_undocumented : bool :=
  forallb (fun p => match snd p with
                    | AccSpecifierWord _ => str_mem (fst p) (map fst documented_specifier_accessors)
                    | AccQualifierWord _ => str_mem (fst p) (map fst documented_qualifier_accessors)
                    | AccUntranslatable => false
                    | _ => true end) gen_lex_accessors.

Theorem c10_generated_tables_ok :
  NoDup gen_std_specifiers /\ (List.length gen_std_specifiers <= 32)%nat /\
  NoDup gen_std_qualifiers /\ (List.length gen_std_qualifiers <= 32)%nat /\
  gen_std_specifiers_constexpr = true /\ gen_std_qualifiers_constexpr = true.
Proof.
  repeat split; try (apply str_nodup_NoDup; vm_compute; reflexivity);
    try (apply Nat.leb_le; vm_compute; reflexivity).
Qed.

(* the named accessors equal the mapping of their own name *)
Theorem c10_named_accessors :
  forallb spec_acc_ok documented_specifier_accessors = true /\
  forallb qual_acc_ok documented_qualifier_accessors = true /\ no_undocumented = true.
Proof. vm_compute; auto. Qed.

Theorem c10_project_singleton_spec : forall w, In w gen_std_specifiers ->
  exists i, project gen_std_specifiers w = Some (bit i) /\ bit i <> 0%N /\ nth_error gen_std_specifiers i = Some w.
Proof. exact (project_singleton gen_std_specifiers). Qed.
Theorem c10_project_singleton_qual : forall w, In w gen_std_qualifiers ->
  exists i, project gen_std_qualifiers w = Some (bit i) /\ bit i <> 0%N /\ nth_error gen_std_qualifiers i = Some w.
Proof. exact (project_singleton gen_std_qualifiers). Qed.

Theorem c10_project_injective : forall tbl w w' x,
  project tbl w = Some x -> project tbl w' = Some x -> w = w'.
Proof. exact project_injective. Qed.

Theorem c10_unknown_refused : forall tbl w, ~ In w tbl -> project tbl w = None.
Proof. exact unknown_refused. Qed.

(* for EVERY subset (any list of basic names, any order, repetitions allowed):
   decomposing the union returns exactly the subset, each member once *)
Theorem c10_decompose_union_spec : forall ws, incl ws gen_std_specifiers ->
  decompose gen_std_specifiers (union_of gen_std_specifiers ws) = filter (fun w => str_mem w ws) gen_std_specifiers.
Proof. exact (decompose_union gen_std_specifiers (proj1 c10_generated_tables_ok)). Qed.
Theorem c10_decompose_union_qual : forall ws, incl ws gen_std_qualifiers ->
  decompose gen_std_qualifiers (union_of gen_std_qualifiers ws) = filter (fun w => str_mem w ws) gen_std_qualifiers.
Proof. exact (decompose_union gen_std_qualifiers (proj1 (proj2 (proj2 c10_generated_tables_ok)))). Qed.

Theorem c10_decompose_union_generic : forall tbl, NoDup tbl -> forall ws, incl ws tbl ->
  (forall w, In w (decompose tbl (union_of tbl ws)) <-> In w ws) /\ NoDup (decompose tbl (union_of tbl ws)).
Proof. exact decompose_union_members. Qed.

Theorem c10_ops_are_set_ops : forall tbl, NoDup tbl -> forall a b w,
  (In w (decompose tbl (N.lor a b)) <-> In w (decompose tbl a) \/ In w (decompose tbl b)) /\
  (In w (decompose tbl (N.land a b)) <-> In w (decompose tbl a) /\ In w (decompose tbl b)) /\
  (In w (decompose tbl (N.lxor a b)) <-> (In w (decompose tbl a) /\ ~ In w (decompose tbl b)) \/
                                          (~ In w (decompose tbl a) /\ In w (decompose tbl b))).
Proof. exact ops_are_set_ops. Qed.

Theorem c10_implies_is_subset : forall tbl, NoDup tbl -> forall a b,
  implies a b = true -> incl (decompose tbl b) (decompose tbl a).
Proof. exact implies_is_subset. Qed.

Theorem c10_subset_implies : forall tbl, NoDup tbl -> forall a b,
  (forall j, N.testbit b j = true -> exists i, j = N.of_nat i /\ (i < List.length tbl)%nat) ->
  incl (decompose tbl b) (decompose tbl a) -> implies a b = true.
Proof. exact subset_implies. Qed.

Theorem c10_fits_32_bits : forall w x, project gen_std_specifiers w = Some x -> (x < 2 ^ 32)%N.
Proof. exact (project_fits_32 gen_std_specifiers (proj1 (proj2 c10_generated_tables_ok))). Qed.

Example c10_nonvacuous :
  decompose gen_std_specifiers (union_of gen_std_specifiers ["static"; "inline"; "constexpr"; "static"])
  = ["constexpr"; "inline"; "static"] /\ project gen_std_specifiers "int" = None.
Proof. vm_compute; auto. Qed.

Print Assumptions c10_generated_tables_ok.
Print Assumptions c10_named_accessors.
Print Assumptions c10_project_singleton_spec.
Print Assumptions c10_project_singleton_qual.
Print Assumptions c10_project_injective.
Print Assumptions c10_unknown_refused.
Print Assumptions c10_decompose_union_spec.
Print Assumptions c10_decompose_union_qual.
Print Assumptions c10_decompose_union_generic.
Print Assumptions c10_ops_are_set_ops.
Print Assumptions c10_implies_is_subset.
Print Assumptions c10_subset_implies.
Print Assumptions c10_fits_32_bits.
Print Assumptions c10_nonvacuous.
