(* Arena.v — executable model of util::string::arena (src/utility.cxx:19-80,
   include/ipr/utility:397-443) and of util::string_pool::intern
   (src/impl.cxx:277-297), including the binary search over the sorted
   reserved-word table (src/impl.cxx:123-139).

   Sizes are unbounded Z; a word is a list of bytes (N, any value 0..255, no
   terminator).  Memory is a finite map (pool, byte offset) -> byte so that
   "a later interning never alters an earlier string" is a statement about
   overlapping writes, not a definition.  Definitions only; proofs in
   ArenaProofs.v. *)
From Coq Require Import List ZArith NArith Bool Lia.
From Coq Require Import OrderedTypeEx FMapAVL.
Import ListNotations.
Local Open Scope Z_scope.

Definition byte := N.
Definition word := list byte.

Definition headersz : Z := 16.          (* sizeof(util::string) *)
Definition padding : Z := 8.            (* string::padding_count: bytes of data inside the header *)
Definition bufsz : Z := 65536.          (* headers per pool: headersz shifted left by 20 - sizeof (pointer) *)

(* granules needed for a string of n bytes: C++ `(n - padding + headersz - 1) / headersz + 1`.
   For n >= 0 the numerator is >= 7, so C++ truncating division is floor. *)
Definition headers_for (n : Z) : Z := (n - padding + headersz - 1) / headersz + 1.

Record block := { b_pool : nat; b_off : Z (* in headers *); b_len : Z (* headers *); b_bytes : Z }.

Record arena := {
  a_npools : nat;              (* pools allocated so far; ids 0 .. a_npools-1 in creation order *)
  a_caps : list Z;             (* capacity, in bytes of storage, of each pool (index = id) *)
  a_chain : list nat;          (* mem, mem->previous, ... *)
  a_cur : nat;                 (* the pool `mem` points to *)
  a_next : Z;                  (* next_header, as a header offset in the current pool *)
  a_blocks : list block        (* every block handed out, newest first *)
}.

Definition arena_init : arena :=
  {| a_npools := 1; a_caps := [headersz * bufsz]; a_chain := [0%nat]; a_cur := 0%nat; a_next := 0; a_blocks := [] |}.

Inductive alloc_tag := FitsCurrent | Oversize | NewPool.

(* arena::allocate *)
Definition allocate (a : arena) (n : Z) : arena * block * alloc_tag :=
  let m := headers_for n in
  if m <=? bufsz - a_next a then
    let b := {| b_pool := a_cur a; b_off := a_next a; b_len := m; b_bytes := n |} in
    ({| a_npools := a_npools a; a_caps := a_caps a; a_chain := a_chain a; a_cur := a_cur a;
        a_next := a_next a + m; a_blocks := b :: a_blocks a |}, b, FitsCurrent)
  else if bufsz <? n then
    (* string on its own pool, spliced behind the current one: operator new(poolsz + (n - bufsz)) *)
    let p := a_npools a in
    let b := {| b_pool := p; b_off := 0; b_len := m; b_bytes := n |} in
    ({| a_npools := S p; a_caps := a_caps a ++ [headersz * bufsz + (n - bufsz)];
        a_chain := (match a_chain a with c :: rest => c :: p :: rest | [] => [p] end);
        a_cur := a_cur a; a_next := a_next a; a_blocks := b :: a_blocks a |}, b, Oversize)
  else
    let p := a_npools a in
    let b := {| b_pool := p; b_off := 0; b_len := m; b_bytes := n |} in
    ({| a_npools := S p; a_caps := a_caps a ++ [headersz * bufsz];
        a_chain := p :: a_chain a; a_cur := p; a_next := m; a_blocks := b :: a_blocks a |}, b, NewPool).

(* ---- memory: a finite map (pool, byte offset) -> byte (AVL tree, so that the
   extracted model runs on megabyte-sized words) ---- *)
Module PZ := PairOrderedType Nat_as_OT Z_as_OT.
Module Mem := FMapAVL.Make PZ.
Definition memory := Mem.t byte.
Definition mem_init : memory := Mem.empty byte.
Definition mem_get (m : memory) (p : nat) (o : Z) : byte :=
  match Mem.find (p, o) m with Some b => b | None => 0%N end.

Fixpoint write_bytes (m : memory) (p : nat) (off : Z) (w : word) : memory :=
  match w with
  | [] => m
  | c :: w' => write_bytes (Mem.add (p, off) c m) p (off + 1) w'
  end.

Fixpoint read_bytes (m : memory) (p : nat) (off : Z) (n : nat) : word :=
  match n with O => [] | S n' => mem_get m p off :: read_bytes m p (off + 1) n' end.

(* byte offset, within the pool's storage, of the characters of a block:
   the header's `length` field occupies the first 8 bytes *)
Definition data_off (b : block) : Z := headersz * b_off b + padding.

(* ---- reserved words: std::lower_bound over the sorted table ---- *)
Fixpoint word_cmp (a b : word) : comparison :=
  match a, b with
  | [], [] => Eq
  | [], _ :: _ => Lt
  | _ :: _, [] => Gt
  | x :: a', y :: b' => match N.compare x y with Eq => word_cmp a' b' | c => c end
  end.
Definition word_ltb (a b : word) : bool := match word_cmp a b with Lt => true | _ => false end.
Definition word_eqb (a b : word) : bool := match word_cmp a b with Eq => true | _ => false end.

(* libstdc++'s __lower_bound: first, len; half = len/2; mid = first + half *)
Fixpoint lower_bound (fuel : nat) (tbl : list word) (first len : nat) (w : word) : nat :=
  match fuel with
  | O => first
  | S f =>
    if Nat.eqb len 0 then first
    else
      let half := Nat.div2 len in
      let mid := (first + half)%nat in
      match nth_error tbl mid with
      | Some x => if word_ltb x w then lower_bound f tbl (S mid) (len - half - 1) w
                  else lower_bound f tbl first half w
      | None => first
      end
  end.

Definition word_if_known (tbl : list word) (w : word) : option nat :=
  let place := lower_bound (S (length tbl)) tbl 0 (length tbl) w in
  match nth_error tbl place with
  | Some x => if word_eqb x w then Some place else None
  | None => None
  end.

(* ---- the string pool ---- *)
Inductive strnode := SEmpty | SReserved (k : nat) | SDynamic (id : nat).

Record dyn := { d_word_len : Z; d_block : block; d_hash : N }.

Record pool := {
  p_arena : arena;
  p_mem : memory;
  p_nodes : list dyn;          (* dynamic String nodes, oldest first; id = position *)
}.

Definition pool_init : pool := {| p_arena := arena_init; p_mem := mem_init; p_nodes := [] |}.

Definition node_chars (p : pool) (d : dyn) : word :=
  read_bytes (p_mem p) (b_pool (d_block d)) (data_off (d_block d)) (Z.to_nat (d_word_len d)).

Inductive intern_tag := IEmpty | IReserved | IHit | IMissCollide | IMiss.

Section Intern.
Variable known : list word.
Variable hash : word -> N.

(* the bucket of hash code h, newest first (emplace_front), as (id, node) *)
Definition bucket (p : pool) (h : N) : list (nat * dyn) :=
  rev (filter (fun e => N.eqb (d_hash (snd e)) h) (combine (seq 0 (length (p_nodes p))) (p_nodes p))).

Definition intern (p : pool) (w : word) : pool * strnode * intern_tag :=
  match w with
  | [] => (p, SEmpty, IEmpty)
  | _ =>
    match word_if_known known w with
    | Some k => (p, SReserved k, IReserved)
    | None =>
      let h := hash w in
      let bk := bucket p h in
      match find (fun e => word_eqb (node_chars p (snd e)) w) bk with
      | Some e => (p, SDynamic (fst e), IHit)
      | None =>
        let n := Z.of_nat (length w) in
        let '(a', b, _) := allocate (p_arena p) n in
        let m' := write_bytes (p_mem p) (b_pool b) (data_off b) w in
        let d := {| d_word_len := n; d_block := b; d_hash := h |} in
        ({| p_arena := a'; p_mem := m'; p_nodes := p_nodes p ++ [d] |},
         SDynamic (length (p_nodes p)),
         match bk with [] => IMiss | _ => IMissCollide end)
      end
    end
  end.

Fixpoint intern_all (p : pool) (ws : list word) : pool * list strnode :=
  match ws with
  | [] => (p, [])
  | w :: ws' =>
    let '(p1, n, _) := intern p w in
    let '(p2, ns) := intern_all p1 ws' in
    (p2, n :: ns)
  end.

(* String::characters() of a node in the final pool *)
Definition chars_of (p : pool) (n : strnode) : option word :=
  match n with
  | SEmpty => Some []
  | SReserved k => nth_error known k
  | SDynamic i => option_map (node_chars p) (nth_error (p_nodes p) i)
  end.
End Intern.
