(* Scope.v — model of impl::Scope: declaration sequence, overload sets keyed
   by name, entries keyed by type with their declaration sets
   (src/impl.cxx:1473-1634, include/ipr/impl:1355-1426,1543-1592,1896-1922,
   src/impl.cxx:555-577), and proofs of C07 over arbitrary declaration
   histories.  Names and types are node identities (nat); the two lookups are
   association lists here — that the red-black tables with node_compare behave
   like them is Unify.v / LexTables.v (unary by address). *)
From Coq Require Import List PeanoNat Bool Lia Sorted.
Import ListNotations.

Record entry := { e_type : nat; e_decls : list nat }.          (* decl-set: positions, in entry order *)
Record ovl := { o_name : nat; o_entries : list entry }.        (* entries in order of first declaration *)
Record scope := { s_decls : list (nat * nat); s_ovls : list ovl }.   (* (name, type) of each declaration *)

Definition scope_empty : scope := {| s_decls := []; s_ovls := [] |}.

Fixpoint upd_entries (es : list entry) (t pos : nat) : list entry :=
  match es with
  | [] => [{| e_type := t; e_decls := [pos] |}]                                  (* declare: new master *)
  | e :: es' => if Nat.eqb (e_type e) t
                then {| e_type := t; e_decls := e_decls e ++ [pos] |} :: es'     (* redeclare *)
                else e :: upd_entries es' t pos
  end.

Fixpoint upd_ovls (os : list ovl) (n t pos : nat) : list ovl :=
  match os with
  | [] => [{| o_name := n; o_entries := upd_entries [] t pos |}]
  | o :: os' => if Nat.eqb (o_name o) n
                then {| o_name := n; o_entries := upd_entries (o_entries o) t pos |} :: os'
                else o :: upd_ovls os' n t pos
  end.

(* Scope::make_* : overload by name, entry by type, declare or redeclare, add_member *)
Definition declare (s : scope) (d : nat * nat) : scope :=
  let pos := length (s_decls s) in
  {| s_decls := s_decls s ++ [d]; s_ovls := upd_ovls (s_ovls s) (fst d) (snd d) pos |}.

Definition run (h : list (nat * nat)) : scope := fold_left declare h scope_empty.

(* ---- observers ---- *)
Definition lookup (s : scope) (n : nat) : option ovl := find (fun o => Nat.eqb (o_name o) n) (s_ovls s).
Definition entry_of (o : ovl) (t : nat) : option entry := find (fun e => Nat.eqb (e_type e) t) (o_entries o).
(* Overload::operator[] : the first declaration of the decl-set *)
Definition select (s : scope) (n t : nat) : option nat :=
  match lookup s n with
  | Some o => match entry_of o t with Some e => hd_error (e_decls e) | None => None end
  | None => None
  end.
Definition decl_set (s : scope) (i : nat) : option (list nat) :=
  match nth_error (s_decls s) i with
  | Some (n, t) => match lookup s n with
                   | Some o => option_map e_decls (entry_of o t)
                   | None => None
                   end
  | None => None
  end.
Definition master (s : scope) (i : nat) : option nat :=
  match decl_set s i with Some l => hd_error l | None => None end.
Definition elements (s : scope) : list nat := seq 0 (length (s_decls s)).
Definition scope_type (s : scope) : list nat := map snd (s_decls s).

(* ---- specification, straight from the history ---- *)
Definition indices_with (h : list (nat * nat)) (n t : nat) : list nat :=
  map fst (filter (fun p => Nat.eqb (fst (snd p)) n && Nat.eqb (snd (snd p)) t) (combine (seq 0 (length h)) h)).

(* ------------------------------------------------------------------ *)
Definition group (s : scope) (n t : nat) : list nat :=
  match lookup s n with
  | Some o => match entry_of o t with Some e => e_decls e | None => [] end
  | None => []
  end.

Lemma entry_of_upd_same : forall es t pos,
  find (fun e => Nat.eqb (e_type e) t) (upd_entries es t pos) =
  Some {| e_type := t; e_decls := match find (fun e => Nat.eqb (e_type e) t) es with
                                  | Some e => e_decls e ++ [pos] | None => [pos] end |}.
Proof.
  induction es as [|e es IH]; intros t pos; simpl.
  - rewrite Nat.eqb_refl. reflexivity.
  - destruct (Nat.eqb (e_type e) t) eqn:E; simpl.
    + rewrite Nat.eqb_refl. reflexivity.
    + rewrite E. apply IH.
Qed.

Lemma entry_of_upd_other : forall es t t' pos, t' <> t ->
  find (fun e => Nat.eqb (e_type e) t') (upd_entries es t pos) = find (fun e => Nat.eqb (e_type e) t') es.
Proof.
  induction es as [|e es IH]; intros t t' pos Hne; simpl.
  - destruct (Nat.eqb_spec t t'); [congruence|reflexivity].
  - destruct (Nat.eqb (e_type e) t) eqn:E; simpl.
    + apply Nat.eqb_eq in E. destruct (Nat.eqb_spec t t'); [congruence|].
      destruct (Nat.eqb_spec (e_type e) t'); [congruence|reflexivity].
    + destruct (Nat.eqb (e_type e) t'); auto.
Qed.

Lemma lookup_upd_same : forall os n t pos,
  find (fun o => Nat.eqb (o_name o) n) (upd_ovls os n t pos) =
  Some {| o_name := n; o_entries := upd_entries (match find (fun o => Nat.eqb (o_name o) n) os with
                                                 | Some o => o_entries o | None => [] end) t pos |}.
Proof.
  induction os as [|o os IH]; intros n t pos; simpl.
  - rewrite Nat.eqb_refl. reflexivity.
  - destruct (Nat.eqb (o_name o) n) eqn:E; simpl.
    + rewrite Nat.eqb_refl. reflexivity.
    + rewrite E. apply IH.
Qed.

Lemma lookup_upd_other : forall os n n' t pos, n' <> n ->
  find (fun o => Nat.eqb (o_name o) n') (upd_ovls os n t pos) = find (fun o => Nat.eqb (o_name o) n') os.
Proof.
  induction os as [|o os IH]; intros n n' t pos Hne; simpl.
  - destruct (Nat.eqb_spec n n'); [congruence|reflexivity].
  - destruct (Nat.eqb (o_name o) n) eqn:E; simpl.
    + apply Nat.eqb_eq in E. destruct (Nat.eqb_spec n n'); [congruence|].
      destruct (Nat.eqb_spec (o_name o) n'); [congruence|reflexivity].
    + destruct (Nat.eqb (o_name o) n'); auto.
Qed.

(* the group of (n, t) after one more declaration *)
Lemma group_declare : forall s d n t,
  group (declare s d) n t =
  if Nat.eqb (fst d) n && Nat.eqb (snd d) t then group s n t ++ [length (s_decls s)] else group s n t.
Proof.
  intros s [dn dt] n t. unfold group, lookup, entry_of, declare; simpl.
  destruct (Nat.eqb_spec dn n) as [->|Hn]; simpl.
  - rewrite lookup_upd_same. simpl.
    destruct (Nat.eqb_spec dt t) as [->|Ht].
    + rewrite entry_of_upd_same. simpl.
      destruct (find (fun o => Nat.eqb (o_name o) n) (s_ovls s)) as [o|]; simpl; auto.
      destruct (find (fun e => Nat.eqb (e_type e) t) (o_entries o)); reflexivity.
    + rewrite entry_of_upd_other by auto.
      destruct (find (fun o => Nat.eqb (o_name o) n) (s_ovls s)); reflexivity.
  - rewrite lookup_upd_other by auto. reflexivity.
Qed.

Lemma run_snoc : forall h d, run (h ++ [d]) = declare (run h) d.
Proof. intros. unfold run. rewrite fold_left_app. reflexivity. Qed.

Lemma run_decls : forall h, s_decls (run h) = h.
Proof.
  intros h. induction h as [|d h IH] using rev_ind; [reflexivity|].
  rewrite run_snoc. simpl. rewrite IH. reflexivity.
Qed.

Lemma combine_app' : forall (A B : Type) (l1 l1' : list A) (l2 l2' : list B),
  length l1 = length l2 -> combine (l1 ++ l1') (l2 ++ l2') = combine l1 l2 ++ combine l1' l2'.
Proof.
  induction l1 as [|a l1 IH]; intros l1' [|b l2] l2' H; simpl in *; try discriminate; auto.
  f_equal. apply IH. lia.
Qed.

Lemma indices_with_snoc : forall h d n t,
  indices_with (h ++ [d]) n t =
  if Nat.eqb (fst d) n && Nat.eqb (snd d) t then indices_with h n t ++ [length h] else indices_with h n t.
Proof.
  intros h d n t. unfold indices_with.
  rewrite app_length. simpl. rewrite Nat.add_1_r, seq_S. simpl.
  rewrite combine_app' by (rewrite seq_length; reflexivity). simpl.
  rewrite filter_app, map_app. simpl.
  destruct (Nat.eqb (fst d) n && Nat.eqb (snd d) t); simpl; [reflexivity|apply app_nil_r].
Qed.

Theorem group_is_indices : forall h n t, group (run h) n t = indices_with h n t.
Proof.
  intros h. induction h as [|d h IH] using rev_ind; intros n t; [reflexivity|].
  rewrite run_snoc, group_declare, indices_with_snoc, run_decls, IH. reflexivity.
Qed.

(* ---- the statements of C07 ---- *)
Theorem scope_lists_entry_order : forall h, elements (run h) = seq 0 (length h) /\ s_decls (run h) = h.
Proof. intros. unfold elements. rewrite run_decls. auto. Qed.

Theorem scope_type_is_product : forall h, scope_type (run h) = map snd h.
Proof. intros. unfold scope_type. rewrite run_decls. reflexivity. Qed.

Lemma lookup_group_nonempty : forall h n, lookup (run h) n <> None <-> exists d, In d h /\ fst d = n.
Proof.
  intros h. induction h as [|d h IH] using rev_ind; intros n.
  - unfold lookup, run; simpl. split; [intros H; exfalso; apply H; reflexivity|intros (d & [] & _)].
  - rewrite run_snoc. unfold lookup, declare; simpl. destruct d as [dn dt]; simpl.
    destruct (Nat.eqb_spec dn n) as [->|Hne].
    + rewrite lookup_upd_same. split; [|discriminate]. intros _. exists (n, dt). split; [apply in_or_app; simpl; auto|reflexivity].
    + rewrite lookup_upd_other by auto. fold (lookup (run h) n). rewrite IH. split.
      * intros (d & Hd & Hf). exists d. split; auto. apply in_or_app; auto.
      * intros (d & Hd & Hf). apply in_app_or in Hd as [Hd|[<-|[]]]; [eauto|]. simpl in Hf. congruence.
Qed.

Theorem lookup_iff_declared : forall h n, lookup (run h) n <> None <-> exists d, In d h /\ fst d = n.
Proof. exact lookup_group_nonempty. Qed.

Theorem select_is_first : forall h n t, select (run h) n t = hd_error (indices_with h n t).
Proof.
  intros h n t. rewrite <- group_is_indices. unfold select, group.
  destruct (lookup (run h) n) as [o|]; [|reflexivity].
  destruct (entry_of o t); reflexivity.
Qed.

Lemma in_combine_seq : forall (A : Type) (l : list A) s i x,
  In (i, x) (combine (seq s (length l)) l) <-> s <= i /\ nth_error l (i - s) = Some x.
Proof.
  intros A l. induction l as [|y l IH]; intros s i x; simpl.
  - split; [tauto|]. intros [_ H]. destruct (i - s); discriminate.
  - rewrite IH. split.
    + intros [H|[H1 H2]].
      * inversion H; subst. rewrite Nat.sub_diag. auto.
      * split; [lia|]. replace (i - s) with (S (i - S s)) by lia. exact H2.
    + intros [H1 H2]. destruct (Nat.eq_dec i s) as [->|Hne].
      * rewrite Nat.sub_diag in H2. inversion H2; subst. left; reflexivity.
      * right. split; [lia|]. replace (i - s) with (S (i - S s)) in H2 by lia. exact H2.
Qed.

Lemma entry_exists_of_decl : forall h i n t, nth_error h i = Some (n, t) -> In i (indices_with h n t).
Proof.
  intros h i n t H. unfold indices_with. apply in_map_iff. exists (i, (n, t)). split; auto.
  apply filter_In. split; [|simpl; rewrite !Nat.eqb_refl; reflexivity].
  apply in_combine_seq. rewrite Nat.sub_0_r. split; [lia|exact H].
Qed.

Theorem declset_is_group : forall h i n t, nth_error h i = Some (n, t) ->
  decl_set (run h) i = Some (indices_with h n t) /\ In i (indices_with h n t).
Proof.
  intros h i n t H. split; [|eapply entry_exists_of_decl; eauto].
  unfold decl_set. rewrite run_decls, H.
  pose proof (group_is_indices h n t) as G. unfold group in G.
  pose proof (entry_exists_of_decl h i n t H) as Hin.
  destruct (lookup (run h) n) as [o|]; [|rewrite <- G in Hin; destruct Hin].
  destruct (entry_of o t) as [e|]; [|rewrite <- G in Hin; destruct Hin].
  simpl. rewrite G. reflexivity.
Qed.

Theorem master_is_first : forall h i n t, nth_error h i = Some (n, t) ->
  master (run h) i = hd_error (indices_with h n t) /\ master (run h) i <> None.
Proof.
  intros h i n t H. unfold master. destruct (declset_is_group h i n t H) as [-> Hin].
  split; auto. destruct (indices_with h n t); [destruct Hin|discriminate].
Qed.

(* the decl-set lists exactly the declarations sharing name and type, in entry order *)
Theorem indices_with_spec : forall h n t j,
  In j (indices_with h n t) <-> nth_error h j = Some (n, t).
Proof.
  intros h n t j. unfold indices_with. rewrite in_map_iff. split.
  - intros ((j' & d) & Hj & Hin). simpl in Hj; subst j'. apply filter_In in Hin as [Hin Hb].
    simpl in Hb. apply andb_true_iff in Hb as [H1 H2]. apply Nat.eqb_eq in H1, H2.
    apply in_combine_seq in Hin as [_ Hin]. rewrite Nat.sub_0_r in Hin. destruct d; simpl in *; subst. exact Hin.
  - intros H. exists (j, (n, t)). split; auto. apply filter_In. split; [|simpl; rewrite !Nat.eqb_refl; reflexivity].
    apply in_combine_seq. rewrite Nat.sub_0_r. split; [lia|exact H].
Qed.

Theorem indices_with_sorted : forall h n t, StronglySorted lt (indices_with h n t).
Proof.
  intros h n t. unfold indices_with. generalize 0.
  induction h as [|d h IH]; intros s; simpl; [constructor|].
  destruct (Nat.eqb (fst d) n && Nat.eqb (snd d) t); simpl; [|apply IH].
  constructor; [apply IH|].
  apply Forall_forall. intros x Hx. apply in_map_iff in Hx as ((k & y) & Hk & Hin). simpl in Hk; subst.
  apply filter_In in Hin as [Hin _].
  apply in_combine_seq in Hin as [Hin _]. lia.
Qed.

(* ---- homogeneous scopes: parameter lists, enumerations, base lists, handler
   regions: unique declarations, singleton sets, position = index ---- *)
Record hdecl := { h_name : nat; h_type : nat; h_pos : nat }.
Definition hscope := list hdecl.
Definition h_add (s : hscope) (n t : nat) : hscope := s ++ [{| h_name := n; h_type := t; h_pos := length s |}].
Definition h_run (l : list (nat * nat)) : hscope := fold_left (fun s d => h_add s (fst d) (snd d)) l [].

Lemma h_run_snoc : forall l x, h_run (l ++ [x]) = h_add (h_run l) (fst x) (snd x).
Proof. intros. unfold h_run. rewrite fold_left_app. reflexivity. Qed.

Lemma h_run_length : forall l, length (h_run l) = length l.
Proof.
  induction l as [|y l IHl] using rev_ind; [reflexivity|].
  rewrite h_run_snoc. unfold h_add. rewrite !app_length. simpl. lia.
Qed.

Theorem homogeneous_positions : forall l i d, nth_error (h_run l) i = Some d ->
  h_pos d = i /\ nth_error l i = Some (h_name d, h_type d).
Proof.
  intros l. induction l as [|x l IH] using rev_ind; intros i d H.
  - destruct i; discriminate.
  - rewrite h_run_snoc in H. unfold h_add in H.
    pose proof (h_run_length l) as Hlen.
    destruct (Nat.lt_ge_cases i (length (h_run l))) as [Hlt|Hge].
    + rewrite nth_error_app1 in H by auto. destruct (IH i d H) as [H1 H2]. split; auto.
      rewrite nth_error_app1; auto. lia.
    + assert (i = length (h_run l)).
      { assert (Hl : i < length (h_run l ++ [{| h_name := fst x; h_type := snd x; h_pos := length (h_run l) |}])) by (apply nth_error_Some; rewrite H; discriminate).
        rewrite app_length in Hl; simpl in Hl; lia. }
      subst i. rewrite nth_error_app2, Nat.sub_diag in H by lia. inversion H; subst; simpl.
      split; auto. rewrite Hlen, nth_error_app2, Nat.sub_diag by lia. destruct x; reflexivity.
Qed.
