(* Properties_C01.v — C01: types are unified: same constructor arguments give
   the same node, and only then.  Model: Lexicon.v (requests, normal forms,
   finite-map tables); refinement to the red-black tables: Unify.v,
   LexTables.v; tie of the comparators to the source: GenCmp via GenCheck.v. *)
From Coq Require Import List ZArith NArith String Bool.
From IprV Require Import GenTypes RBModel RBProofs Comparators Unify Arena ArenaProofs Lexicon LexiconProofs LexTables GenCheck LexInst.
From IprV.gen Require Import GenCmp GenWords.
From IprV Require Derived CompareSource.
From IprV.gen Require GenDerived.
From IprV.gen Require GenAccess.
Import ListNotations.

(* For every history of requests (every interleaving, every operand choice):
   two requests are answered by the same node exactly when they stand for the
   same key after the collapses the interface documents (default `false`
   exception specification, natural transfer, Warehouse copies, qualifier
   merging). *)
Theorem c01_types_unified : forall rs i j mi ri ni mj rj nj,
  nth_error (Trace [] rs) i = Some (mi, ri, Some ni) ->
  nth_error (Trace [] rs) j = Some (mj, rj, Some nj) ->
  (ni = nj <-> FinalKey mi ri = FinalKey mj rj).
Proof. exact (requests_unified known_words builtin_words ix_default ix_this ix_C ix_Cxx builtin_void). Qed.

(* whatever is built afterwards, earlier answers stay *)
Theorem c01_answers_stable : forall rs rs' m i e,
  nth_error (Trace m rs) i = Some e -> nth_error (Trace m (rs ++ rs')) i = Some e.
Proof. exact (answers_stable known_words builtin_words ix_default ix_this ix_C ix_Cxx builtin_void). Qed.

(* the documented collapses, as equations between keys *)
Theorem c01_default_exception_spec : forall m s t,
  FinalKey m (RFunction s t None None) = FinalKey m (RFunction s t (Some (SymConst 0)) None).
Proof. reflexivity. Qed.
Theorem c01_natural_transfer_collapses : forall m s t e,
  FinalKey m (RFunction s t e (Some NaturalXfer)) = FinalKey m (RFunction s t e None) /\
  FinalKey m (RAsType s (Some NaturalXfer)) = FinalKey m (RAsType s None).
Proof.
  intros. unfold Lexicon.final_key. simpl. unfold is_natural, words_eqb. simpl.
  try rewrite (proj2 (word_eqb_eq _ _) eq_refl). simpl. auto.
Qed.
Theorem c01_warehouse_is_sequence : forall m ts,
  FinalKey m (RProductW ts) = FinalKey m (RProduct ts) /\ FinalKey m (RSumW ts) = FinalKey m (RSum ts).
Proof. intros; split; reflexivity. Qed.

(* the red-black tables behind the constructors answer like the finite map,
   for every injective address assignment *)
Theorem c01_unary_tables : forall (node : Type) (addr : node -> Z), (forall a b, addr a = addr b -> a = b) ->
  forall ks, exists s ns, trun node (unary_cmp node addr) (rb_empty _) ks = Some (s, ns) /\ List.length ns = List.length ks /\
  forall i j ki kj ni nj, nth_error ks i = Some ki -> nth_error ks j = Some kj ->
    nth_error ns i = Some ni -> nth_error ns j = Some nj -> (ni = nj <-> ki = kj).
Proof. exact unary_table_unified. Qed.
Theorem c01_binary_tables : forall (node : Type) (addr : node -> Z), (forall a b, addr a = addr b -> a = b) ->
  forall ks, exists s ns, trun _ (binary_cmp node addr) (rb_empty _) ks = Some (s, ns) /\ List.length ns = List.length ks /\
  forall i j ki kj ni nj, nth_error ks i = Some ki -> nth_error ks j = Some kj ->
    nth_error ns i = Some ni -> nth_error ns j = Some nj -> (ni = nj <-> ki = kj).
Proof. exact binary_table_unified. Qed.
Theorem c01_qualified_table : forall (node : Type) (addr : node -> Z), (forall a b, addr a = addr b -> a = b) ->
  forall ks, exists s ns, trun _ (qual_cmp node addr) (rb_empty _) ks = Some (s, ns) /\ List.length ns = List.length ks /\
  forall i j ki kj ni nj, nth_error ks i = Some ki -> nth_error ks j = Some kj ->
    nth_error ns i = Some ni -> nth_error ns j = Some nj -> (ni = nj <-> ki = kj).
Proof. exact qualified_table_unified. Qed.
Theorem c01_function_table : forall (node : Type) (addr : node -> Z), (forall a b, addr a = addr b -> a = b) ->
  forall ks, exists s ns, trun _ (ternary_cmp node addr) (rb_empty _) ks = Some (s, ns) /\ List.length ns = List.length ks /\
  forall i j ki kj ni nj, nth_error ks i = Some ki -> nth_error ks j = Some kj ->
    nth_error ns i = Some ni -> nth_error ns j = Some nj -> (ni = nj <-> ki = kj).
Proof. exact ternary_table_unified. Qed.
Theorem c01_sequence_tables : forall (node : Type) (addr : node -> Z), (forall a b, addr a = addr b -> a = b) ->
  forall ks, exists s ns, trun _ (seq_cmp node addr) (rb_empty _) ks = Some (s, ns) /\ List.length ns = List.length ks /\
  forall i j ki kj ni nj, nth_error ks i = Some ki -> nth_error ks j = Some kj ->
    nth_error ns i = Some ni -> nth_error ns j = Some nj -> (ni = nj <-> ki = kj).
Proof. exact sequence_table_unified. Qed.
Theorem c01_transfer_tables :
  forall ks, exists s ns, trun _ xfer_cmp (rb_empty _) ks = Some (s, ns) /\ List.length ns = List.length ks /\
  forall i j ki kj ni nj, nth_error ks i = Some ki -> nth_error ks j = Some kj ->
    nth_error ns i = Some ni -> nth_error ns j = Some nj -> (ni = nj <-> ki = kj).
Proof. exact transfer_table_unified. Qed.
Theorem c01_with_transfer_tables : forall (node : Type) (addr : node -> Z), (forall a b, addr a = addr b -> a = b) ->
  (forall ks, exists s ns, trun _ (fun_x_cmp node addr) (rb_empty _) ks = Some (s, ns) /\ List.length ns = List.length ks /\
   forall i j ki kj ni nj, nth_error ks i = Some ki -> nth_error ks j = Some kj ->
     nth_error ns i = Some ni -> nth_error ns j = Some nj -> (ni = nj <-> ki = kj)) /\
  (forall ks, exists s ns, trun _ (astype_x_cmp node addr) (rb_empty _) ks = Some (s, ns) /\ List.length ns = List.length ks /\
   forall i j ki kj ni nj, nth_error ks i = Some ki -> nth_error ks j = Some kj ->
     nth_error ns i = Some ni -> nth_error ns j = Some nj -> (ni = nj <-> ki = kj)).
Proof. intros; split; [apply function_transfer_table_unified | apply astype_transfer_table_unified]; auto. Qed.

(* in the current source every insert/find site of the type tables exists and
   resolves to a comparator over the stored KEY (not the element's own address) *)
Theorem c01_comparators_match_source : tables_ok gen_cmp_sites type_tables = true.
Proof. vm_compute. reflexivity. Qed.

Example c01_nonvacuous :
  map (fun e => snd e) (Trace [] [RPointer (Builtin 17); RProductW [Builtin 17; Dyn 0]; RProduct [Builtin 17; Dyn 0];
                                   RFunction (Dyn 2) (Builtin 7) None None;
                                   RFunction (Dyn 2) (Builtin 7) (Some (SymConst 0)) (Some NaturalXfer); RPointer (Builtin 17);
                                   RQualified 0 (Dyn 0)])
  = [Some (Dyn 0); Some (Dyn 2); Some (Dyn 2); Some (Dyn 3); Some (Dyn 3); Some (Dyn 0); None].
Proof. vm_compute. reflexivity. Qed.

(* the leaf comparisons as they stand in the source (CompareSource.v over the regenerated GenDerived / GenCmp) *)
Theorem c01_linkage_order_is_by_language : forall (I : Derived.interp) fuel a b,
  CompareSource.cmp I (20 + fuel) "ipr::Linkage" a b =
  CompareSource.cmp I (20 + fuel) "ipr::Logogram" (CompareSource.acc I (20 + fuel) "Linkage::language" a) (CompareSource.acc I (20 + fuel) "Linkage::language" b).
Proof. exact CompareSource.linkage_order_is_by_language. Qed.

Theorem c01_convention_order_is_by_name : forall (I : Derived.interp) fuel a b,
  CompareSource.cmp I (20 + fuel) "ipr::Calling_convention" a b =
  CompareSource.cmp I (20 + fuel) "ipr::Logogram" (CompareSource.acc I (20 + fuel) "Calling_convention::name" a) (CompareSource.acc I (20 + fuel) "Calling_convention::name" b).
Proof. exact CompareSource.convention_order_is_by_name. Qed.

Theorem c01_transfer_order_is_lexicographic : forall (I : Derived.interp) fuel a b,
  CompareSource.cmp I (20 + fuel) "ipr::Transfer" a b =
  match CompareSource.cmp I (20 + fuel) "ipr::Linkage" (CompareSource.acc I (20 + fuel) "Transfer::linkage" a) (CompareSource.acc I (20 + fuel) "Transfer::linkage" b) with
  | Derived.VZ 0 => CompareSource.cmp I (20 + fuel) "ipr::Calling_convention" (CompareSource.acc I (20 + fuel) "Transfer::convention" a) (CompareSource.acc I (20 + fuel) "Transfer::convention" b)
  | Derived.VZ z => Derived.VZ z
  | _ => Derived.VErr "three-way result"
  end.
Proof. exact CompareSource.transfer_order_is_lexicographic. Qed.

Theorem c01_node_order_is_by_address : forall (I : Derived.interp) fuel a b this,
  match Derived.lookup_row GenDerived.gen_derived "::compare(ipr::Node)" with
  | Some (_, body) => Derived.eval GenDerived.gen_derived I (20 + fuel) this [a; b] body
  | None => Derived.VErr "no such overload"
  end = Derived.prim I "::compare(ipr::Node*)" this [a; b].
Proof. exact CompareSource.node_order_is_by_address. Qed.

Theorem c01_value_operands_resolve_to_value_overloads : CompareSource.calls_ok gen_compare_calls = true.
Proof. exact CompareSource.value_operands_resolve_to_value_overloads. Qed.

(* The library swallows no exception: every catch clause in it ends by throwing again (table regenerated from the source; at the
   time of writing the library has no catch clause at all), so a request that fails (out of memory, a refusal below) is not turned into a half-built table entry. *)
Theorem c01_library_swallows_no_exception :
  forallb (fun r => snd r) GenAccess.gen_catch_clauses = true.
Proof. vm_compute. reflexivity. Qed.

Print Assumptions c01_library_swallows_no_exception.
Print Assumptions c01_linkage_order_is_by_language.
Print Assumptions c01_convention_order_is_by_name.
Print Assumptions c01_transfer_order_is_lexicographic.
Print Assumptions c01_node_order_is_by_address.
Print Assumptions c01_value_operands_resolve_to_value_overloads.
Print Assumptions c01_types_unified.
Print Assumptions c01_answers_stable.
Print Assumptions c01_default_exception_spec.
Print Assumptions c01_natural_transfer_collapses.
Print Assumptions c01_warehouse_is_sequence.
Print Assumptions c01_unary_tables.
Print Assumptions c01_binary_tables.
Print Assumptions c01_qualified_table.
Print Assumptions c01_function_table.
Print Assumptions c01_sequence_tables.
Print Assumptions c01_transfer_tables.
Print Assumptions c01_with_transfer_tables.
Print Assumptions c01_comparators_match_source.
Print Assumptions c01_nonvacuous.
