(* Bits.v — model of the specifier / qualifier algebra (C10):
   impl::project, Basis::operator(), Basis::decompose (src/impl.cxx:2354-2411)
   and the bitwise helpers / implies of include/ipr/interface:204-245.

   Generic in the basis table [tbl] (a list of distinct words, at most 32 of
   them: the C++ computes `1u << pos` in a 32-bit unsigned).  Sets are N. *)
From Coq Require Import List NArith Lia Bool String PeanoNat.
From IprV Require Import GenTypes.
Import ListNotations.
Local Open Scope N_scope.

Definition bit (i : nat) : N := N.shiftl 1 (N.of_nat i).

Section Basis.
Variable tbl : list string.

(* project: position of the word in the table -> 1u << pos; refused when absent *)
Definition project (w : string) : option N := option_map bit (str_index w tbl).

Definition project0 (w : string) : N := match project w with Some x => x | None => 0 end.

(* ipr::implies(a, b) := (a & b) == b *)
Definition implies (a b : N) : bool := N.eqb (N.land a b) b.

(* Basis::decompose: walk the table, keep entry pos when implies(x, 1u << pos) *)
Fixpoint decompose_from (i : nat) (l : list string) (x : N) : list string :=
  match l with
  | [] => []
  | w :: l' => (if implies x (bit i) then [w] else []) ++ decompose_from (S i) l' x
  end.
Definition decompose (x : N) : list string := decompose_from 0 tbl x.

Definition union_of (ws : list string) : N := fold_right (fun w acc => N.lor (project0 w) acc) 0 ws.

(* ------------------------------------------------------------------ *)
Lemma bit_testbit i j : N.testbit (bit i) (N.of_nat j) = Nat.eqb i j.
Proof.
  unfold bit. rewrite N.shiftl_1_l, N.pow2_bits_eqb.
  destruct (Nat.eqb_spec i j) as [->|H].
  - apply N.eqb_refl.
  - apply N.eqb_neq. lia.
Qed.

Lemma bit_testbit_N i j : N.testbit (bit i) j = N.eqb (N.of_nat i) j.
Proof. unfold bit. rewrite N.shiftl_1_l, N.pow2_bits_eqb. reflexivity. Qed.

Lemma bit_nonzero i : bit i <> 0.
Proof. unfold bit. rewrite N.shiftl_1_l. apply N.pow_nonzero. lia. Qed.

Lemma implies_bit x i : implies x (bit i) = N.testbit x (N.of_nat i).
Proof.
  unfold implies. destruct (N.testbit x (N.of_nat i)) eqn:Hb.
  - apply N.eqb_eq. apply N.bits_inj_iff. intros j.
    rewrite N.land_spec, bit_testbit_N.
    destruct (N.eqb_spec (N.of_nat i) j) as [<-|Hne]; [rewrite Hb; reflexivity | apply andb_false_r].
  - apply N.eqb_neq. intros Heq.
    assert (H : N.testbit (N.land x (bit i)) (N.of_nat i) = N.testbit (bit i) (N.of_nat i)) by (rewrite Heq; reflexivity).
    rewrite N.land_spec, Hb, bit_testbit, Nat.eqb_refl in H. discriminate.
Qed.

Lemma implies_spec a b : implies a b = true <-> forall j, N.testbit b j = true -> N.testbit a j = true.
Proof.
  unfold implies. rewrite N.eqb_eq. split.
  - intros H j Hj. rewrite <- H, N.land_spec in Hj. apply andb_true_iff in Hj. tauto.
  - intros H. apply N.bits_inj_iff. intros j. rewrite N.land_spec.
    destruct (N.testbit b j) eqn:Hb; [rewrite (H j Hb); reflexivity | apply andb_false_r].
Qed.

Lemma str_index_In w : forall l, In w l -> exists i, str_index w l = Some i /\ (i < List.length l)%nat /\ nth_error l i = Some w.
Proof.
  induction l as [|x l IH]; simpl; [tauto|]. intros Hin.
  destruct (streq w x) eqn:He.
  - apply streq_eq in He. subst. exists 0%nat. repeat split; auto. lia.
  - destruct Hin as [->|Hin]; [rewrite (proj2 (streq_eq w w) eq_refl) in He; discriminate|].
    destruct (IH Hin) as (i & Hi & Hl & Hn). exists (S i). rewrite Hi. repeat split; auto. lia.
Qed.

Lemma str_index_None w : forall l, ~ In w l -> str_index w l = None.
Proof.
  induction l as [|x l IH]; simpl; auto. intros Hn.
  destruct (streq w x) eqn:He; [apply streq_eq in He; subst; tauto|].
  rewrite IH; auto.
Qed.

Lemma str_index_nth : forall l i w, NoDup l -> nth_error l i = Some w -> str_index w l = Some i.
Proof.
  induction l as [|x l IH]; intros [|i] w Hnd Hn; simpl in *; try discriminate.
  - inversion Hn; subst. rewrite (proj2 (streq_eq w w) eq_refl). reflexivity.
  - inversion Hnd; subst.
    destruct (streq w x) eqn:He.
    + apply streq_eq in He; subst. exfalso. apply H1. eapply nth_error_In; eauto.
    + rewrite (IH i w); auto.
Qed.

(* each basic name maps to a distinct, non-empty, single-element set *)
Theorem project_singleton : forall w, In w tbl ->
  exists i, project w = Some (bit i) /\ bit i <> 0 /\ nth_error tbl i = Some w.
Proof.
  intros w Hin. destruct (str_index_In w tbl Hin) as (i & Hi & _ & Hn).
  exists i. unfold project. rewrite Hi. repeat split; auto. apply bit_nonzero.
Qed.

Theorem project_injective : forall w w' x, project w = Some x -> project w' = Some x -> w = w'.
Proof.
  unfold project. intros w w' x H H'.
  destruct (str_index w tbl) as [i|] eqn:Hi; [|discriminate].
  destruct (str_index w' tbl) as [i'|] eqn:Hi'; [|discriminate].
  simpl in *. inversion H; inversion H'; subst.
  assert (i = i').
  { assert (Hb : N.testbit (bit i) (N.of_nat i) = N.testbit (bit i') (N.of_nat i)) by congruence.
    rewrite !bit_testbit, Nat.eqb_refl in Hb. symmetry in Hb. apply Nat.eqb_eq in Hb. auto. }
  subst i'.
  assert (forall v l k, str_index v l = Some k -> nth_error l k = Some v) as Hnth.
  { intros v l. induction l as [|y l IH]; simpl; [discriminate|]. intros k Hk.
    destruct (streq v y) eqn:E; [inversion Hk; apply streq_eq in E; subst; reflexivity|].
    destruct (str_index v l); [|discriminate]. inversion Hk; subst. simpl. apply IH; reflexivity. }
  pose proof (Hnth _ _ _ Hi). pose proof (Hnth _ _ _ Hi'). congruence.
Qed.

(* asking for the set of an unknown name is refused *)
Theorem unknown_refused : forall w, ~ In w tbl -> project w = None.
Proof. intros w H. unfold project. rewrite str_index_None; auto. Qed.

(* bit i of a union is set iff some member sits at position i of the table *)
Lemma union_testbit : forall ws i,
  N.testbit (union_of ws) (N.of_nat i) = existsb (fun w => match str_index w tbl with Some k => Nat.eqb k i | None => false end) ws.
Proof.
  induction ws as [|w ws IH]; intros i; cbn [union_of fold_right existsb].
  - exact (N.bits_0 _).
  - fold (union_of ws). rewrite N.lor_spec, IH. f_equal.
    unfold project0, project. destruct (str_index w tbl) as [k|]; cbn [option_map].
    + apply bit_testbit.
    + exact (N.bits_0 _).
Qed.

Lemma decompose_from_spec : forall l i x,
  decompose_from i l x = map snd (filter (fun p => N.testbit x (N.of_nat (fst p)))
                                         (combine (seq i (List.length l)) l)).
Proof.
  induction l as [|w l IH]; intros i x; simpl; auto.
  rewrite implies_bit. destruct (N.testbit x (N.of_nat i)); simpl; rewrite IH; reflexivity.
Qed.

(* decomposition of the union of any list of basic names (any order, with
   repetitions) returns exactly those names, in table order, each once *)
Theorem decompose_union : NoDup tbl -> forall ws, incl ws tbl ->
  decompose (union_of ws) = filter (fun w => str_mem w ws) tbl.
Proof.
  intros Hnd ws Hincl. unfold decompose. rewrite decompose_from_spec.
  assert (Hgen : forall l i, (forall k w, nth_error l k = Some w -> str_index w tbl = Some (i + k)%nat) ->
     map snd (filter (fun p => N.testbit (union_of ws) (N.of_nat (fst p))) (combine (seq i (List.length l)) l)) =
     filter (fun w => str_mem w ws) l).
  { induction l as [|w l IHl]; intros i Hpos; simpl; auto.
    assert (Hw : str_index w tbl = Some i) by (rewrite (Hpos 0%nat w eq_refl); f_equal; lia).
    assert (Hbit : N.testbit (union_of ws) (N.of_nat i) = str_mem w ws).
    { rewrite union_testbit.
      destruct (str_mem w ws) eqn:Hm.
      - apply existsb_exists. apply str_mem_In in Hm. exists w. split; auto. rewrite Hw. apply Nat.eqb_refl.
      - apply not_true_is_false. intros He. apply existsb_exists in He as (v & Hv & Hk).
        destruct (str_index v tbl) as [k|] eqn:Hvk; [|discriminate]. apply Nat.eqb_eq in Hk. subst k.
        assert (v = w).
        { eapply project_injective; unfold project; [rewrite Hvk|rewrite Hw]; reflexivity. }
        subst v. apply str_mem_In in Hv. congruence. }
    rewrite Hbit. destruct (str_mem w ws); simpl; [f_equal|];
      (apply IHl; intros k v Hk; rewrite (Hpos (S k) v Hk); f_equal; lia). }
  apply (Hgen tbl 0%nat). intros k w Hk. simpl. apply str_index_nth; auto.
Qed.

Corollary decompose_union_members : NoDup tbl -> forall ws, incl ws tbl ->
  (forall w, In w (decompose (union_of ws)) <-> In w ws) /\ NoDup (decompose (union_of ws)).
Proof.
  intros Hnd ws Hincl. rewrite decompose_union by auto. split.
  - intros w. rewrite filter_In, str_mem_In. split; [tauto|]. intros H; split; auto.
  - apply NoDup_filter; auto.
Qed.

(* union, intersection, symmetric difference act on membership as the set operations *)
Lemma decompose_In : NoDup tbl -> forall x w,
  In w (decompose x) <-> exists i, nth_error tbl i = Some w /\ N.testbit x (N.of_nat i) = true.
Proof.
  intros Hnd x w. unfold decompose. rewrite decompose_from_spec, in_map_iff. split.
  - intros ((i & v) & Hv & Hin). simpl in Hv; subst v. apply filter_In in Hin as [Hin Hb]. simpl in Hb.
    exists i. split; auto.
    assert (Hc : forall (l : list string) s k v, In (k, v) (combine (seq s (List.length l)) l) -> nth_error l (k - s) = Some v /\ (s <= k)%nat).
    { induction l as [|y l IHl]; intros s k v Hkv; simpl in Hkv; [tauto|].
      destruct Hkv as [Hkv|Hkv].
      - inversion Hkv; subst. rewrite Nat.sub_diag. split; auto.
      - apply IHl in Hkv as [Hkv Hle]. split; [|lia].
        replace (k - s)%nat with (S (k - S s)) by lia. exact Hkv. }
    apply Hc in Hin as [Hin _]. rewrite Nat.sub_0_r in Hin. exact Hin.
  - intros (i & Hn & Hb). exists (i, w). split; auto. apply filter_In. split; auto.
    assert (Hc : forall (l : list string) s k v, nth_error l k = Some v -> In ((s + k)%nat, v) (combine (seq s (List.length l)) l)).
    { induction l as [|y l IHl]; intros s [|k] v Hk; simpl in *; try discriminate.
      - inversion Hk; subst. left. f_equal. lia.
      - right. replace (s + S k)%nat with (S s + k)%nat by lia. apply IHl; auto. }
    apply (Hc tbl 0%nat i w Hn).
Qed.

Theorem ops_are_set_ops : NoDup tbl -> forall a b w,
  (In w (decompose (N.lor a b)) <-> In w (decompose a) \/ In w (decompose b)) /\
  (In w (decompose (N.land a b)) <-> In w (decompose a) /\ In w (decompose b)) /\
  (In w (decompose (N.lxor a b)) <-> (In w (decompose a) /\ ~ In w (decompose b)) \/
                                      (~ In w (decompose a) /\ In w (decompose b))).
Proof.
  intros Hnd a b w. rewrite !decompose_In by auto.
  assert (Huniq : forall i j, nth_error tbl i = Some w -> nth_error tbl j = Some w -> i = j).
  { intros i j Hi Hj. pose proof (str_index_nth _ _ _ Hnd Hi). pose proof (str_index_nth _ _ _ Hnd Hj). congruence. }
  split; [|split].
  - split.
    + intros (i & Hn & Hb). rewrite N.lor_spec in Hb. apply orb_true_iff in Hb as [Hb|Hb]; [left|right]; eauto.
    + intros [(i & Hn & Hb)|(i & Hn & Hb)]; exists i; rewrite N.lor_spec, Hb; auto using orb_true_r.
  - split.
    + intros (i & Hn & Hb). rewrite N.land_spec in Hb. apply andb_true_iff in Hb as [H1 H2]. split; eauto.
    + intros [(i & Hn & Hb) (j & Hn' & Hb')]. assert (i = j) by eauto. subst j.
      exists i. rewrite N.land_spec, Hb, Hb'. auto.
  - split.
    + intros (i & Hn & Hb). rewrite N.lxor_spec in Hb.
      destruct (N.testbit a (N.of_nat i)) eqn:Ha, (N.testbit b (N.of_nat i)) eqn:Hbb; try discriminate.
      * left. split; eauto. intros (j & Hj & Hjb). assert (i = j) by eauto. subst. congruence.
      * right. split; eauto. intros (j & Hj & Hjb). assert (i = j) by eauto. subst. congruence.
    + intros [[(i & Hn & Hb) Hnb]|[Hna (i & Hn & Hb)]]; exists i; split; auto; rewrite N.lxor_spec, Hb.
      * destruct (N.testbit b (N.of_nat i)) eqn:E; auto. exfalso; apply Hnb; eauto.
      * destruct (N.testbit a (N.of_nat i)) eqn:E; auto. exfalso; apply Hna; eauto.
Qed.

(* implies is set inclusion (of the second operand in the first) *)
Theorem implies_is_subset : NoDup tbl -> forall a b,
  implies a b = true -> incl (decompose b) (decompose a).
Proof.
  intros Hnd a b H w. rewrite !decompose_In by auto.
  intros (i & Hn & Hb). exists i. split; auto. eapply implies_spec; eauto.
Qed.

Theorem subset_implies : NoDup tbl -> forall a b,
  (forall j, N.testbit b j = true -> exists i, j = N.of_nat i /\ (i < List.length tbl)%nat) ->
  incl (decompose b) (decompose a) -> implies a b = true.
Proof.
  intros Hnd a b Hbound Hincl. apply implies_spec. intros j Hj.
  destruct (Hbound j Hj) as (i & -> & Hlt).
  destruct (nth_error tbl i) as [w|] eqn:Hn; [|apply nth_error_None in Hn; lia].
  assert (Hin : In w (decompose b)) by (apply decompose_In; eauto).
  apply Hincl in Hin. apply decompose_In in Hin as (k & Hk & Hb); auto.
  assert (i = k).
  { pose proof (str_index_nth _ _ _ Hnd Hn). pose proof (str_index_nth _ _ _ Hnd Hk). congruence. }
  subst; auto.
Qed.

(* the 32-bit `1u << pos` of the C++ agrees with the unbounded model *)
Theorem project_fits_32 : (List.length tbl <= 32)%nat -> forall w x, project w = Some x -> x < 2 ^ 32.
Proof.
  intros Hlen w x H. unfold project in H.
  destruct (str_index w tbl) as [i|] eqn:Hi; [|discriminate]. inversion H; subst.
  assert (i < List.length tbl)%nat.
  { clear H. revert i Hi. induction tbl as [|y l IH]; simpl; [discriminate|]. intros i Hi.
    destruct (streq w y); [inversion Hi; lia|].
    destruct (str_index w l) eqn:E; [|discriminate]. inversion Hi; subst.
    specialize (IH ltac:(simpl in Hlen; lia) n eq_refl). lia. }
  unfold bit. rewrite N.shiftl_1_l. apply N.pow_lt_mono_r; lia.
Qed.
End Basis.
