(* Properties_C12.v — C12: regions form a tree rooted at the global region;
   owners and positions are right.  Model and proofs: Region.v (regions,
   owners, handler shape), Scope.v (positions of parameters, enumerators, bases). *)
From Coq Require Import List PeanoNat Bool.
From IprV Require Import Region Scope.
From IprV Require StateSpace.
Import ListNotations.

(* for every construction history (any nesting, any depth, any order): *)
Theorem c12_parent_created_earlier : forall h r x p,
  nth_error (regions (Region.run h)) r = Some x -> r_parent x = Some p -> p < r.
Proof. exact parent_created_earlier. Qed.

(* walking outward from any region reaches a global region in at most r+1 steps *)
Theorem c12_reaches_global : forall h r, r < length (regions (Region.run h)) ->
  exists g, outward (Region.run h) (S r) r = Some g /\ is_global (Region.run h) g = true /\ g <= r.
Proof. exact reaches_global. Qed.

(* only the root region of a unit reports itself global *)
Theorem c12_only_root_is_global : forall h r, is_global (Region.run h) r = true <->
  exists i, nth_error (ops (Region.run h)) i = Some (OUnit, [r]).
Proof. exact only_root_is_global. Qed.

(* every constructor encloses the new region in the region it was given and
   names the right owner; a handler's body is enclosed by a region binding
   exactly its exception parameter, itself enclosed by the region that
   encloses the guarded block; a handler body, being a block, owns its region *)
Theorem c12_constructors : forall s o, WF s ->
  let s' := Region.step s o in
  let me := length (ops s) in
  let n := length (regions s) in
  match o with
  | OUnit => exists x, nth_error (regions s') n = Some x /\ r_parent x = None /\ r_owner x = Some (me, role_self)
  | OSub r | ORequires r | OMorphism r | OWhere r =>
      valid_region s r = true -> exists x, nth_error (regions s') n = Some x /\ r_parent x = Some r /\ r_owner x = None
  | OClass r =>
      valid_region s r = true ->
      exists x y, nth_error (regions s') n = Some x /\ nth_error (regions s') (S n) = Some y /\
                  r_parent x = Some r /\ r_parent y = Some r /\
                  r_owner x = Some (me, role_self) /\ r_owner y = Some (me, role_self)
  | OUnion r | ONamespace r | OClosure r | OEnum r | OBlock r | OMapping r | OLambda r =>
      valid_region s r = true -> exists x, nth_error (regions s') n = Some x /\ r_parent x = Some r /\ r_owner x = Some (me, role_self)
  | OHandler b =>
      forall br outer, block_region s b = Some br -> parent_of s br = Some outer ->
      exists eh body, nth_error (regions s') n = Some eh /\ nth_error (regions s') (S n) = Some body /\
        r_parent body = Some n /\ r_bind eh = Some (me, role_eh_param) /\
        r_parent eh = Some outer /\ r_owner body = Some (me, role_body_block)
  end.
Proof. exact step_creates. Qed.

Theorem c12_every_reachable_state_is_well_formed : forall h, WF (Region.run h).
Proof. exact run_WF. Qed.

(* parameters, enumerators and bases report zero-based positions equal to their index *)
Theorem c12_member_positions : forall l i d, nth_error (h_run l) i = Some d ->
  h_pos d = i /\ nth_error l i = Some (h_name d, h_type d).
Proof. exact homogeneous_positions. Qed.

Example c12_nonvacuous :
  let s := Region.run [OUnit; OSub 0; OClass 1; OBlock 2; OHandler 3; OMapping 5] in
  map r_parent (regions s) = [None; Some 0; Some 1; Some 1; Some 2; Some 2; Some 5; Some 5] /\
  outward s 8 6 = Some 0 /\ map r_owner (regions s) =
    [Some (0, 0); None; Some (2, 0); Some (2, 0); Some (3, 0); None; Some (4, 1); Some (5, 0)].
Proof. vm_compute. auto. Qed.

(* regions, parameter lists and positioned members have the data members (and widths) the Region model abstracts (StateSpace.v against the regenerated GenState) *)
Theorem c12_state_is_what_the_model_abstracts :
  StateSpace.state_as_modelled (StateSpace.region_state) = true.
Proof. vm_compute. reflexivity. Qed.

Print Assumptions c12_state_is_what_the_model_abstracts.
Print Assumptions c12_parent_created_earlier.
Print Assumptions c12_reaches_global.
Print Assumptions c12_only_root_is_global.
Print Assumptions c12_constructors.
Print Assumptions c12_every_reachable_state_is_well_formed.
Print Assumptions c12_member_positions.
Print Assumptions c12_nonvacuous.
