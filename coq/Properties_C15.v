(* Properties_C15.v — C15: derived interface operations agree with the
   primitives they are defined from.  The bodies are regenerated from the
   public headers on every run (GenDerived); each theorem is about the
   denotation of the CURRENT body under an arbitrary interpretation [I] of the
   primitive accessors, hence about every node in every state. *)
From Coq Require Import List ZArith String Bool Lia.
From IprV Require Import GenTypes Derived.
From IprV.gen Require Import GenDerived.
Import ListNotations.
Local Open Scope string_scope.

Definition run (I : interp) (k : string) (this : value) (params : list value) : value :=
  match lookup_row gen_derived k with
  | Some (_, body) => eval gen_derived I 12 this params body
  | None => VErr "missing"
  end.

Section AnyInterpretation.
(* an arbitrary interpretation: any functions for the primitives and the data members *)
Variable P : string -> value -> list value -> value.
Variable F : string -> value -> value.
Definition I : interp := {| prim := P; fld := F |}.

(* ---- sequences ---- *)
Theorem c15_sequence_empty : forall s n, P "Sequence::size" (VObj s) [] = VZ n -> (0 <= n)%Z ->
  run I "Sequence::empty" (VObj s) [] = VB (Z.eqb n 0).
Proof.
  intros s n H Hn. unfold run. vm_compute. rewrite H.
  destruct n; try reflexivity; try lia.
Qed.

Theorem c15_sequence_begin_end_position : forall s i,
  run I "Sequence::begin" (VObj s) [] = VTup [VObj s; VZ 0] /\
  run I "Sequence::end" (VObj s) [] = VTup [VObj s; P "Sequence::size" (VObj s) []] /\
  run I "Sequence::position" (VObj s) [VZ i] = VTup [VObj s; VZ i].
Proof. intros. repeat split; vm_compute; reflexivity. Qed.

Theorem c15_iterator : forall s i j t,
  run I "Sequence::Iterator::operator*" (VTup [VObj s; VZ i]) [] = P "Sequence::get" (VObj s) [VZ i] /\
  run I "Sequence::Iterator::operator++" (VTup [VObj s; VZ i]) [] = VTup [VObj s; VZ (i + 1)] /\
  run I "Sequence::Iterator::operator--" (VTup [VObj s; VZ i]) [] = VTup [VObj s; VZ (i - 1)] /\
  run I "Sequence::Iterator::operator==" (VTup [VObj s; VZ i]) [VTup [VObj t; VZ j]] = VB (Nat.eqb s t && Z.eqb i j) /\
  run I "Sequence::Iterator::operator!=" (VTup [VObj s; VZ i]) [VTup [VObj t; VZ j]] = VB (negb (Nat.eqb s t && Z.eqb i j)).
Proof. intros. repeat split; vm_compute; reflexivity. Qed.

(* iteration from begin() to end() visits exactly size() elements and agrees with positional access *)
Fixpoint iterate (fuel : nat) (it stop : value) : list value :=
  match fuel with
  | O => []
  | S f => match run I "Sequence::Iterator::operator==" it [stop] with
           | VB true => []
           | _ => run I "Sequence::Iterator::operator*" it [] :: iterate f (run I "Sequence::Iterator::operator++" it []) stop
           end
  end.
Lemma iterate_from : forall k s i, iterate k (VTup [VObj s; VZ i]) (VTup [VObj s; VZ (i + Z.of_nat k)])
  = map (fun j => P "Sequence::get" (VObj s) [VZ (i + Z.of_nat j)]) (seq 0 k).
Proof.
  induction k as [|k IH]; intros s i; [reflexivity|].
  cbn [iterate]. destruct (c15_iterator s i (i + Z.of_nat (S k)) s) as (Hd & Hi & _ & He & _).
  rewrite He, Hd, Hi. rewrite Nat.eqb_refl. destruct (Z.eqb_spec i (i + Z.of_nat (S k))) as [E|E]; [lia|].
  cbn [andb seq map]. f_equal; [f_equal; f_equal; f_equal; lia|].
  replace (i + Z.of_nat (S k))%Z with ((i + 1) + Z.of_nat k)%Z by lia. rewrite IH.
  rewrite <- seq_shift, map_map. apply map_ext. intros j. f_equal. f_equal. f_equal. lia.
Qed.
Theorem c15_iteration_agrees_with_positions : forall s n,
  iterate n (VTup [VObj s; VZ 0]) (VTup [VObj s; VZ (Z.of_nat n)])
  = map (fun j => P "Sequence::get" (VObj s) [VZ (Z.of_nat j)]) (seq 0 n).
Proof. intros. apply (iterate_from n s 0%Z). Qed.

(* ---- products, sums, expression lists, scopes, parameter lists ---- *)
Theorem c15_product_sum : forall o i,
  run I "Product::size" (VObj o) [] = P "Sequence::size" (P "Basic_unary::operand" (VObj o) []) [] /\
  run I "Sum::size" (VObj o) [] = P "Sequence::size" (P "Basic_unary::operand" (VObj o) []) [] /\
  run I "Expr_list::size" (VObj o) [] = P "Sequence::size" (P "Basic_unary::operand" (VObj o) []) [] /\
  (forall s, P "Basic_unary::operand" (VObj o) [] = VObj s ->
     run I "Product::operator[]" (VObj o) [VZ i] = P "Sequence::get" (VObj s) [VZ i] /\
     run I "Sum::operator[]" (VObj o) [VZ i] = P "Sequence::get" (VObj s) [VZ i]).
Proof.
  intros. repeat split; try (vm_compute; reflexivity); unfold run; vm_compute; rewrite H; reflexivity.
Qed.

Theorem c15_scope_and_parameter_list : forall o s,
  P "Scope::elements" (VObj o) [] = VObj s -> P "Parameter_list::elements" (VObj o) [] = VObj s ->
  run I "Scope::size" (VObj o) [] = P "Sequence::size" (VObj s) [] /\
  run I "Scope::begin" (VObj o) [] = VTup [VObj s; VZ 0] /\
  run I "Scope::end" (VObj o) [] = VTup [VObj s; P "Sequence::size" (VObj s) []] /\
  run I "Parameter_list::size" (VObj o) [] = P "Sequence::size" (VObj s) [] /\
  run I "Parameter_list::begin" (VObj o) [] = VTup [VObj s; VZ 0] /\
  run I "Parameter_list::end" (VObj o) [] = VTup [VObj s; P "Sequence::size" (VObj s) []].
Proof. intros o s H1 H2. repeat split; unfold run; vm_compute; rewrite ?H1, ?H2; reflexivity. Qed.

(* ---- user-defined types, blocks, templates, parameters, types ---- *)
Theorem c15_udt : forall o,
  run I "Udt::scope" (VObj o) [] = P "Region::bindings" (P "Udt::region" (VObj o) []) [] /\
  run I "Namespace::members" (VObj o) [] = P "Scope::elements" (P "Region::bindings" (P "Udt::region" (VObj o) []) []) [] /\
  run I "Class::members" (VObj o) [] = P "Scope::elements" (P "Region::bindings" (P "Udt::region" (VObj o) []) []) [] /\
  run I "Union::members" (VObj o) [] = P "Scope::elements" (P "Region::bindings" (P "Udt::region" (VObj o) []) []) [].
Proof. intros. repeat split; vm_compute; reflexivity. Qed.

Theorem c15_block_body : forall o,
  run I "Block::body" (VObj o) [] = P "Region::body" (P "Block::region" (VObj o) []) [].
Proof. intros. vm_compute. reflexivity. Qed.

(* a block is a try-block exactly when it has handlers *)
Theorem c15_try_block : forall o h n,
  P "Block::handlers" (VObj o) [] = VObj h -> P "Sequence::size" (VObj h) [] = VZ n -> (0 <= n)%Z ->
  run I "Block::try_block" (VObj o) [] = VB (Z.ltb 0 n).
Proof.
  intros o h n H1 H2 Hn. unfold run. vm_compute. rewrite H1. vm_compute. rewrite H2.
  vm_compute. destruct n; try reflexivity; try lia.
Qed.

Theorem c15_template_parameter_type : forall o,
  run I "Template::parameters" (VObj o) [] = P "Parameterization::parameters" (P "Template::mapping" (VObj o) []) [] /\
  run I "Template::result" (VObj o) [] = P "Parameterization::result" (P "Template::mapping" (VObj o) []) [] /\
  run I "Parameter::default_value" (VObj o) [] = P "Decl::initializer" (VObj o) [] /\
  run I "Type::linkage" (VObj o) [] = P "Basic_binary::first" (P "Type::transfer" (VObj o) []) [] /\
  run I "Transfer::linkage" (VObj o) [] = P "Basic_binary::first" (VObj o) [] /\
  run I "Transfer::convention" (VObj o) [] = P "Basic_binary::second" (VObj o) [].
Proof. intros. repeat split; vm_compute; reflexivity. Qed.

(* ---- equalities ---- *)
(* two logograms are equal iff they stand on the same String object *)
Theorem c15_logogram_eq : forall a b sa sb,
  P "Basic_unary::operand" (VObj a) [] = VObj sa -> P "Basic_unary::operand" (VObj b) [] = VObj sb ->
  run I "Logogram::operator==" (VObj a) [VObj b] = VB (Nat.eqb sa sb).
Proof. intros a b sa sb Ha Hb. unfold run. vm_compute. rewrite Ha, Hb. reflexivity. Qed.

Theorem c15_linkage_convention_eq : forall a b la lb sa sb,
  F "lang" (VObj a) = VObj la -> F "lang" (VObj b) = VObj lb ->
  F "conv" (VObj a) = VObj la -> F "conv" (VObj b) = VObj lb ->
  P "Basic_unary::operand" (VObj la) [] = VObj sa -> P "Basic_unary::operand" (VObj lb) [] = VObj sb ->
  run I "Linkage::operator==" (VObj a) [VObj b] = VB (Nat.eqb sa sb) /\
  run I "Calling_convention::operator==" (VObj a) [VObj b] = VB (Nat.eqb sa sb).
Proof.
  intros a b la lb sa sb H1 H2 H3 H4 H5 H6. split; unfold run; vm_compute; rewrite ?H1, ?H2, ?H3, ?H4; vm_compute; rewrite H5, H6; reflexivity.
Qed.

(* two transfers are equal iff their linkages are and their calling conventions are, each compared by the String it stands on *)
Theorem c15_transfer_eq : forall a b la lb ca cb gla glb gca gcb sla slb sca scb,
  P "Basic_binary::first" (VObj a) [] = VObj la -> P "Basic_binary::first" (VObj b) [] = VObj lb ->
  P "Basic_binary::second" (VObj a) [] = VObj ca -> P "Basic_binary::second" (VObj b) [] = VObj cb ->
  F "lang" (VObj la) = VObj gla -> F "lang" (VObj lb) = VObj glb ->
  F "conv" (VObj ca) = VObj gca -> F "conv" (VObj cb) = VObj gcb ->
  P "Basic_unary::operand" (VObj gla) [] = VObj sla -> P "Basic_unary::operand" (VObj glb) [] = VObj slb ->
  P "Basic_unary::operand" (VObj gca) [] = VObj sca -> P "Basic_unary::operand" (VObj gcb) [] = VObj scb ->
  run I "Transfer::operator==" (VObj a) [VObj b] = VB (Nat.eqb sla slb && Nat.eqb sca scb).
Proof.
  intros a b la lb ca cb gla glb gca gcb sla slb sca scb H1 H2 H3 H4 H5 H6 H7 H8 H9 H10 H11 H12.
  unfold run. vm_compute. rewrite ?H1, ?H2, ?H3, ?H4. vm_compute. rewrite ?H5, ?H6, ?H7, ?H8. vm_compute.
  rewrite ?H9, ?H10, ?H11, ?H12. vm_compute. fold Nat.eqb.
  (* whatever the shape of the body (a conjunction, an early `return false`): decide by cases on the two comparisons *)
  destruct (Nat.eqb sla slb); destruct (Nat.eqb sca scb); reflexivity.
Qed.

Theorem c15_basic_specifier_eq : forall a b pa pb,
  F "spec" (VObj a) = VObj pa -> F "spec" (VObj b) = VObj pb ->
  F "qual" (VObj a) = VObj pa -> F "qual" (VObj b) = VObj pb ->
  run I "Basic_specifier::operator==" (VObj a) [VObj b] = VB (Nat.eqb pa pb) /\
  run I "Basic_qualifier::operator==" (VObj a) [VObj b] = VB (Nat.eqb pa pb).
Proof.
  intros a b pa pb H1 H2 H3 H4. split; unfold run; vm_compute; rewrite ?H1, ?H2, ?H3, ?H4; vm_compute;
    match goal with
    | |- VB (if ?x then _ else _) = _ => destruct x; reflexivity
    | |- _ => reflexivity
    end.
Qed.
End AnyInterpretation.

(* value equality on objects is an equivalence, so each of the equalities above is *)
Theorem c15_equalities_are_equivalences :
  (forall a, Nat.eqb a a = true) /\ (forall a b, Nat.eqb a b = Nat.eqb b a) /\
  (forall a b c, Nat.eqb a b = true -> Nat.eqb b c = true -> Nat.eqb a c = true).
Proof.
  repeat split; intros.
  - apply Nat.eqb_refl.
  - apply Nat.eqb_sym.
  - apply Nat.eqb_eq in H, H0. subst. apply Nat.eqb_refl.
Qed.

(* ---- named accessors are the documented primitive ---- *)
Definition documented_aliases : list (string * string) :=
  [("Function::source", "Ternary::first"); ("Function::target", "Ternary::second"); ("Function::throws", "Ternary::third");
   ("Pointer::points_to", "Basic_unary::operand"); ("Reference::refers_to", "Basic_unary::operand");
   ("Rvalue_reference::refers_to", "Basic_unary::operand"); ("Array::element_type", "Basic_binary::first");
   ("Array::bound", "Basic_binary::second"); ("Qualified::qualifiers", "Basic_binary::first");
   ("Qualified::main_variant", "Basic_binary::second"); ("Forall::source", "Basic_binary::first");
   ("Forall::target", "Basic_binary::second"); ("Tor::source", "Basic_binary::first"); ("Tor::throws", "Basic_binary::second");
   ("Ptr_to_member::containing_type", "Basic_binary::first"); ("Ptr_to_member::member_type", "Basic_binary::second");
   ("Decltype::expr", "Basic_unary::operand"); ("As_type::expr", "Basic_unary::operand");
   ("Product::elements", "Basic_unary::operand"); ("Sum::elements", "Basic_unary::operand");
   ("Expr_list::elements", "Basic_unary::operand"); ("Identifier::string", "Basic_unary::operand");
   ("Operator::opname", "Basic_unary::operand"); ("Suffix::name", "Basic_unary::operand");
   ("Conversion::target", "Basic_unary::operand"); ("Ctor_name::object_type", "Basic_unary::operand");
   ("Dtor_name::object_type", "Basic_unary::operand"); ("Guide_name::mapping_decl", "Basic_unary::operand");
   ("Type_id::type_expr", "Basic_unary::operand"); ("Template_id::template_name", "Basic_binary::first");
   ("Template_id::args", "Basic_binary::second"); ("Comment::text", "Basic_unary::operand");
   ("Annotation::name", "Basic_binary::first"); ("Annotation::value", "Basic_binary::second");
   ("Logogram::what", "Basic_unary::operand"); ("Symbol::name", "Basic_unary::operand");
   ("Literal::string", "Basic_binary::second"); ("Call::function", "Basic_binary::first"); ("Call::args", "Basic_binary::second");
   ("Conditional::condition", "Ternary::first"); ("Conditional::then_expr", "Ternary::second");
   ("Conditional::else_expr", "Ternary::third"); ("If::condition", "Ternary::first"); ("If::consequence", "Ternary::second");
   ("If::alternative", "Ternary::third"); ("While::condition", "Basic_binary::first"); ("While::body", "Basic_binary::second");
   ("Do::condition", "Basic_binary::first"); ("Do::body", "Basic_binary::second"); ("Switch::condition", "Basic_binary::first");
   ("Switch::body", "Basic_binary::second"); ("Labeled_stmt::label", "Basic_binary::first"); ("Labeled_stmt::stmt", "Basic_binary::second");
   ("Return::value", "Basic_unary::operand"); ("Goto::target", "Basic_unary::operand"); ("Expr_stmt::expr", "Basic_unary::operand");
   ("Ctor_body::inits", "Basic_binary::first"); ("Ctor_body::block", "Basic_binary::second");
   ("Coercion::expr", "Basic_binary::first"); ("Coercion::target", "Basic_binary::second");
   ("Narrow::expr", "Basic_binary::first"); ("Pretend::expr", "Basic_binary::first"); ("Widen::expr", "Basic_binary::first");
   ("Qualification::expr", "Basic_binary::first"); ("Qualification::qualifiers", "Basic_binary::second");
   ("Scope_ref::scope", "Basic_binary::first"); ("Scope_ref::member", "Basic_binary::second");
   ("Member_init::member", "Basic_binary::first"); ("Member_init::initializer", "Basic_binary::second");
   ("New::placement", "Basic_binary::first"); ("New::initializer", "Basic_binary::second");
   ("Rewrite::source", "Basic_binary::first"); ("Rewrite::target", "Basic_binary::second");
   ("Where::main", "Basic_binary::first"); ("Where::attendant", "Basic_binary::second");
   ("Static_assert::condition", "Basic_binary::first"); ("Static_assert::message", "Basic_binary::second");
   ("Enclosure::expr", "Basic_unary::operand"); ("Construction::arguments", "Basic_unary::operand");
   ("Id_expr::name", "Basic_unary::operand"); ("Label::name", "Basic_unary::operand"); ("Throw::exception", "Basic_unary::operand");
   ("Asm::text", "Basic_unary::operand"); ("Transfer::linkage", "Basic_binary::first"); ("Transfer::convention", "Basic_binary::second")].

Definition is_alias_of (k p : string) : bool :=
  match lookup_row gen_derived k with
  | Some (0%nat, CCall q CThis []) => streq q p
  | _ => false
  end.

Theorem c15_named_accessors_are_primitives :
  forallb (fun a => is_alias_of (fst a) (snd a)) documented_aliases = true.
Proof. vm_compute. reflexivity. Qed.

Theorem c15_alias_denotation : forall I k p o, is_alias_of k p = true -> lookup_row gen_derived p = None ->
  run I k (VObj o) [] = prim I p (VObj o) [].
Proof.
  intros I k p o H Hp. unfold is_alias_of in H. unfold run.
  destruct (lookup_row gen_derived k) as [[n body]|]; [|discriminate].
  destruct n; [|discriminate]. destruct body; try discriminate.
  destruct body; try discriminate. destruct args; [|discriminate].
  apply streq_eq in H. subst callee. apply eval_alias. exact Hp.
Qed.

Print Assumptions c15_sequence_empty.
Print Assumptions c15_sequence_begin_end_position.
Print Assumptions c15_iterator.
Print Assumptions c15_iteration_agrees_with_positions.
Print Assumptions c15_product_sum.
Print Assumptions c15_scope_and_parameter_list.
Print Assumptions c15_udt.
Print Assumptions c15_block_body.
Print Assumptions c15_try_block.
Print Assumptions c15_template_parameter_type.
Print Assumptions c15_logogram_eq.
Print Assumptions c15_linkage_convention_eq.
Print Assumptions c15_transfer_eq.
Print Assumptions c15_basic_specifier_eq.
Print Assumptions c15_equalities_are_equivalences.
Print Assumptions c15_named_accessors_are_primitives.
Print Assumptions c15_alias_denotation.
