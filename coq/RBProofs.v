(* RBProofs.v — invariants of the red-black model (property C08).

   For every insertion history and every comparator that is a total
   preorder: red-black colouring and black-height are preserved (so the
   null-grandparent branch of fixup is unreachable), the in-order listing
   stays strictly sorted, find is correct, an equal key adds nothing, and the
   height is at most 2*log2(n+1). *)

From Coq Require Import List ZArith Lia Bool Sorted PeanoNat.
From IprV Require Import RBModel.
Import ListNotations.

Section RBProofs.
Variable key : Type.
Variable cmp : key -> key -> Z.

Notation tree := (tree key).
Notation frame := (frame key).
Notation fixup := (@fixup key).
Notation zip := (@zip key).
Notation plug := (@plug key).
Notation paint := (@paint key).
Notation is_red := (@is_red key).
Notation elements := (@elements key).
Notation descend := (descend key cmp).
Notation find := (find key cmp).
Notation insert_tree := (insert_tree key cmp).
Notation inserts := (inserts key cmp).

(* ------------------------------------------------------------------ *)
(* 1. Colour and black-height                                          *)
(* ------------------------------------------------------------------ *)

Inductive rbt : color -> tree -> nat -> Prop :=
| rbt_E : rbt Black E 0
| rbt_R l k r n : rbt Black l n -> rbt Black r n -> rbt Red (T Red l k r) n
| rbt_B l k r cl cr n : rbt cl l n -> rbt cr r n -> rbt Black (T Black l k r) (S n).

(* [ctxt p c n]: p is a legal ancestor path; c is the colour of the node
   immediately above the hole ([Black] for an empty path: the hole is the
   root), n the black height expected of the subtree in the hole. *)
Inductive ctxt : list frame -> color -> nat -> Prop :=
| ctxt_nil n : ctxt [] Black n
| ctxt_B d k s cs p c' n :
    rbt cs s n -> ctxt p c' (S n) -> ctxt (F d Black k s :: p) Black n
| ctxt_R d k s d' k' s' p n :
    rbt Black s n -> ctxt (F d' Black k' s' :: p) Black n ->
    ctxt (F d Red k s :: F d' Black k' s' :: p) Red n.

Lemma zip_ok : forall p c n h ch,
  ctxt p c n -> rbt ch h n -> (c = Red -> ch = Black) ->
  exists c' m, rbt c' (zip h p) m.
Proof.
  induction p as [|f p IH]; intros c n h ch Hc Hh Hcol; simpl.
  - eauto.
  - inversion Hc; subst; unfold RBModel.plug; simpl.
    + destruct d; (eapply IH; [eassumption | econstructor; eassumption | intros; reflexivity]).
    + rewrite (Hcol eq_refl) in Hh.
      destruct d; (eapply IH; [eassumption | econstructor; eassumption | intros; discriminate]).
Qed.

Lemma rbt_not_red_black : forall c t n, rbt c t n -> is_red t = false -> rbt Black t n.
Proof. intros c t n H; inversion H; subst; simpl; intros; try discriminate; eauto using rbt. Qed.

Lemma rbt_red_inv : forall c t n,
  rbt c t n -> is_red t = true -> c = Red /\ rbt Black (paint Black t) (S n).
Proof.
  intros c t n H; inversion H; subst; simpl; intros; try discriminate.
  split; auto. econstructor; eauto.
Qed.

Lemma fixup_ok_len : forall len p, length p <= len -> forall c n z,
  ctxt p c n -> rbt Red z n ->
  exists t' c' m, fixup z p = Some t' /\ rbt c' t' m.
Proof.
  induction len as [|len IH]; intros p Hlen c n z Hc Hz.
  - destruct p; simpl in Hlen; [|lia]. simpl. eauto.
  - destruct p as [|f1 p1]; simpl; [eauto|].
    inversion Hc; subst; simpl.
    + destruct (zip_ok _ _ _ z Red Hc Hz) as (c2 & m & H); [intros; discriminate|].
      simpl in H. eauto.
    + match goal with H : ctxt (F _ Black _ ?u :: ?p2) Black _ |- _ =>
        inversion H; subst; rename u into uncle end.
      simpl.
      destruct (is_red uncle) eqn:Hu.
      * match goal with H : rbt _ uncle _ |- _ =>
          destruct (rbt_red_inv _ _ _ H Hu) as [-> Hup] end.
        match goal with Hp : ctxt ?p2 _ (S _) |- exists _ _ _, fixup _ ?p2 = _ /\ _ =>
          eapply (IH p2); [simpl in Hlen; lia | exact Hp |] end.
        unfold RBModel.plug; simpl.
        match goal with |- rbt Red (match ?d' with _ => _ end) _ => destruct d' end;
        match goal with |- context [match ?d with GoL => _ | GoR => _ end] => destruct d end;
        simpl; econstructor; try eassumption; econstructor; eauto.
      * match goal with H : rbt _ uncle _ |- _ =>
          pose proof (rbt_not_red_black _ _ _ H Hu) as Hub end.
        inversion Hz; subst.
        match goal with
          |- context [match ?d' with GoL => match ?d with _ => _ end | GoR => _ end] =>
          destruct d', d end; simpl.
        all: match goal with
             Hp : ctxt ?p _ (S ?n') |- exists t' c' m, Some (zip ?h ?p) = Some t' /\ _ =>
               assert (Hh : rbt Black h (S n')) by (repeat econstructor; eassumption);
               destruct (zip_ok _ _ _ _ _ Hp Hh ltac:(intros; reflexivity)) as (c2 & m2 & Hzip);
               eauto end.
Qed.

Theorem fixup_ok : forall p c n z, ctxt p c n -> rbt Red z n ->
  exists t' c' m, fixup z p = Some t' /\ rbt c' t' m.
Proof. intros; eapply fixup_ok_len; eauto. Qed.

Lemma paint_black_ok : forall c t n, rbt c t n -> exists m, rbt Black (paint Black t) m.
Proof. intros c t n H; inversion H; subst; simpl; eauto using rbt. Qed.

Lemma descend_ctxt : forall t k p c n cp p',
  rbt c t n -> ctxt p cp n -> (cp = Red -> c = Black) ->
  (c = Red -> exists d k0 s p0, p = F d Black k0 s :: p0) ->
  descend t k p = Some p' -> exists cp', ctxt p' cp' 0.
Proof.
  induction t as [|c0 l IHl x r IHr]; intros k p c n cp p' Ht Hp Hcol Hred Hd; simpl in Hd.
  - inversion Ht; subst. inversion Hd; subst. eauto.
  - inversion Ht; subst.
    + destruct (Hred eq_refl) as (d & k0 & s & p0 & ->).
      assert (cp = Black) by (destruct cp; auto; specialize (Hcol eq_refl); discriminate). subst cp.
      destruct (cmp x k <? 0)%Z.
      * eapply IHl; only 5: exact Hd;
          [eassumption | eapply ctxt_R; eassumption | intros; reflexivity | intros; discriminate].
      * destruct (0 <? cmp x k)%Z; [|discriminate].
        eapply IHr; only 5: exact Hd;
          [eassumption | eapply ctxt_R; eassumption | intros; reflexivity | intros; discriminate].
    + destruct (cmp x k <? 0)%Z.
      * eapply IHl; only 5: exact Hd;
          [eassumption | eapply ctxt_B; eassumption | intros; discriminate | intros; eauto].
      * destruct (0 <? cmp x k)%Z; [|discriminate].
        eapply IHr; only 5: exact Hd;
          [eassumption | eapply ctxt_B; eassumption | intros; discriminate | intros; eauto].
Qed.

(* The red-black colour rules for a whole tree: black root (or empty), no red
   node with a red child, equal black count on every path. *)
Definition RBcol (t : tree) : Prop := exists n, rbt Black t n.

Theorem insert_tree_col : forall t k, RBcol t ->
  exists t', insert_tree t k = Some t' /\ RBcol t'.
Proof.
  intros t k [n Ht]. unfold RBModel.insert_tree.
  destruct (descend t k []) as [p|] eqn:Hd.
  - destruct (descend_ctxt t k [] Black n Black p Ht (ctxt_nil n)) as [cp Hp];
      [intros; reflexivity | intros; discriminate | exact Hd |].
    destruct (fixup_ok p cp 0 (T Red E k E) Hp) as (t' & c' & m & Hf & Ht').
    { constructor; constructor. }
    rewrite Hf. simpl. eexists; split; [reflexivity|].
    destruct (paint_black_ok _ _ _ Ht') as [m' Hm]. exists m'. exact Hm.
  - eexists; split; [reflexivity|]. exists n; exact Ht.
Qed.

(* ------------------------------------------------------------------ *)
(* 2. Ordering                                                          *)
(* ------------------------------------------------------------------ *)

Fixpoint lctx (p : list frame) : list key :=
  match p with
  | [] => []
  | f :: p' => lctx p' ++ (match fd f with GoL => [] | GoR => elements (fsib f) ++ [fk f] end)
  end.

Fixpoint rctx (p : list frame) : list key :=
  match p with
  | [] => []
  | f :: p' => (match fd f with GoL => fk f :: elements (fsib f) | GoR => [] end) ++ rctx p'
  end.

Lemma elements_paint c t : elements (paint c t) = elements t.
Proof. destruct t; reflexivity. Qed.

Lemma elements_zip : forall p h, elements (zip h p) = lctx p ++ elements h ++ rctx p.
Proof.
  induction p as [|f p IH]; intros h; cbn [RBModel.zip lctx rctx].
  - rewrite app_nil_r. reflexivity.
  - rewrite IH. unfold RBModel.plug.
    destruct (fd f); cbn [RBModel.elements]; repeat rewrite <- app_assoc; cbn [app]; reflexivity.
Qed.

Lemma elements_zip_congr : forall p h h',
  elements h = elements h' -> elements (zip h p) = elements (zip h' p).
Proof. intros. rewrite !elements_zip. congruence. Qed.

Lemma elements_fixup_len : forall len p, length p <= len -> forall z t,
  fixup z p = Some t -> elements t = elements (zip z p).
Proof.
  induction len as [|len IH]; intros p Hlen z t Hf.
  - destruct p; simpl in Hlen; [|lia]. simpl in *. congruence.
  - destruct p as [|f1 p1]; cbn [RBModel.fixup] in Hf; [simpl; congruence|].
    destruct (fc f1) eqn:Hc1; [|congruence].
    destruct p1 as [|f2 p2]; [discriminate|].
    destruct (is_red (fsib f2)) eqn:Hu.
    + apply IH in Hf; [|simpl in Hlen; lia]. rewrite Hf. cbn [RBModel.zip].
      apply elements_zip_congr.
      destruct f1 as [d1 c1 k1 s1], f2 as [d2 c2 k2 s2]; unfold RBModel.plug; simpl in *.
      destruct d1, d2; simpl; rewrite ?elements_paint; reflexivity.
    + destruct f1 as [d1 c1 k1 s1], f2 as [d2 c2 k2 s2]; simpl in *.
      destruct d2, d1; try (destruct z as [|cz zl zk zr]; [discriminate|]);
        inversion Hf; subst; clear Hf; apply elements_zip_congr; unfold RBModel.plug; simpl;
        repeat (rewrite <- app_assoc; simpl); reflexivity.
Qed.

Lemma elements_fixup : forall p z t, fixup z p = Some t -> elements t = elements (zip z p).
Proof. intros; eapply elements_fixup_len; eauto. Qed.

Lemma descend_zip : forall t k p p', descend t k p = Some p' -> zip E p' = zip t p.
Proof.
  induction t as [|c l IHl x r IHr]; intros k p p' Hd; simpl in Hd.
  - inversion Hd; reflexivity.
  - destruct (cmp x k <? 0)%Z.
    + apply IHl in Hd. rewrite Hd. reflexivity.
    + destruct (0 <? cmp x k)%Z; [|discriminate].
      apply IHr in Hd. rewrite Hd. reflexivity.
Qed.

(* A comparator that is a total preorder, as the property assumes. *)
Record TotalOrder : Prop := {
  sgn_antisym : forall a b, Z.sgn (cmp a b) = (- Z.sgn (cmp b a))%Z;
  le_trans : forall a b c, (cmp a b <= 0)%Z -> (cmp b c <= 0)%Z -> (cmp a c <= 0)%Z
}.
Hypothesis cmp_total : TotalOrder.

Lemma cmp_lt_gt a b : (cmp a b < 0)%Z <-> (0 < cmp b a)%Z.
Proof. pose proof (sgn_antisym cmp_total a b). lia. Qed.
Lemma cmp_eq_sym a b : cmp a b = 0%Z <-> cmp b a = 0%Z.
Proof. pose proof (sgn_antisym cmp_total a b). lia. Qed.
Lemma cmp_refl a : cmp a a = 0%Z.
Proof. pose proof (sgn_antisym cmp_total a a). lia. Qed.

Lemma lt_le_trans a b c : (cmp a b < 0)%Z -> (cmp b c <= 0)%Z -> (cmp a c < 0)%Z.
Proof.
  intros Hab Hbc.
  assert (Hac : (cmp a c <= 0)%Z) by (apply (le_trans cmp_total a b c); lia).
  destruct (Z.eq_dec (cmp a c) 0) as [Hz|]; [|lia].
  exfalso.
  assert (Hca : (cmp c a <= 0)%Z) by (apply cmp_eq_sym in Hz; lia).
  assert (Hba : (cmp b a <= 0)%Z) by (apply (le_trans cmp_total b c a); lia).
  apply cmp_lt_gt in Hab. lia.
Qed.

Lemma le_lt_trans a b c : (cmp a b <= 0)%Z -> (cmp b c < 0)%Z -> (cmp a c < 0)%Z.
Proof.
  intros Hab Hbc.
  assert (Hac : (cmp a c <= 0)%Z) by (apply (le_trans cmp_total a b c); lia).
  destruct (Z.eq_dec (cmp a c) 0) as [Hz|]; [|lia].
  exfalso.
  assert (Hca : (cmp c a <= 0)%Z) by (apply cmp_eq_sym in Hz; lia).
  assert (Hcb : (cmp c b <= 0)%Z) by (apply (le_trans cmp_total c a b); lia).
  apply cmp_lt_gt in Hbc. lia.
Qed.

Lemma lt_trans a b c : (cmp a b < 0)%Z -> (cmp b c < 0)%Z -> (cmp a c < 0)%Z.
Proof. intros; eapply lt_le_trans; eauto; lia. Qed.

Lemma eq_trans_cmp a b c : cmp a b = 0%Z -> cmp b c = 0%Z -> cmp a c = 0%Z.
Proof.
  intros Hab Hbc.
  assert ((cmp a c <= 0)%Z) by (apply (le_trans cmp_total a b c); lia).
  assert ((cmp c a <= 0)%Z).
  { apply cmp_eq_sym in Hbc. apply cmp_eq_sym in Hab. apply (le_trans cmp_total c b a); lia. }
  pose proof (sgn_antisym cmp_total a c). lia.
Qed.

(* In-order precedence: a is listed before b.  The search goes left when
   comp(data,key) < 0, so the in-order listing is descending for cmp. *)
Definition before (a b : key) : Prop := (cmp b a < 0)%Z.

Definition ordered (t : tree) : Prop := StronglySorted before (elements t).

Lemma before_trans a b c : before a b -> before b c -> before a c.
Proof. unfold before; intros; eapply lt_trans; eauto. Qed.

Lemma ss_app_inv : forall (l1 l2 : list key),
  StronglySorted before (l1 ++ l2) ->
  StronglySorted before l1 /\ StronglySorted before l2 /\
  (forall a b, In a l1 -> In b l2 -> before a b).
Proof.
  induction l1 as [|x l1 IH]; intros l2 H; simpl in *.
  - repeat split; auto; [constructor | intros a b []].
  - inversion H as [|? ? Hs Hall]; subst.
    destruct (IH _ Hs) as (H1 & H2 & H3).
    rewrite Forall_forall in Hall.
    repeat split; auto.
    + constructor; auto. rewrite Forall_forall. intros; apply Hall, in_or_app; auto.
    + intros a b [->|Ha] Hb; [apply Hall, in_or_app; auto | auto].
Qed.

Lemma ss_app : forall (l1 l2 : list key),
  StronglySorted before l1 -> StronglySorted before l2 ->
  (forall a b, In a l1 -> In b l2 -> before a b) ->
  StronglySorted before (l1 ++ l2).
Proof.
  induction l1 as [|x l1 IH]; intros l2 H1 H2 H3; simpl; auto.
  inversion H1 as [|? ? Hs Hall]; subst.
  constructor.
  - apply IH; auto. intros; apply H3; simpl; auto.
  - rewrite Forall_forall in *. intros y Hy. apply in_app_or in Hy as [Hy|Hy]; auto.
    apply H3; simpl; auto.
Qed.

Lemma ss_insert_mid : forall (l1 l2 : list key) k,
  StronglySorted before (l1 ++ l2) ->
  (forall a, In a l1 -> before a k) -> (forall b, In b l2 -> before k b) ->
  StronglySorted before (l1 ++ k :: l2).
Proof.
  intros l1 l2 k H Hl Hr.
  destruct (ss_app_inv _ _ H) as (H1 & H2 & H3).
  apply ss_app; auto.
  - constructor; auto. rewrite Forall_forall; auto.
  - intros a b Ha [<-|Hb]; auto.
Qed.

Lemma descend_bounds : forall t k p p',
  StronglySorted before (lctx p ++ elements t ++ rctx p) ->
  (forall a, In a (lctx p) -> before a k) ->
  (forall b, In b (rctx p) -> before k b) ->
  descend t k p = Some p' ->
  (forall a, In a (lctx p') -> before a k) /\ (forall b, In b (rctx p') -> before k b).
Proof.
  induction t as [|c l IHl x r IHr]; intros k p p' Hs Hl Hr Hd; simpl in Hd.
  - inversion Hd; subst; auto.
  - simpl in Hs.
    destruct (Z.ltb_spec (cmp x k) 0) as [Hlt|Hge].
    + (* go left: x and everything in r come after k *)
      eapply IHl; only 4: exact Hd; cbn [lctx rctx fd fk fsib].
      * rewrite app_nil_r. repeat rewrite <- app_assoc in *. simpl in *. exact Hs.
      * rewrite app_nil_r. exact Hl.
      * intros b Hb. simpl in Hb. destruct Hb as [<-|Hb]; [exact Hlt|].
        apply in_app_or in Hb as [Hb|Hb]; auto.
        (* b in r: x before b, i.e. cmp b x < 0 *)
        destruct (ss_app_inv _ _ Hs) as (_ & Hs2 & _).
        rewrite <- app_assoc in Hs2. simpl in Hs2.
        destruct (ss_app_inv _ _ Hs2) as (_ & Hs3 & _).
        inversion Hs3 as [|? ? _ Hall]; subst. rewrite Forall_forall in Hall.
        assert (Hxb : before x b) by (apply Hall, in_or_app; auto).
        unfold before in *. eapply lt_trans; eauto.
    + destruct (Z.ltb_spec 0 (cmp x k)) as [Hgt|Hle]; [|discriminate].
      eapply IHr; only 4: exact Hd; cbn [lctx rctx fd fk fsib].
      * simpl. repeat rewrite <- app_assoc in *. simpl in *. exact Hs.
      * intros a Ha. apply in_app_or in Ha as [Ha|Ha]; auto.
        apply in_app_or in Ha as [Ha|Ha].
        -- (* a in l: a before x, cmp x a < 0; k < x *)
           destruct (ss_app_inv _ _ Hs) as (_ & Hs2 & _).
           rewrite <- app_assoc in Hs2.
           destruct (ss_app_inv _ _ Hs2) as (_ & _ & Hcross).
           assert (Hax : before a x) by (apply Hcross; simpl; auto).
           unfold before in *. apply cmp_lt_gt in Hgt. eapply lt_trans; eauto.
        -- simpl in Ha. destruct Ha as [<-|[]]. unfold before. apply cmp_lt_gt. exact Hgt.
      * exact Hr.
Qed.

Theorem insert_tree_ordered : forall t k t',
  ordered t -> insert_tree t k = Some t' ->
  ordered t' /\
  (forall x, In x (elements t') <-> In x (elements t) \/ (x = k /\ descend t k [] <> None)) /\
  (descend t k [] = None -> t' = t).
Proof.
  unfold ordered, RBModel.insert_tree. intros t k t' Ho Hi.
  destruct (descend t k []) as [p|] eqn:Hd.
  - destruct (fixup (T Red E k E) p) as [t1|] eqn:Hf; [|discriminate].
    simpl in Hi. inversion Hi; subst; clear Hi.
    rewrite elements_paint, (elements_fixup _ _ _ Hf), elements_zip. simpl.
    pose proof (descend_zip _ _ _ _ Hd) as Hz. simpl in Hz.
    assert (He : elements t = lctx p ++ rctx p).
    { rewrite <- Hz, elements_zip. reflexivity. }
    destruct (descend_bounds t k [] p) as [Hl Hr]; simpl; auto.
    { rewrite app_nil_r. exact Ho. }
    { intros ? []. } { intros ? []. }
    split; [|split].
    + apply ss_insert_mid; auto. rewrite <- He. exact Ho.
    + intros x. rewrite He, !in_app_iff. simpl.
      split; [intros [H|[H|H]]|intros [[H|H]|[H _]]]; subst; auto.
      right; split; auto; discriminate.
    + discriminate.
  - inversion Hi; subst. split; [exact Ho|]. split; [|reflexivity].
    intros x; split; [auto|intros [H|[_ H]]; auto; contradiction].
Qed.

(* ------------------------------------------------------------------ *)
(* 3. find                                                              *)
(* ------------------------------------------------------------------ *)

Lemma find_some : forall t k x, find t k = Some x -> In x (elements t) /\ cmp x k = 0%Z.
Proof.
  induction t as [|c l IHl y r IHr]; intros k x H; simpl in H; [discriminate|].
  destruct (Z.ltb_spec (cmp y k) 0).
  - apply IHl in H as [Ha Hb]. split; auto. simpl. apply in_or_app; auto.
  - destruct (Z.ltb_spec 0 (cmp y k)).
    + apply IHr in H as [Ha Hb]. split; auto. simpl. apply in_or_app; simpl; auto.
    + inversion H; subst. split; [simpl; apply in_or_app; simpl; auto | lia].
Qed.

Lemma find_none : forall t k, ordered t -> find t k = None ->
  forall x, In x (elements t) -> cmp x k <> 0%Z.
Proof.
  unfold ordered.
  induction t as [|c l IHl y r IHr]; intros k Ho H x Hx; simpl in *; [contradiction|].
  destruct (ss_app_inv _ _ Ho) as (Hol & Hor' & Hcross).
  inversion Hor' as [|? ? Hor Hall]; subst. rewrite Forall_forall in Hall.
  destruct (Z.ltb_spec (cmp y k) 0) as [Hlt|Hge].
  - apply in_app_or in Hx as [Hx|[<-|Hx]].
    + eapply IHl; eauto.
    + lia.
    + (* x in r: cmp x y < 0, cmp y k < 0 -> cmp x k < 0 *)
      assert (before y x) by auto. unfold before in *.
      pose proof (lt_trans _ _ _ H0 Hlt). lia.
  - destruct (Z.ltb_spec 0 (cmp y k)) as [Hgt|Hle]; [|discriminate].
    apply in_app_or in Hx as [Hx|[<-|Hx]].
    + (* x in l: cmp y x < 0; cmp k y < 0 -> cmp k x < 0 *)
      assert (Hxy : before x y) by (apply Hcross; simpl; auto). unfold before in Hxy.
      apply cmp_lt_gt in Hgt. pose proof (lt_trans _ _ _ Hgt Hxy) as Hkx.
      intros Hz. apply cmp_eq_sym in Hz. lia.
    + lia.
    + eapply IHr; eauto.
Qed.

Lemma descend_none_find : forall t k p, descend t k p = None <-> find t k <> None.
Proof.
  induction t as [|c l IHl y r IHr]; intros k p; simpl.
  - split; [discriminate|congruence].
  - destruct (cmp y k <? 0)%Z; [apply IHl|].
    destruct (0 <? cmp y k)%Z; [apply IHr|].
    split; [discriminate|reflexivity].
Qed.

(* ------------------------------------------------------------------ *)
(* 4. Whole-tree invariant and histories                               *)
(* ------------------------------------------------------------------ *)

Definition RB (t : tree) : Prop := RBcol t /\ ordered t.

Lemma RB_empty : RB E.
Proof. split; [exists 0; constructor | constructor]. Qed.

Theorem insert_preserves_rb : forall t k, RB t ->
  exists t', insert_tree t k = Some t' /\ RB t'.
Proof.
  intros t k [Hc Ho].
  destruct (insert_tree_col t k Hc) as (t' & Hi & Hc').
  exists t'. split; auto. split; auto.
  eapply insert_tree_ordered; eauto.
Qed.

Theorem inserts_rb_from : forall ks t, RB t -> exists t', inserts t ks = Some t' /\ RB t'.
Proof.
  induction ks as [|k ks IH]; intros t Ht; simpl; [eauto|].
  destruct (insert_preserves_rb t k Ht) as (t1 & -> & Ht1). apply IH; auto.
Qed.

Theorem inserts_rb : forall ks, exists t, inserts E ks = Some t /\ RB t.
Proof. intros; apply inserts_rb_from, RB_empty. Qed.

(* every element of the tree was inserted; every inserted key has an
   equivalent element in the tree *)
Lemma inserts_members : forall ks t t', RB t -> inserts t ks = Some t' ->
  (forall x, In x (elements t') -> In x (elements t) \/ In x ks) /\
  (forall k, In k (elements t) \/ In k ks -> exists x, In x (elements t') /\ cmp x k = 0%Z).
Proof.
  induction ks as [|k ks IH]; intros t t' Ht Hi; simpl in Hi.
  - inversion Hi; subst. split; [auto|].
    intros k [H|[]]. exists k; split; auto. apply cmp_refl.
  - destruct (insert_tree t k) as [t1|] eqn:H1; [|discriminate].
    destruct Ht as [Hc Ho].
    destruct (insert_tree_ordered t k t1 Ho H1) as (Ho1 & Hmem & Hsame).
    destruct (insert_tree_col t k Hc) as (t1' & H1' & Hc1). rewrite H1 in H1'; inversion H1'; subst t1'.
    destruct (IH t1 t' (conj Hc1 Ho1) Hi) as [IHa IHb].
    split.
    + intros x Hx. destruct (IHa x Hx) as [Hx1|Hx1]; [|simpl; auto].
      apply Hmem in Hx1 as [Hx1|[-> _]]; simpl; auto.
    + intros k' [Hk'|[<-|Hk']].
      * apply IHb. left. apply Hmem; auto.
      * destruct (descend t k []) as [p|] eqn:Hd.
        -- apply IHb. left. apply Hmem. right; split; auto; discriminate.
        -- (* found: an equivalent element already in t *)
           pose proof (proj1 (descend_none_find t k []) Hd) as Hf.
           destruct (find t k) as [y|] eqn:Hfy; [|congruence].
           apply find_some in Hfy as [Hy Hyk].
           destruct (IHb y) as (x & Hx & Hxy); [left; apply Hmem; auto|].
           exists x; split; auto. eapply eq_trans_cmp; eauto.
      * apply IHb; auto.
Qed.

Theorem find_after_inserts : forall ks t k, inserts E ks = Some t ->
  (find t k <> None <-> exists k', In k' ks /\ cmp k' k = 0%Z).
Proof.
  intros ks t k Hi.
  destruct (inserts_rb_from ks E RB_empty) as (t' & Hi' & [Hc Ho]).
  rewrite Hi in Hi'; inversion Hi'; subst t'.
  destruct (inserts_members ks E t RB_empty Hi) as [Ha Hb].
  split.
  - intros Hf. destruct (find t k) as [x|] eqn:Hx; [|congruence].
    apply find_some in Hx as [Hin Hz]. exists x; split; auto.
    destruct (Ha x Hin) as [[]|]; auto.
  - intros (k' & Hin & Hz) Hf.
    destruct (Hb k' (or_intror Hin)) as (x & Hx & Hxk).
    eapply find_none; eauto. eapply eq_trans_cmp; eauto.
Qed.

(* The owning flavour: an equal key returns the existing element, leaves
   tree and count alone; the call never gets stuck on a valid tree. *)
Theorem owning_insert_total : forall s k, RB (rb_tree key s) ->
  exists r, insert_owning key cmp s k = Some r /\ RB (rb_tree key (ir_state key r)).
Proof.
  intros s k HRB. unfold RBModel.insert_owning.
  destruct (insert_preserves_rb _ k HRB) as (t' & Hi & HRB').
  unfold RBModel.insert_tree in Hi.
  destruct (descend (rb_tree key s) k []) as [p|] eqn:Hd.
  - destruct (fixup (T Red E k E) p) as [t1|]; [|discriminate].
    simpl in Hi; inversion Hi; subst. eexists; split; [reflexivity|exact HRB'].
  - pose proof (proj1 (descend_none_find _ k []) Hd) as Hf.
    destruct (find (rb_tree key s) k) as [x|]; [|congruence].
    eexists; split; [reflexivity|exact HRB].
Qed.

Theorem owning_duplicate : forall s k x, RB (rb_tree key s) ->
  In x (elements (rb_tree key s)) -> cmp x k = 0%Z ->
  exists y, insert_owning key cmp s k =
              Some {| ir_state := s; ir_elem := y; ir_fresh := false |} /\
            In y (elements (rb_tree key s)) /\ cmp y k = 0%Z.
Proof.
  intros s k x [Hc Ho] Hx Hz. unfold RBModel.insert_owning.
  destruct (find (rb_tree key s) k) as [y|] eqn:Hf.
  - pose proof (proj2 (descend_none_find (rb_tree key s) k [])) as Hd.
    rewrite Hd by congruence.
    apply find_some in Hf as [Hy Hyk]. exists y; auto.
  - exfalso. eapply find_none; eauto.
Qed.

Theorem owning_fresh : forall s k r, RB (rb_tree key s) ->
  (forall x, In x (elements (rb_tree key s)) -> cmp x k <> 0%Z) ->
  insert_owning key cmp s k = Some r ->
  ir_fresh key r = true /\ ir_elem key r = k /\
  rb_count key (ir_state key r) = (rb_count key s + 1)%Z /\
  (forall x, In x (elements (rb_tree key (ir_state key r))) <->
             In x (elements (rb_tree key s)) \/ x = k).
Proof.
  intros s k r [Hc Ho] Hno Hi. unfold RBModel.insert_owning in Hi.
  destruct (descend (rb_tree key s) k []) as [p|] eqn:Hd.
  - destruct (fixup (T Red E k E) p) as [t1|] eqn:Hf; [|discriminate].
    inversion Hi; subst; simpl. repeat split; auto.
    + intros Hx.
      assert (Hit : insert_tree (rb_tree key s) k = Some (paint Black t1)).
      { unfold RBModel.insert_tree. rewrite Hd, Hf. reflexivity. }
      destruct (insert_tree_ordered _ _ _ Ho Hit) as (_ & Hm & _).
      apply Hm in Hx as [Hx|[-> _]]; auto.
    + intros Hx.
      assert (Hit : insert_tree (rb_tree key s) k = Some (paint Black t1)).
      { unfold RBModel.insert_tree. rewrite Hd, Hf. reflexivity. }
      destruct (insert_tree_ordered _ _ _ Ho Hit) as (_ & Hm & _).
      apply Hm. destruct Hx as [Hx| ->]; auto. right; split; auto. congruence.
  - exfalso. pose proof (proj1 (descend_none_find _ k []) Hd) as Hf.
    destruct (find (rb_tree key s) k) as [y|] eqn:Hy; [|congruence].
    apply find_some in Hy as [Hy1 Hy2]. eapply Hno; eauto.
Qed.

(* The intrusive flavour never gets stuck either and keeps the same tree
   invariants (its count is bumped even on a duplicate, as the code does). *)
Theorem chain_insert_total : forall s k, RB (rb_tree key s) ->
  exists r, insert_chain key cmp s k = Some r /\ RB (rb_tree key (ir_state key r)) /\
            rb_count key (ir_state key r) = (rb_count key s + 1)%Z.
Proof.
  intros s k HRB. unfold RBModel.insert_chain.
  destruct (insert_preserves_rb _ k HRB) as (t' & Hi & HRB').
  unfold RBModel.insert_tree in Hi.
  destruct (descend (rb_tree key s) k []) as [p|] eqn:Hd.
  - destruct (fixup (T Red E k E) p) as [t1|]; [|discriminate].
    simpl in Hi; inversion Hi; subst. eexists; split; [reflexivity|]. split; [exact HRB'|reflexivity].
  - eexists; split; [reflexivity|]. split; [exact HRB|reflexivity].
Qed.

(* ------------------------------------------------------------------ *)
(* 5. Height                                                            *)
(* ------------------------------------------------------------------ *)

Lemma rbt_height : forall c t n, rbt c t n ->
  height key t <= 2 * n + (match c with Red => 1 | Black => 0 end).
Proof.
  induction 1; simpl; try lia.
  destruct cl, cr; simpl in *; lia.
Qed.

Lemma rbt_size : forall c t n, rbt c t n -> 2 ^ n <= size key t + 1.
Proof.
  induction 1; simpl in *; lia.
Qed.

Theorem height_bound : forall t, RBcol t -> 2 ^ height key t <= (size key t + 1) * (size key t + 1).
Proof.
  intros t [n H].
  pose proof (rbt_height _ _ _ H) as Hh. pose proof (rbt_size _ _ _ H) as Hs. simpl in Hh.
  assert (2 ^ height key t <= 2 ^ (2 * n)) by (apply Nat.pow_le_mono_r; lia).
  replace (2 ^ (2 * n)) with (2 ^ n * 2 ^ n) in H0.
  - assert (2 ^ n * 2 ^ n <= (size key t + 1) * (size key t + 1)) by (apply Nat.mul_le_mono; auto).
    lia.
  - rewrite <- Nat.pow_add_r. f_equal. lia.
Qed.

(* count tracks the number of elements in the owning flavour *)
Theorem elements_length_size : forall t, length (elements t) = size key t.
Proof.
  induction t; simpl; auto. rewrite app_length. simpl. lia.
Qed.

End RBProofs.
