(* StateSpace.v — the state the hand-written models abstract.  Each model (arena and string pool, red-black tree, list-like
   stores, scopes and overload sets, regions and positions, substitutions, the printer) speaks about certain data members of
   certain classes.  [modelled_state] lists them, with their declared types (and bit-field widths), as they were when the models
   were written and validated; GenState.gen_class_fields is what the source declares NOW.  If a class gains, loses or re-types a
   data member, the abstraction no longer covers the state of the code (a cache, an index, a narrower counter ...) and the
   obligation of every property that rests on that model fails. *)
From Coq Require Import List String Bool.
From IprV Require Import GenTypes.
From IprV.gen Require Import GenState.
Import ListNotations.
Local Open Scope string_scope.

Definition modelled_state : list (string * list (string * string)) :=
  [
   ("util::string", [("length", "ipr::util::string::size_type"); ("data", "char8_t[8]")]);
   ("util::arena", [("mem", "ipr::util::string::arena::pool *"); ("next_header", "ipr::util::string *")]);
   ("util::arena::pool", [("previous", "ipr::util::string::arena::pool *"); ("storage", "util::string[65536]")]);
   ("util::string_pool", [("strings", "util::string::arena")]);
   ("util::rb_tree::link", [("arm", "Node *[3]"); ("color", "ipr::util::rb_tree::Color")]);
   ("util::rb_tree::core", [("root", "Node *"); ("count", "std::ptrdiff_t")]);
   ("util::rb_tree::node", [("data", "T")]);
   ("util::rb_tree::container", []);
   ("util::rb_tree::chain", []);
   ("impl::obj_list", [("mark", "typename Impl::iterator")]);
   ("impl::obj_sequence", []);
   ("impl::ref_sequence", []);
   ("impl::stable_farm", []);
   ("impl::typed_sequence", [("seq", "Seq")]);
   ("impl::homogeneous_scope", [("decls", "typed_sequence<ipr::impl::homogeneous_scope::Members>")]);
   ("impl::homogeneous_region", [("parent", "const ipr::Region &"); ("extent", "ipr::impl::homogeneous_region::location_span"); ("owned_by", "Optional<ipr::Expr>"); ("scope", "homogeneous_scope<Member, Seq>")]);
   ("impl::Scope", [("overloads", "util::rb_tree::container<impl::Overload>"); ("decls", "typed_sequence<ipr::impl::decl_sequence>"); ("aliases", "decl_factory<impl::Alias>"); ("vars", "decl_factory<impl::Var>"); ("fields", "decl_factory<impl::Field>"); ("bitfields", "decl_factory<impl::Bitfield>"); ("fundecls", "decl_factory<impl::Fundecl>"); ("typedecls", "decl_factory<impl::Typedecl>"); ("primary_maps", "decl_factory<impl::Template>"); ("secondary_maps", "decl_factory<impl::Template>")]);
   ("impl::Overload", [("name", "const ipr::Name &"); ("entries", "util::rb_tree::chain<overload_entry>"); ("masters", "std::vector<scope_datum *>")]);
   ("impl::overload_entry", [("type", "const ipr::Type &"); ("declset", "ref_sequence<ipr::Decl>")]);
   ("impl::master_decl_data", [("def", "Optional<ipr::Alias>"); ("langlinkage", "util::ref<const ipr::Linkage>"); ("overload", "impl::Overload *"); ("home", "const ipr::Region *"); ("primary", "const ipr::Template *"); ("specs", "ipr::impl::decl_sequence")]);
   ("impl::General_substitution", [("mapping", "std::map<const ipr::Parameter *, const ipr::Expr *>")]);
   ("impl::Elementary_substitution", [("parm", "const ipr::Parameter &"); ("value", "const ipr::Expr &")]);
   ("impl::Parameter_list", [("parms", "homogeneous_region<impl::Parameter>"); ("nesting", "const ipr::Mapping_level")]);
   ("impl::Parameter", [("init", "Optional<ipr::Expr>"); ("id", "const ipr::Name &"); ("typing", "const ipr::Type &"); ("where", "util::ref<const ipr::Parameter_list>"); ("pos", "const ipr::Decl_position")]);
   ("impl::Enumerator", [("id", "const ipr::Name &"); ("typing", "const ipr::Enum &"); ("scope_pos", "const ipr::Decl_position"); ("where", "util::ref<const ipr::Region>"); ("init", "Optional<ipr::Expr>")]);
   ("impl::Base_type", [("base", "const ipr::Type &"); ("where", "const ipr::Region &"); ("scope_pos", "const ipr::Decl_position"); ("spec", "ipr::Specifiers")]);
   ("impl::Region", [("parent", "Optional<ipr::Region>"); ("extent", "ipr::impl::Region::location_span"); ("owned_by", "Optional<ipr::Expr>"); ("scope", "impl::Scope"); ("expr_seq", "impl::ref_sequence<ipr::Expr>"); ("subregions", "stable_farm<ipr::impl::Region>")]);
   ("Printer", [("lexicon", "const ipr::Lexicon &"); ("stream", "std::ostream &"); ("pad", "ipr::Printer::Padding"); ("emit_newline", "bool"); ("pending_indentation", "int"); ("disambiguation_map", "ipr::disambiguation_map_type"); ("print_locations", "bool"); ("parenthesizing", "const ipr::Expr *")])
  ].

Definition field_eqb (a b : string * string) : bool := streq (fst a) (fst b) && streq (snd a) (snd b).

Fixpoint fields_eqb (a b : list (string * string)) : bool :=
  match a, b with
  | [], [] => true
  | x :: a', y :: b' => field_eqb x y && fields_eqb a' b'
  | _, _ => false
  end.

Definition fields_of (table : list (string * list (string * string))) (cls : string) : option (list (string * string)) :=
  option_map snd (List.find (fun r => streq (fst r) cls) table).

Definition class_as_modelled (cls : string) : bool :=
  match fields_of gen_class_fields cls, fields_of modelled_state cls with
  | Some now, Some then_ => fields_eqb now then_
  | _, _ => false
  end.

Definition state_as_modelled (classes : list string) : bool := forallb class_as_modelled classes.

(* which classes each model rests on *)
Definition string_pool_state := ["util::string"; "util::arena"; "util::arena::pool"; "util::string_pool"].
Definition tree_state := ["util::rb_tree::link"; "util::rb_tree::core"; "util::rb_tree::node"; "util::rb_tree::container"; "util::rb_tree::chain"].
Definition store_state := ["impl::obj_list"; "impl::obj_sequence"; "impl::ref_sequence"; "impl::stable_farm"; "impl::typed_sequence"].
Definition scope_state := ["impl::homogeneous_scope"; "impl::Scope"; "impl::Overload"; "impl::overload_entry"; "impl::master_decl_data"].
Definition region_state := ["impl::homogeneous_region"; "impl::Region"; "impl::Parameter_list"; "impl::Parameter"; "impl::Enumerator"; "impl::Base_type"].
Definition substitution_state := ["impl::General_substitution"; "impl::Elementary_substitution"].
Definition printer_state := ["Printer"].

(* the check refuses a class that gained a member (the shape of most caches and indexes) *)
Example fields_eqb_refuses_an_added_member :
  fields_eqb [("mapping", "std::map<const ipr::Parameter *, const ipr::Expr *>"); ("latest", "Bindings::const_iterator")]
             [("mapping", "std::map<const ipr::Parameter *, const ipr::Expr *>")] = false.
Proof. reflexivity. Qed.
