(* Properties_C07.v — C07: scopes, overload sets and declaration sets are
   mutually consistent.  Model and proofs: Scope.v; the two lookups are
   red-black tables ordered by node_compare (address of the name / of the
   type): LexTables.unary_table_unified; the comparator each call site
   resolves to is re-read from the source (GenCmp). *)
From Coq Require Import List PeanoNat Bool String ZArith Sorted.
From IprV Require Import GenTypes Scope GenCheck RBModel RBProofs Unify LexTables.
From IprV.gen Require Import GenCmp.
From IprV Require StateSpace.
Import ListNotations.

(* for every history h of declarations (name, type), in entry order: *)
Theorem c07_scope_lists_entry_order : forall h, Scope.elements (Scope.run h) = seq 0 (List.length h) /\ s_decls (Scope.run h) = h.
Proof. exact scope_lists_entry_order. Qed.

Theorem c07_scope_type_is_product : forall h, scope_type (Scope.run h) = map snd h.
Proof. exact scope_type_is_product. Qed.

Theorem c07_lookup_iff_declared : forall h n, Scope.lookup (Scope.run h) n <> None <-> exists d, In d h /\ fst d = n.
Proof. exact lookup_iff_declared. Qed.

Theorem c07_select_is_first : forall h n t, Scope.select (Scope.run h) n t = hd_error (indices_with h n t).
Proof. exact select_is_first. Qed.

Theorem c07_master_is_first : forall h i n t, nth_error h i = Some (n, t) ->
  master (Scope.run h) i = hd_error (indices_with h n t) /\ master (Scope.run h) i <> None.
Proof. exact master_is_first. Qed.

Theorem c07_declset_is_group : forall h i n t, nth_error h i = Some (n, t) ->
  decl_set (Scope.run h) i = Some (indices_with h n t) /\ In i (indices_with h n t).
Proof. exact declset_is_group. Qed.

(* [indices_with h n t] is exactly the declarations sharing name and type, in entry order *)
Theorem c07_group_spec : forall h n t j, In j (indices_with h n t) <-> nth_error h j = Some (n, t).
Proof. exact indices_with_spec. Qed.
Theorem c07_group_in_entry_order : forall h n t, StronglySorted lt (indices_with h n t).
Proof. exact indices_with_sorted. Qed.

(* parameter lists, enumerations, base lists, handler regions *)
Theorem c07_homogeneous_positions : forall l i d, nth_error (h_run l) i = Some d ->
  h_pos d = i /\ nth_error l i = Some (h_name d, h_type d).
Proof. exact homogeneous_positions. Qed.

(* both lookups are tables ordered by the address of the key *)
Theorem c07_lookup_tables : forall (node : Type) (addr : node -> Z), (forall a b, addr a = addr b -> a = b) ->
  forall ks, exists s ns, trun node (unary_cmp node addr) (rb_empty _) ks = Some (s, ns) /\ List.length ns = List.length ks /\
  forall i j ki kj ni nj, nth_error ks i = Some ki -> nth_error ks j = Some kj ->
    nth_error ns i = Some ni -> nth_error ns j = Some nj -> (ni = nj <-> ki = kj).
Proof. exact unary_table_unified. Qed.

(* in the current source, the scope's overload table and each overload set's
   entry table are searched with comparators over the stored key *)
Definition scope_tables : list string := ["impl::Overload"%string; "impl::overload_entry"%string].
Definition scope_sites_ok : bool :=
  forallb (has_site gen_cmp_sites) scope_tables &&
  forallb (fun r => negb (existsb (fun t => str_contains t (c_elem r)) scope_tables) || site_ok r) gen_cmp_sites &&
  (* lookup (find) and declaration (insert) use the same order *)
  existsb (fun r => str_contains "impl::Overload" (c_elem r) && streq (c_op r) "find") gen_cmp_sites &&
  existsb (fun r => str_contains "overload_entry" (c_elem r) && streq (c_op r) "find") gen_cmp_sites.
Theorem c07_comparators_match_source : scope_sites_ok = true.
Proof. vm_compute. reflexivity. Qed.

Example c07_nonvacuous :
  let h := [(0, 0); (0, 0); (1, 0); (0, 16); (0, 1); (0, 16)] in
  decl_set (Scope.run h) 5 = Some [3; 5] /\ master (Scope.run h) 1 = Some 0 /\ Scope.select (Scope.run h) 0 16 = Some 3 /\
  Scope.lookup (Scope.run h) 2 = None.
Proof. vm_compute. auto. Qed.

(* scopes, overload sets and master records have the data members the Scope model abstracts (StateSpace.v against the regenerated GenState) *)
Theorem c07_state_is_what_the_model_abstracts :
  StateSpace.state_as_modelled (StateSpace.scope_state) = true.
Proof. vm_compute. reflexivity. Qed.

Print Assumptions c07_state_is_what_the_model_abstracts.
Print Assumptions c07_scope_lists_entry_order.
Print Assumptions c07_scope_type_is_product.
Print Assumptions c07_lookup_iff_declared.
Print Assumptions c07_select_is_first.
Print Assumptions c07_master_is_first.
Print Assumptions c07_declset_is_group.
Print Assumptions c07_group_spec.
Print Assumptions c07_group_in_entry_order.
Print Assumptions c07_homogeneous_positions.
Print Assumptions c07_lookup_tables.
Print Assumptions c07_comparators_match_source.
Print Assumptions c07_nonvacuous.
