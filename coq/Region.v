(* Region.v — model of the region tree built by the library's constructors
   (include/ipr/impl:2025-2105, 2357-2431, 2911-2941; src/impl.cxx:711-746,
   900-1002, 1456-1468, 1640-1650) and proofs of C12 over arbitrary
   construction histories. A region is an index into an append-only list;
   an owner is (index of the constructing operation, role). *)
From Coq Require Import List PeanoNat Bool Lia Wf_nat.
Import ListNotations.

Record region := { r_parent : option nat; r_owner : option (nat * nat); r_bind : option (nat * nat) }.
(* r_bind: for an exception-handler region, the entity it binds (the handler's parameter) *)

Inductive op :=
| OUnit                      (* a translation unit: its global namespace and global region *)
| OSub (r : nat)             (* Region::make_subregion *)
| OClass (r : nat) | OUnion (r : nat) | ONamespace (r : nat) | OClosure (r : nat) | OEnum (r : nat)
| OBlock (r : nat)
| OHandler (b : nat)         (* Block::new_handler on the block created by operation b *)
| OMapping (r : nat) | OLambda (r : nat) | ORequires (r : nat) | OMorphism (r : nat) | OWhere (r : nat).

(* roles of the entities an operation creates *)
Definition role_self := 0.  Definition role_body_block := 1.  Definition role_eh_param := 2.

Record state := { regions : list region; ops : list (op * list nat) }.   (* each op with the regions it created *)
Definition st_empty : state := {| regions := []; ops := [] |}.

Definition mk (p : option nat) (o : option (nat * nat)) : region := {| r_parent := p; r_owner := o; r_bind := None |}.

Definition parent_of (s : state) (r : nat) : option nat :=
  match nth_error (regions s) r with Some x => r_parent x | None => None end.

(* the region of the block created by operation b, if that operation is a block *)
Definition block_region (s : state) (b : nat) : option nat :=
  match nth_error (ops s) b with
  | Some (OBlock _, [r]) => Some r
  | _ => None
  end.

Definition valid_region (s : state) (r : nat) : bool := r <? length (regions s).

(* the regions one construction step creates; an operation on a region that does not
   exist (or a handler on something that is not a block) creates nothing *)
Definition new_regions (s : state) (o : op) : list region :=
  let n := length (regions s) in
  let me := length (ops s) in
  match o with
  | OUnit => [mk None (Some (me, role_self))]
  | OSub r => if valid_region s r then [mk (Some r) None] else []
  | OClass r => if valid_region s r then [mk (Some r) (Some (me, role_self)); mk (Some r) (Some (me, role_self))] else []
  | OUnion r | ONamespace r | OClosure r | OEnum r | OBlock r | OMapping r | OLambda r =>
      if valid_region s r then [mk (Some r) (Some (me, role_self))] else []
  | ORequires r | OMorphism r | OWhere r => if valid_region s r then [mk (Some r) None] else []
  | OHandler b =>
      match block_region s b with
      | Some br =>
          match parent_of s br with
          | Some outer =>
              [{| r_parent := Some outer; r_owner := None; r_bind := Some (me, role_eh_param) |};
               mk (Some n) (Some (me, role_body_block))]
          | None => []
          end
      | None => []
      end
  end.

Definition step (s : state) (o : op) : state :=
  let rs := new_regions s o in
  {| regions := regions s ++ rs; ops := ops s ++ [(o, seq (length (regions s)) (length rs))] |}.

Definition run (h : list op) : state := fold_left step h st_empty.

(* walking outward *)
Fixpoint outward (s : state) (fuel : nat) (r : nat) : option nat :=
  match fuel with
  | O => None
  | S f => match nth_error (regions s) r with
           | Some x => match r_parent x with None => Some r | Some p => outward s f p end
           | None => None
           end
  end.
Definition is_global (s : state) (r : nat) : bool :=
  match nth_error (regions s) r with Some x => match r_parent x with None => true | Some _ => false end | None => false end.

(* ------------------------------------------------------------------ *)
Definition WF (s : state) : Prop :=
  (forall r x p, nth_error (regions s) r = Some x -> r_parent x = Some p -> p < r) /\
  (forall i o rs r, nth_error (ops s) i = Some (o, rs) -> In r rs -> r < length (regions s)).

Lemma WF_empty : WF st_empty.
Proof. split; [intros [|r] x p H; discriminate | intros [|i] o rs r H; discriminate]. Qed.

Lemma run_snoc : forall h o, run (h ++ [o]) = step (run h) o.
Proof. intros. unfold run. rewrite fold_left_app. reflexivity. Qed.

Lemma nth_app_cases : forall (A : Type) (l l' : list A) i x, nth_error (l ++ l') i = Some x ->
  (i < length l /\ nth_error l i = Some x) \/ (length l <= i /\ nth_error l' (i - length l) = Some x).
Proof.
  intros A l l' i x H. destruct (Nat.lt_ge_cases i (length l)).
  - left. rewrite nth_error_app1 in H by auto. auto.
  - right. rewrite nth_error_app2 in H by auto. auto.
Qed.

Lemma parent_of_lt : forall s r p, WF s -> parent_of s r = Some p -> p < r /\ r < length (regions s).
Proof.
  intros s r p [W _] H. unfold parent_of in H.
  destruct (nth_error (regions s) r) as [x|] eqn:E; [|discriminate].
  split; [eapply W; eauto|]. apply nth_error_Some. congruence.
Qed.

Lemma block_region_lt : forall s b br, WF s -> block_region s b = Some br -> br < length (regions s).
Proof.
  intros s b br [_ W] H. unfold block_region in H.
  destruct (nth_error (ops s) b) as [[o rs]|] eqn:E; [|discriminate].
  destruct o; try discriminate. destruct rs as [|x [|y l]]; try discriminate. inversion H; subst.
  eapply W; eauto. simpl; auto.
Qed.

(* every region a step creates is enclosed by a region with a smaller index,
   or has no parent and then the step is the creation of a unit *)
Lemma new_regions_ok : forall s o k x, WF s -> nth_error (new_regions s o) k = Some x ->
  match r_parent x with
  | Some p => p < length (regions s) + k
  | None => o = OUnit /\ k = 0
  end.
Proof.
  intros s o k x HW H. unfold new_regions in H.
  destruct o as [|r|r|r|r|r|r|r|b|r|r|r|r|r];
    try (destruct (valid_region s r) eqn:V; [apply Nat.ltb_lt in V|destruct k; discriminate]);
    try (destruct k as [|[|[|k]]]; simpl in H; try discriminate; inversion H; subst; simpl; lia).
  - destruct k as [|k]; simpl in H; [inversion H; subst; simpl; auto|destruct k; discriminate].
  - destruct (block_region s b) as [br|] eqn:Eb; [|destruct k; discriminate].
    destruct (parent_of s br) as [outer|] eqn:Ep; [|destruct k; discriminate].
    pose proof (block_region_lt s b br HW Eb). destruct (parent_of_lt s br outer HW Ep).
    destruct k as [|[|[|k]]]; simpl in H; try discriminate; inversion H; subst; simpl; lia.
Qed.

Theorem step_WF : forall s o, WF s -> WF (step s o).
Proof.
  intros s o HW. pose proof HW as [W1 W2]. unfold step. split; cbn [regions ops].
  - intros r x p Hn Hp.
    apply nth_app_cases in Hn as [[Hlt Hn]|[Hge Hn]]; [eapply W1; eauto|].
    pose proof (new_regions_ok s o _ x HW Hn) as Hok. rewrite Hp in Hok. lia.
  - intros i o' rs' r Hn Hin. rewrite app_length.
    apply nth_app_cases in Hn as [[_ Hn]|[_ Hn]].
    + pose proof (W2 _ _ _ _ Hn Hin). lia.
    + destruct (i - length (ops s)) as [|k]; [|destruct k; discriminate].
      simpl in Hn. inversion Hn; subst. apply in_seq in Hin. lia.
Qed.

Theorem run_WF : forall h, WF (run h).
Proof.
  intros h. induction h as [|o h IH] using rev_ind; [apply WF_empty|].
  rewrite run_snoc. apply step_WF. exact IH.
Qed.

(* every region is enclosed by a region created earlier: the tree is well founded *)
Theorem parent_created_earlier : forall h r x p,
  nth_error (regions (run h)) r = Some x -> r_parent x = Some p -> p < r.
Proof. intros h. exact (proj1 (run_WF h)). Qed.

(* walking outward from any region reaches, within r+1 steps, a region without parent *)
Theorem reaches_global : forall h r, r < length (regions (run h)) ->
  exists g, outward (run h) (S r) r = Some g /\ is_global (run h) g = true /\ g <= r.
Proof.
  intros h. pose proof (run_WF h) as [W _]. set (s := run h) in *.
  induction r as [r IH] using (well_founded_induction lt_wf). intros Hr.
  cbn [outward]. destruct (nth_error (regions s) r) as [x|] eqn:E; [|apply nth_error_None in E; lia].
  destruct (r_parent x) as [p|] eqn:Ep.
  - pose proof (W r x p E Ep) as Hlt.
    destruct (IH p Hlt ltac:(lia)) as (g & Hg & Hgl & Hle).
    exists g. split; [|split; [exact Hgl|lia]].
    assert (M : forall f f' q g', outward s f q = Some g' -> f <= f' -> outward s f' q = Some g').
    { induction f as [|f IHf]; intros f' q g' Ho Hle'; [discriminate|].
      destruct f' as [|f']; [lia|]. cbn [outward] in *.
      destruct (nth_error (regions s) q) as [y|]; [|discriminate].
      destruct (r_parent y); [apply IHf; auto; lia|exact Ho]. }
    eapply M; [exact Hg|lia].
  - exists r. split; [reflexivity|]. split; [|lia]. unfold is_global. rewrite E, Ep. reflexivity.
Qed.

(* only the regions created for translation units report themselves global *)
Theorem only_root_is_global : forall h r, is_global (run h) r = true <->
  exists i, nth_error (ops (run h)) i = Some (OUnit, [r]).
Proof.
  intros h. induction h as [|o h IH] using rev_ind; intros r.
  - unfold is_global; simpl. split; [destruct r; discriminate|intros ([|i] & H); discriminate].
  - rewrite run_snoc. set (s := run h) in *. pose proof (run_WF h) as HW. fold s in HW.
    unfold is_global, step; cbn [regions ops]. split.
    + intros H. destruct (nth_error (regions s ++ new_regions s o) r) as [x|] eqn:E; [|discriminate].
      destruct (r_parent x) eqn:Ep; [discriminate|].
      apply nth_app_cases in E as [[Hlt E]|[Hge E]].
      * assert (G : is_global s r = true) by (unfold is_global; rewrite E, Ep; reflexivity).
        apply IH in G as (i & Hi). exists i. rewrite nth_error_app1; auto. apply nth_error_Some. congruence.
      * pose proof (new_regions_ok s o _ x HW E) as Hok. rewrite Ep in Hok. destruct Hok as [-> Hk].
        exists (length (ops s)). rewrite nth_error_app2, Nat.sub_diag by lia. simpl.
        f_equal. f_equal. f_equal. lia.
    + intros (i & Hi). apply nth_app_cases in Hi as [[Hlt Hi]|[Hge Hi]].
      * assert (G : is_global s r = true) by (apply IH; eauto).
        unfold is_global in G. destruct (nth_error (regions s) r) as [x|] eqn:E; [|discriminate].
        rewrite nth_error_app1 by (apply nth_error_Some; congruence). rewrite E. exact G.
      * destruct (i - length (ops s)) as [|k]; [|destruct k; discriminate]. simpl in Hi.
        inversion Hi as [[Ho Hs]]. subst o. simpl in Hs. inversion Hs; subst r.
        rewrite nth_error_app2, Nat.sub_diag by lia. reflexivity.
Qed.

(* ---- what each constructor guarantees (enclosure and ownership) ---- *)
Definition created (s : state) (i : nat) : list nat :=
  match nth_error (ops s) i with Some (_, rs) => rs | None => [] end.

Theorem step_creates : forall s o, WF s ->
  let s' := step s o in
  let me := length (ops s) in
  let n := length (regions s) in
  match o with
  | OUnit => exists x, nth_error (regions s') n = Some x /\ r_parent x = None /\ r_owner x = Some (me, role_self)
  | OSub r | ORequires r | OMorphism r | OWhere r =>
      valid_region s r = true -> exists x, nth_error (regions s') n = Some x /\ r_parent x = Some r /\ r_owner x = None
  | OClass r =>
      valid_region s r = true ->
      exists x y, nth_error (regions s') n = Some x /\ nth_error (regions s') (S n) = Some y /\
                  r_parent x = Some r /\ r_parent y = Some r /\
                  r_owner x = Some (me, role_self) /\ r_owner y = Some (me, role_self)
  | OUnion r | ONamespace r | OClosure r | OEnum r | OBlock r | OMapping r | OLambda r =>
      valid_region s r = true -> exists x, nth_error (regions s') n = Some x /\ r_parent x = Some r /\ r_owner x = Some (me, role_self)
  | OHandler b =>
      forall br outer, block_region s b = Some br -> parent_of s br = Some outer ->
      exists eh body, nth_error (regions s') n = Some eh /\ nth_error (regions s') (S n) = Some body /\
        (* the body's region is enclosed by a region binding exactly the exception parameter ... *)
        r_parent body = Some n /\ r_bind eh = Some (me, role_eh_param) /\
        (* ... itself enclosed by the region that encloses the guarded block *)
        r_parent eh = Some outer /\
        (* the body is a block: its region names it as owner *)
        r_owner body = Some (me, role_body_block)
  end.
Proof.
  intros s o HW. cbv zeta. unfold step; cbn [regions ops]. unfold new_regions.
  destruct o as [|r|r|r|r|r|r|r|b|r|r|r|r|r];
    try (intros V; rewrite V; rewrite !nth_error_app2 by lia; rewrite ?Nat.sub_diag;
         replace (S (length (regions s)) - length (regions s)) with 1 by lia; simpl; eauto 10).
  - rewrite nth_error_app2, Nat.sub_diag by lia. simpl. eauto.
  - intros br outer Eb Ep. rewrite Eb, Ep. rewrite !nth_error_app2 by lia. rewrite Nat.sub_diag.
    replace (S (length (regions s)) - length (regions s)) with 1 by lia. simpl. eauto 10.
Qed.
