(* Comparators.v — the comparators the library orders its trees with, and
   the proof that each is a total preorder (hypothesis of RBProofs).

   int_cmp    : impl::compare on scalars (include/ipr/impl:1307-1313)
   addr_cmp   : impl::compare(const Node&, const Node&) = compare of addresses,
                for an arbitrary injective address map
   lex_cmp    : util::lexicographical_compare (include/ipr/utility:446-457)
   pair_cmp   : `if (c = compare(a.first,b.first)) return c; return compare(a.second,b.second)`
                (binary_compare / ternary_compare / transfer comparators) *)

From Coq Require Import List ZArith Lia Bool.
From IprV Require Import RBModel RBProofs.
Import ListNotations.
Local Open Scope Z_scope.

Definition int_cmp (a b : Z) : Z := if a <? b then -1 else if b <? a then 1 else 0.

Lemma int_cmp_total : TotalOrder Z int_cmp.
Proof.
  split; unfold int_cmp; intros.
  - destruct (Z.ltb_spec a b), (Z.ltb_spec b a); simpl; lia.
  - destruct (Z.ltb_spec a b), (Z.ltb_spec b a), (Z.ltb_spec b c), (Z.ltb_spec c b),
             (Z.ltb_spec a c), (Z.ltb_spec c a); lia.
Qed.

Lemma int_cmp_eq a b : int_cmp a b = 0 <-> a = b.
Proof. unfold int_cmp. destruct (Z.ltb_spec a b), (Z.ltb_spec b a); lia. Qed.

(* comparison through a key projection (address of a node, rank, ...) *)
Section ByKey.
Variable A : Type.
Variable addr : A -> Z.
Definition by_key (a b : A) : Z := int_cmp (addr a) (addr b).
Lemma by_key_total : TotalOrder A by_key.
Proof.
  split; unfold by_key; intros.
  - apply (sgn_antisym _ _ int_cmp_total).
  - eapply (le_trans _ _ int_cmp_total); eauto.
Qed.
Lemma by_key_eq : (forall a b, addr a = addr b -> a = b) ->
  forall a b, by_key a b = 0 <-> a = b.
Proof.
  intros Hinj a b. unfold by_key. rewrite int_cmp_eq. split; [apply Hinj|congruence].
Qed.
End ByKey.

(* lexicographic product of two comparators *)
Section Pair.
Variables A B : Type.
Variable ca : A -> A -> Z.
Variable cb : B -> B -> Z.
Hypothesis Ha : TotalOrder A ca.
Hypothesis Hb : TotalOrder B cb.
Definition pair_cmp (x y : A * B) : Z :=
  let c := ca (fst x) (fst y) in if c =? 0 then cb (snd x) (snd y) else c.

Lemma pair_cmp_total : TotalOrder (A * B) pair_cmp.
Proof.
  split; unfold pair_cmp; intros [a1 b1] [a2 b2]; simpl.
  - pose proof (sgn_antisym _ _ Ha a1 a2). pose proof (sgn_antisym _ _ Hb b1 b2).
    destruct (Z.eqb_spec (ca a1 a2) 0), (Z.eqb_spec (ca a2 a1) 0); lia.
  - intros [a3 b3]; simpl.
    pose proof (le_trans _ _ Ha a1 a2 a3). pose proof (le_trans _ _ Hb b1 b2 b3).
    pose proof (lt_le_trans _ _ Ha a1 a2 a3). pose proof (le_lt_trans _ _ Ha a1 a2 a3).
    pose proof (eq_trans_cmp _ _ Ha a1 a2 a3).
    destruct (Z.eqb_spec (ca a1 a2) 0), (Z.eqb_spec (ca a2 a3) 0), (Z.eqb_spec (ca a1 a3) 0); lia.
Qed.

Lemma pair_cmp_eq : (forall a a', ca a a' = 0 <-> a = a') -> (forall b b', cb b b' = 0 <-> b = b') ->
  forall x y, pair_cmp x y = 0 <-> x = y.
Proof.
  intros Ea Eb [a1 b1] [a2 b2]. unfold pair_cmp; simpl.
  destruct (Z.eqb_spec (ca a1 a2) 0) as [H|H].
  - rewrite Eb. apply Ea in H. subst. split; congruence.
  - split; [lia|]. intros E; inversion E; subst. exfalso. apply H. apply Ea; reflexivity.
Qed.
End Pair.

(* util::lexicographical_compare over two sequences *)
Section Lex.
Variable A : Type.
Variable c : A -> A -> Z.
Hypothesis Hc : TotalOrder A c.

Fixpoint lex_cmp (l1 l2 : list A) : Z :=
  match l1, l2 with
  | [], [] => 0
  | [], _ :: _ => -1
  | _ :: _, [] => 1
  | x :: l1', y :: l2' => let o := c x y in if o =? 0 then lex_cmp l1' l2' else o
  end.

Lemma lex_cmp_antisym : forall l1 l2, Z.sgn (lex_cmp l1 l2) = - Z.sgn (lex_cmp l2 l1).
Proof.
  induction l1 as [|x l1 IH]; destruct l2 as [|y l2]; simpl; try reflexivity.
  pose proof (sgn_antisym _ _ Hc x y).
  destruct (Z.eqb_spec (c x y) 0), (Z.eqb_spec (c y x) 0); try lia. apply IH.
Qed.

Lemma lex_cmp_trans : forall l1 l2 l3,
  lex_cmp l1 l2 <= 0 -> lex_cmp l2 l3 <= 0 -> lex_cmp l1 l3 <= 0.
Proof.
  induction l1 as [|x l1 IH]; destruct l2 as [|y l2]; destruct l3 as [|z l3]; simpl; try lia.
  pose proof (le_trans _ _ Hc x y z).
  pose proof (lt_le_trans _ _ Hc x y z). pose proof (le_lt_trans _ _ Hc x y z).
  pose proof (eq_trans_cmp _ _ Hc x y z).
  destruct (Z.eqb_spec (c x y) 0), (Z.eqb_spec (c y z) 0), (Z.eqb_spec (c x z) 0); try lia.
  apply IH.
Qed.

Lemma lex_cmp_total : TotalOrder (list A) lex_cmp.
Proof. split; [apply lex_cmp_antisym | apply lex_cmp_trans]. Qed.

Lemma lex_cmp_eq : (forall a b, c a b = 0 <-> a = b) ->
  forall l1 l2, lex_cmp l1 l2 = 0 <-> l1 = l2.
Proof.
  intros E. induction l1 as [|x l1 IH]; destruct l2 as [|y l2]; simpl;
    try (split; [lia|discriminate]); [tauto|].
  destruct (Z.eqb_spec (c x y) 0) as [H|H].
  - apply E in H. subst. rewrite IH. split; congruence.
  - split; [lia|]. intros Heq; inversion Heq; subst. exfalso; apply H; apply E; reflexivity.
Qed.
End Lex.
