(* Unify.v — insert-or-find on the red-black container refines insert-or-find
   on a finite map, for any comparator that is a total order whose
   equivalence is key equality.  This is the step from C08 to C01/C04/C07:
   every unification table of the library is an instance. *)
From Coq Require Import List ZArith Lia Bool PeanoNat.
From IprV Require Import RBModel RBProofs.
Import ListNotations.

Lemma nth_error_lt' : forall (A : Type) (l : list A) i x, nth_error l i = Some x -> (i < length l)%nat.
Proof. intros A l i x H. apply nth_error_Some. rewrite H. discriminate. Qed.

Section Unify.
Variable key : Type.
Variable cmp : key -> key -> Z.
Hypothesis cmp_total : TotalOrder key cmp.
Hypothesis cmp_eq : forall a b, cmp a b = 0%Z <-> a = b.

(* an element of the table: the key it was built from and its serial number
   (creation order = node identity) *)
Definition elt : Type := key * nat.
Definition ecmp (a b : elt) : Z := cmp (fst a) (fst b).

Lemma ecmp_total : TotalOrder elt ecmp.
Proof.
  split; unfold ecmp; intros.
  - apply (sgn_antisym _ _ cmp_total).
  - eapply (le_trans _ _ cmp_total); eauto.
Qed.

(* ---- tree layer: what the code does ---- *)
Definition tget (s : rbstate elt) (k : key) : option (rbstate elt * nat) :=
  match insert_owning elt ecmp s (k, Z.to_nat (rb_count elt s)) with
  | Some r => Some (ir_state elt r, snd (ir_elem elt r))
  | None => None
  end.

Fixpoint trun (s : rbstate elt) (ks : list key) : option (rbstate elt * list nat) :=
  match ks with
  | [] => Some (s, [])
  | k :: ks' =>
    match tget s k with
    | Some (s', n) => match trun s' ks' with Some (s'', ns) => Some (s'', n :: ns) | None => None end
    | None => None
    end
  end.

(* ---- spec layer: a finite map as an association list ---- *)
Variable key_eqb : key -> key -> bool.
Hypothesis key_eqb_eq : forall a b, key_eqb a b = true <-> a = b.

Definition aget (m : list elt) (k : key) : list elt * nat :=
  match List.find (fun e => key_eqb (fst e) k) m with
  | Some e => (m, snd e)
  | None => (m ++ [(k, length m)], length m)
  end.

Fixpoint arun (m : list elt) (ks : list key) : list elt * list nat :=
  match ks with
  | [] => (m, [])
  | k :: ks' => let '(m', n) := aget m k in let '(m'', ns) := arun m' ks' in (m'', n :: ns)
  end.

(* the finite map: serial numbers are positions, keys are distinct *)
Definition AOk (m : list elt) : Prop :=
  (forall i e, nth_error m i = Some e -> snd e = i) /\ NoDup (map fst m).

Lemma AOk_nil : AOk [].
Proof. split; [intros [|i] e H; discriminate | constructor]. Qed.

Lemma aget_ok : forall m k, AOk m ->
  AOk (fst (aget m k)) /\
  In (k, snd (aget m k)) (fst (aget m k)) /\
  (forall e, In e m -> In e (fst (aget m k))) /\
  (snd (aget m k) <= length m)%nat.
Proof.
  intros m k [Hpos Hnd]. unfold aget.
  destruct (List.find (fun e => key_eqb (fst e) k) m) as [e|] eqn:Hf; simpl.
  - apply List.find_some in Hf as [Hin He]. apply key_eqb_eq in He. subst k.
    repeat split; auto. 
    + destruct e; simpl; auto.
    + apply In_nth_error in Hin as [i Hi]. rewrite (Hpos i e Hi).
      apply Nat.lt_le_incl. eapply nth_error_lt'; eauto.
  - repeat split.
    + intros i e Hi. destruct (Nat.lt_ge_cases i (length m)).
      * rewrite nth_error_app1 in Hi by auto. auto.
      * assert (i = length m).
        { assert (i < length (m ++ [(k, length m)]))%nat by (eapply nth_error_lt'; eauto).
          rewrite app_length in H0; simpl in H0; lia. }
        subst. rewrite nth_error_app2, Nat.sub_diag in Hi by lia. inversion Hi; reflexivity.
    + rewrite map_app. simpl.
      assert (Hn : ~ In k (map fst m)).
      { intros Hin. apply in_map_iff in Hin as (e & He & Hin).
        eapply List.find_none in Hf; eauto. simpl in Hf. subst k.
        rewrite (proj2 (key_eqb_eq (fst e) (fst e)) eq_refl) in Hf. discriminate. }
      clear - Hnd Hn. induction m as [|x m IH]; simpl in *.
      * constructor; [intros []|constructor].
      * inversion Hnd; subst. constructor.
        -- rewrite in_app_iff. simpl. intros [H|[H|[]]]; auto.
        -- apply IH; auto.
    + apply in_or_app. right. simpl. auto.
    + intros e He. apply in_or_app. auto.
    + lia.
Qed.

(* same key <-> same serial, for every history *)
Lemma arun_spec : forall ks m, AOk m ->
  let '(m', ns) := arun m ks in
  AOk m' /\ (forall e, In e m -> In e m') /\ Forall2 (fun k n => In (k, n) m') ks ns.
Proof.
  induction ks as [|k ks IH]; intros m Hm; cbn [arun].
  - split; [exact Hm|]. split; [auto|constructor].
  - destruct (aget_ok m k Hm) as (H1 & H2 & H3 & _).
    destruct (aget m k) as [m1 n]. cbn [fst snd] in *.
    specialize (IH m1 H1). destruct (arun m1 ks) as [m2 ns].
    destruct IH as (I1 & I2 & I3). split; [exact I1|]. split; [auto|]. constructor; auto.
Qed.

Theorem spec_unified : forall ks i j ki kj ni nj,
  nth_error ks i = Some ki -> nth_error ks j = Some kj ->
  nth_error (snd (arun [] ks)) i = Some ni -> nth_error (snd (arun [] ks)) j = Some nj ->
  (ni = nj <-> ki = kj).
Proof.
  intros ks i j ki kj ni nj Hki Hkj Hni Hnj.
  pose proof (arun_spec ks [] AOk_nil) as H. destruct (arun [] ks) as [m ns]. cbn [snd] in *.
  destruct H as ([Hpos Hnd] & _ & HF).
  assert (G : forall x k n, nth_error ks x = Some k -> nth_error ns x = Some n -> In (k, n) m).
  { clear - HF. induction HF; intros [|x'] k n Hk Hn; simpl in *; try discriminate.
    - inversion Hk; inversion Hn; subst; auto.
    - eauto. }
  pose proof (G _ _ _ Hki Hni) as Ii. pose proof (G _ _ _ Hkj Hnj) as Ij.
  apply In_nth_error in Ii as [a Ha]. apply In_nth_error in Ij as [b Hb].
  pose proof (Hpos _ _ Ha) as Pa. pose proof (Hpos _ _ Hb) as Pb. simpl in Pa, Pb. subst a b.
  split.
  - intros ->. rewrite Ha in Hb. inversion Hb; auto.
  - intros ->.
    assert (Hm : nth_error (map fst m) ni = Some kj) by (apply (map_nth_error fst _ _ Ha)).
    assert (Hm' : nth_error (map fst m) nj = Some kj) by (apply (map_nth_error fst _ _ Hb)).
    apply (proj1 (NoDup_nth_error (map fst m)) Hnd ni nj); [eapply nth_error_lt'; eauto|congruence].
Qed.

(* ---- refinement: the tree holds exactly the finite map ---- *)
Definition Rel (s : rbstate elt) (m : list elt) : Prop :=
  RB elt ecmp (rb_tree elt s) /\ rb_count elt s = Z.of_nat (length m) /\ AOk m /\
  (forall e, In e (elements elt (rb_tree elt s)) <-> In e m).

Lemma Rel_init : Rel (rb_empty elt) [].
Proof.
  split; [apply RB_empty|]. split; [reflexivity|]. split; [apply AOk_nil|]. intros e; simpl; tauto.
Qed.

Theorem tget_refines : forall s m k, Rel s m ->
  exists s', tget s k = Some (s', snd (aget m k)) /\ Rel s' (fst (aget m k)).
Proof.
  intros s m k (HRB & Hc & HA & Hel). unfold tget, aget.
  destruct (List.find (fun e => key_eqb (fst e) k) m) as [e|] eqn:Hf.
  - apply List.find_some in Hf as [Hin He]. apply key_eqb_eq in He.
    destruct (owning_duplicate elt ecmp ecmp_total s (k, Z.to_nat (rb_count elt s)) e HRB) as (y & Hy & Hyin & Hyk).
    { apply Hel; auto. } { unfold ecmp; simpl. apply cmp_eq; auto. }
    rewrite Hy. cbn [ir_state ir_elem fst snd].
    assert (Hsame : snd y = snd e).
    { unfold ecmp in Hyk; simpl in Hyk. apply cmp_eq in Hyk.
      apply Hel in Hyin. destruct HA as [Hpos Hnd].
      apply In_nth_error in Hyin as [a Ha]. apply In_nth_error in Hin as [b Hb].
      assert (a = b).
      { apply (proj1 (NoDup_nth_error (map fst m)) Hnd a b).
        - rewrite map_length. eapply nth_error_lt'; eauto.
        - rewrite (map_nth_error fst _ _ Ha), (map_nth_error fst _ _ Hb). congruence. }
      subst. assert (Some y = Some e) by (transitivity (nth_error m b); [symmetry; exact Ha|exact Hb]). congruence. }
    exists s. split; [rewrite Hsame; reflexivity|].
    split; [exact HRB|]. split; [exact Hc|]. split; [exact HA|exact Hel].
  - destruct (owning_insert_total elt ecmp ecmp_total s (k, Z.to_nat (rb_count elt s)) HRB) as (r & Hr & HRB').
    assert (Hno : forall x, In x (elements elt (rb_tree elt s)) -> ecmp x (k, Z.to_nat (rb_count elt s)) <> 0%Z).
    { intros x Hx Hz. unfold ecmp in Hz; simpl in Hz. apply cmp_eq in Hz. apply Hel in Hx.
      eapply List.find_none in Hf; eauto. simpl in Hf. rewrite (proj2 (key_eqb_eq _ _) Hz) in Hf. discriminate. }
    destruct (owning_fresh elt ecmp ecmp_total s _ r HRB Hno Hr) as (_ & Hel' & Hcnt & Hmem).
    rewrite Hr. cbn [fst snd]. rewrite Hel'. cbn [snd]. rewrite Hc, Nat2Z.id.
    eexists; split; [reflexivity|].
    split; [exact HRB'|]. split; [rewrite Hcnt, Hc, app_length; simpl; lia|].
    split.
    + pose proof (aget_ok m k HA) as Hag. unfold aget in Hag. rewrite Hf in Hag. simpl in Hag. tauto.
    + intros x. rewrite Hmem, Hel, in_app_iff. simpl. rewrite Hc, Nat2Z.id. intuition.
Qed.

Theorem trun_refines : forall ks s m, Rel s m ->
  exists s', trun s ks = Some (s', snd (arun m ks)) /\ Rel s' (fst (arun m ks)).
Proof.
  induction ks as [|k ks IH]; intros s m HR; cbn [trun arun].
  - eexists; split; [reflexivity|exact HR].
  - destruct (tget_refines s m k HR) as (s1 & Ht & HR1). rewrite Ht.
    destruct (aget m k) as [m1 n]. cbn [fst snd] in *.
    destruct (IH s1 m1 HR1) as (s2 & Ht2 & HR2). rewrite Ht2.
    destruct (arun m1 ks) as [m2 ns]. cbn [fst snd] in *.
    eexists; split; [reflexivity|exact HR2].
Qed.

(* the headline: on the red-black container, for every history of requests,
   two requests are answered with the same node iff their keys are equal;
   the call never gets stuck *)
Theorem tree_unified : forall ks, exists s ns,
  trun (rb_empty elt) ks = Some (s, ns) /\ length ns = length ks /\
  forall i j ki kj ni nj,
    nth_error ks i = Some ki -> nth_error ks j = Some kj ->
    nth_error ns i = Some ni -> nth_error ns j = Some nj -> (ni = nj <-> ki = kj).
Proof.
  intros ks. destruct (trun_refines ks _ _ Rel_init) as (s & Ht & _).
  exists s, (snd (arun [] ks)). split; [exact Ht|]. split.
  - pose proof (arun_spec ks [] AOk_nil) as H. destruct (arun [] ks) as [m ns]. cbn [snd].
    destruct H as (_ & _ & HF). clear - HF. induction HF; simpl; auto.
  - intros. eapply spec_unified; eauto.
Qed.

(* stability: a longer history does not change earlier answers *)
Theorem arun_stable : forall ks ks' m i n,
  nth_error (snd (arun m ks)) i = Some n -> nth_error (snd (arun m (ks ++ ks'))) i = Some n.
Proof.
  induction ks as [|k ks IH]; intros ks' m i n H; cbn [arun app] in *.
  - destruct i; discriminate.
  - destruct (aget m k) as [m1 x]. specialize (IH ks' m1).
    destruct (arun m1 ks) as [m2 ns]. destruct (arun m1 (ks ++ ks')) as [m3 ns'].
    cbn [snd] in *. destruct i; simpl in *; auto.
Qed.
End Unify.
