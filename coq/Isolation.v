(* Isolation.v — Lexicons are isolated (C20), on the model: a world is a family
   of independent Lexicon states plus immutable constants; an operation on
   Lexicon i reads the constants and reads/writes state i only.  Then the
   answers a Lexicon gives do not depend on how its operations are interleaved
   with those of other Lexicons.  Generic in the state machine. *)
From Coq Require Import List PeanoNat Bool.
Import ListNotations.

Section World.
Variables (S R O : Type).
Variable init : S.
Variable step : S -> R -> S * O.          (* one Lexicon; the shared constants are part of [step] itself *)

Definition world := nat -> S.
Definition w_init : world := fun _ => init.
Definition w_step (w : world) (e : nat * R) : world * (nat * O) :=
  let '(s', o) := step (w (fst e)) (snd e) in
  (fun j => if Nat.eqb j (fst e) then s' else w j, (fst e, o)).

Fixpoint w_run (w : world) (tr : list (nat * R)) : world * list (nat * O) :=
  match tr with
  | [] => (w, [])
  | e :: tr' => let '(w1, o) := w_step w e in let '(w2, os) := w_run w1 tr' in (w2, o :: os)
  end.

Fixpoint run1 (s : S) (rs : list R) : S * list O :=
  match rs with
  | [] => (s, [])
  | r :: rs' => let '(s1, o) := step s r in let '(s2, os) := run1 s1 rs' in (s2, o :: os)
  end.

Definition project (i : nat) (tr : list (nat * R)) : list R :=
  map snd (filter (fun e => Nat.eqb (fst e) i) tr).
Definition answers_of (i : nat) (os : list (nat * O)) : list O :=
  map snd (filter (fun e => Nat.eqb (fst e) i) os).

Theorem interleaving_irrelevant_from : forall tr w i,
  answers_of i (snd (w_run w tr)) = snd (run1 (w i) (project i tr)) /\
  fst (w_run w tr) i = fst (run1 (w i) (project i tr)).
Proof.
  induction tr as [|[j r] tr IH]; intros w i; cbn [w_run project answers_of filter map run1 fst snd]; auto.
  unfold w_step. cbn [fst snd].
  destruct (step (w j) r) as [s' o] eqn:Es.
  specialize (IH (fun k => if Nat.eqb k j then s' else w k) i).
  destruct (w_run (fun k => if Nat.eqb k j then s' else w k) tr) as [w2 os].
  cbn [fst snd] in *. unfold answers_of, project in *. cbn [filter fst snd].
  destruct (Nat.eqb_spec j i) as [->|Hne].
  - cbn [map run1 snd]. rewrite Es. rewrite Nat.eqb_refl in IH.
    destruct (run1 s' (map snd (filter (fun e => Nat.eqb (fst e) i) tr))) as [s2 os2].
    cbn [fst snd] in *. destruct IH as [IH1 IH2]. split; [f_equal; exact IH1|exact IH2].
  - destruct (Nat.eqb_spec i j) as [E|_]; [congruence|]. exact IH.
Qed.

(* each Lexicon obtains exactly the answers it would obtain alone *)
Theorem interleaving_irrelevant : forall tr i,
  answers_of i (snd (w_run w_init tr)) = snd (run1 init (project i tr)).
Proof. intros. apply (proj1 (interleaving_irrelevant_from tr w_init i)). Qed.

(* an operation on one Lexicon leaves every other Lexicon's state untouched *)
Theorem frame : forall w i r j, j <> i -> fst (w_step w (i, r)) j = w j.
Proof.
  intros w i r j H. unfold w_step. cbn [fst snd]. destruct (step (w i) r). cbn [fst].
  destruct (Nat.eqb_spec j i); [contradiction|reflexivity].
Qed.
End World.
