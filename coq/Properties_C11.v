(* Properties_C11.v — C11: qualified types are in normal form. *)
From Coq Require Import List ZArith NArith String Bool.
From IprV Require Import GenTypes Arena Lexicon LexiconProofs LexInst.
Import ListNotations.

(* asking for an empty qualifier set is refused, in every state *)
Theorem c11_qualified_never_empty : forall m t, Step m (RQualified 0 t) = (m, None).
Proof. exact (qualified_never_empty known_words builtin_words ix_default ix_this ix_C ix_Cxx builtin_void). Qed.

(* the invariant "every Qualified entry has a non-empty set over an earlier,
   unqualified operand" is preserved by every well-scoped request *)
Theorem c11_invariant_preserved : forall m r, AOk m -> QInv m -> scoped m r -> QInv (fst (Step m r)).
Proof. exact (step_QInv known_words builtin_words ix_default ix_this ix_C ix_Cxx builtin_void). Qed.

Theorem c11_invariant_for_histories : forall rs,
  scoped_run known_words builtin_words ix_default ix_this ix_C ix_Cxx builtin_void [] rs ->
  let M := fst (run known_words builtin_words ix_default ix_this ix_C ix_Cxx builtin_void key_eqb [] rs) in
  AOk M /\ QInv M.
Proof.
  intros rs H.
  destruct (run_invariants known_words builtin_words ix_default ix_this ix_C ix_Cxx builtin_void rs [] AOk_nil QInv_nil H) as (A & Q & _).
  split; assumption.
Qed.

(* hence: the main variant of a qualified node is never itself qualified and
   its qualifier set is never empty *)
Theorem c11_main_variant_unqualified : forall m i q t, AOk m -> QInv m ->
  nth_error m i = Some (KQual q t, i) -> q <> 0%N /\ unqualified m t.
Proof. exact main_variant_unqualified. Qed.

(* qualifying an already-qualified type yields the node for the union of both
   sets over the innermost unqualified type *)
Theorem c11_qualify_qualified : forall m q q' t t', q <> 0%N -> key_of m t = Some (KQual q' t') ->
  FinalKey m (RQualified q t) = Some (inr (KQual (N.lor q q') t')).
Proof. exact (qualify_qualified known_words builtin_words ix_default ix_this ix_C ix_Cxx builtin_void). Qed.

(* so the result is independent of order and grouping: any two non-empty
   sequences of non-empty sets with the same union, applied to the same
   unqualified type, end in the very same node — whatever is built between *)
Theorem c11_qualification_order_irrelevant : forall m t qs qs' m1,
  AOk m -> unqualified m t -> (forall j, t = Dyn j -> (j < List.length m)%nat) ->
  Forall (fun q => q <> 0%N) qs -> Forall (fun q => q <> 0%N) qs' -> qs <> [] -> qs' <> [] ->
  fold_left (fun acc q => N.lor q acc) qs 0%N = fold_left (fun acc q => N.lor q acc) qs' 0%N ->
  AOk m1 -> extends (fst (QualifySeq m t qs)) m1 ->
  exists c, snd (QualifySeq m t qs) = Some c /\ snd (QualifySeq m1 t qs') = Some c /\
            exists q, q <> 0%N /\ key_of (fst (QualifySeq m1 t qs')) c = Some (KQual q t).
Proof. exact (qualification_order_irrelevant known_words builtin_words ix_default ix_this ix_C ix_Cxx builtin_void). Qed.

Example c11_nonvacuous :
  (* const, then volatile on the result  ==  volatile|const at once *)
  let '(m1, r1) := QualifySeq [] (Builtin 17) [1; 2]%N in
  let '(m2, r2) := QualifySeq m1 (Builtin 17) [3]%N in
  r1 = Some (Dyn 1) /\ r2 = Some (Dyn 1) /\ key_of m2 (Dyn 1) = Some (KQual 3 (Builtin 17)).
Proof. vm_compute. auto. Qed.

Print Assumptions c11_qualified_never_empty.
Print Assumptions c11_invariant_preserved.
Print Assumptions c11_invariant_for_histories.
Print Assumptions c11_main_variant_unqualified.
Print Assumptions c11_qualify_qualified.
Print Assumptions c11_qualification_order_irrelevant.
Print Assumptions c11_nonvacuous.
