(* Typing.v — C09: the type every node kind prescribes.

   [prescribed] is THE SPECIFICATION (from the property statement and the comments of
   <ipr/interface>): one typing rule per node category.  [classify] reads the rule off the
   body of a type() member function as the translator regenerates it from the CURRENT source
   (GenTypeRule.gen_type_bodies), and GenTypeRule.gen_type_class says which class's type() a
   node of each category runs.  [type_of] interprets the rules over a heap of nodes. *)
From Coq Require Import List String Bool Arith Ascii.
From IprV Require Import GenTypes Derived Schema.
Import ListNotations.
Local Open Scope string_scope.

Inductive type_rule :=
| Fixed (k : string)        (* a constant of the library: Void Bool Typename Class Union Enum Namespace *)
| Borrow (a : string)       (* the type of the sub-node read through accessor a *)
| FirstOperand              (* the first operand is the type (casts, literals) *)
| Stored                    (* given at construction / set through the typing link; not set => refused *)
| DeclType                  (* the type the declaration was entered with, shared with its redeclarations *)
| Members                   (* the product of the CURRENT members' types, in order *)
| NoRule (why : string).

Definition rule_eqb (a b : type_rule) : bool :=
  match a, b with
  | Fixed x, Fixed y => streq x y | Borrow x, Borrow y => streq x y
  | FirstOperand, FirstOperand | Stored, Stored | DeclType, DeclType | Members, Members => true
  | _, _ => false
  end.

(* "Basic_binary::second" -> "second" *)
Definition last_name (q : string) : string := last_component 0 q "".

Fixpoint drop_prefix (p s : string) : string :=
  match p, s with
  | EmptyString, _ => s
  | String a p', String b s' => if Ascii.eqb a b then drop_prefix p' s' else s
  | _, EmptyString => s
  end.

Definition is_type_call (callee : string) : bool := streq (last_name callee) "type".

(* this->a.b.c : a path of data members starting at the object itself *)
Fixpoint member_path (e : cexpr) : bool :=
  match e with
  | CThis => true
  | CField _ r => member_path r
  | _ => false
  end.

Definition classify (e : cexpr) : type_rule :=
  match e with
  | CCall callee recv args =>
      if streq callee "::builtin" then
        match args with [CUnknown r] => Fixed (drop_prefix "ref:" r) | _ => NoRule "builtin" end
      else if streq callee "::typename_type" then Fixed "Typename"
      else if is_type_call callee then
        match recv with
        | CCall acc CThis [] => Borrow (last_name acc)
        | CCall g (CCall acc CThis []) [] => if streq g "Optional::get" then Borrow (last_name acc) else NoRule "borrow"
        | CField f CThis => Borrow f
        | CField f (CField g CThis) => if streq f "scope" && streq g "parms" then Members else NoRule "borrow-field"
        | _ => NoRule "borrow-shape"
        end
      else if (streq callee "Optional::get" || streq callee "util::ref::get") then
        match recv with CField f CThis => if streq f "typing" then Stored else NoRule "get" | _ => NoRule "get-shape" end
      else NoRule "call"
  | CField f CThis =>
      if streq f "typing" || streq f "base" then Stored
      else if streq f "decls" || streq f "seq" then Members
      else NoRule "field"
  | CField f (CField g CThis) => if streq f "first" && streq g "rep" then FirstOperand else NoRule "field2"
  | CField f (CField g (CField h CThis)) =>
      if streq f "type" && streq g "master_data" && streq h "decl_data" then DeclType
      else if streq f "decls" && member_path (CField g (CField h CThis)) then Members      (* the typed sequence of a member scope, named directly *)
      else NoRule "field3"
  | _ => NoRule "shape"
  end.

(* ---- the specification ---- *)
Definition stored_categories : list string :=
  ["Overload"; "Phantom"; "Eclipsis"; "Symbol"; "Address"; "Array_delete"; "Complement"; "Delete"; "Demotion"; "Deref";
   "Alignof"; "Sizeof"; "Typeid"; "Id_expr"; "Label"; "Materialization"; "Not"; "Enclosure"; "Post_decrement";
   "Post_increment"; "Pre_decrement"; "Pre_increment"; "Promotion"; "Read"; "Throw"; "Unary_minus"; "Unary_plus";
   "Expansion"; "Noexcept"; "Args_cardinality"; "Scope_ref"; "Plus"; "Plus_assign"; "And"; "Array_ref"; "Arrow";
   "Arrow_star"; "Assign"; "Bitand"; "Bitand_assign"; "Bitor"; "Bitor_assign"; "Bitxor"; "Bitxor_assign"; "Call";
   "Coercion"; "Comma"; "Construction"; "Div"; "Div_assign"; "Dot"; "Dot_star"; "Equal"; "Greater"; "Greater_equal";
   "Less"; "Less_equal"; "Lshift"; "Lshift_assign"; "Mapping"; "Member_init"; "Modulo"; "Modulo_assign"; "Mul";
   "Mul_assign"; "Narrow"; "Not_equal"; "Or"; "Pretend"; "Qualification"; "Rshift"; "Rshift_assign"; "Widen"; "Minus";
   "Minus_assign"; "Binary_fold"; "New"; "Conditional"; "Specifiers_spread"; "Structured_binding"; "Using_declaration";
   "Using_directive"; "Pragma"; "Block"; "Ctor_body"; "If"; "Return"; "Lambda"; "Base_type"; "Enumerator"; "Parameter";
   "EH_parameter"].

Definition prescribed : list (string * type_rule) :=
  (* fixed by the kind *)
  [("Break", Fixed "Void"); ("Continue", Fixed "Void"); ("Asm", Fixed "Void");
   ("Static_assert", Fixed "Bool"); ("Requires", Fixed "Bool"); ("Restriction", Fixed "Bool");
   ("Class", Fixed "Class"); ("Closure", Fixed "Class"); ("Union", Fixed "Union"); ("Enum", Fixed "Enum");
   ("Namespace", Fixed "Namespace");
   ("Array", Fixed "Typename"); ("Decltype", Fixed "Typename"); ("As_type", Fixed "Typename"); ("Tor", Fixed "Typename");
   ("Function", Fixed "Typename"); ("Pointer", Fixed "Typename"); ("Ptr_to_member", Fixed "Typename");
   ("Product", Fixed "Typename"); ("Qualified", Fixed "Typename"); ("Reference", Fixed "Typename");
   ("Rvalue_reference", Fixed "Typename"); ("Sum", Fixed "Typename"); ("Forall", Fixed "Typename"); ("Auto", Fixed "Typename");
   (* borrowed *)
   ("Cast", FirstOperand); ("Const_cast", FirstOperand); ("Dynamic_cast", FirstOperand); ("Reinterpret_cast", FirstOperand);
   ("Static_cast", FirstOperand); ("Literal", FirstOperand);
   ("Rewrite", Borrow "target"); ("Where", Borrow "main"); ("Expr_stmt", Borrow "expr"); ("Labeled_stmt", Borrow "stmt");
   ("Goto", Borrow "target"); ("Do", Borrow "body"); ("While", Borrow "body"); ("Switch", Borrow "body");
   ("For", Borrow "body"); ("For_in", Borrow "body"); ("Handler", Borrow "body"); ("Phased_evaluation", Borrow "expression");
   ("Instantiation", Borrow "instance");
   (* sequences *)
   ("Scope", Members); ("Parameter_list", Members); ("Expr_list", Members);
   (* declarations entered in a scope *)
   ("Alias", DeclType); ("Field", DeclType); ("Bitfield", DeclType); ("Fundecl", DeclType); ("Template", DeclType);
   ("Typedecl", DeclType); ("Var", DeclType)]
  ++ map (fun c => (c, Stored)) stored_categories.

(* further implementation classes of a category that the factories also use *)
Definition extra_classes : list (string * string) :=
  [("As_type", "impl::As_type_with_transfer"); ("As_type", "impl::symbolic_type"); ("Function", "impl::Function_with_transfer");
   ("Scope", "impl::homogeneous_scope")].

Section Source.
Variable derived : list (string * (nat * cexpr)).
Variable type_bodies : list (string * cexpr).
Variable type_class : list (string * string).

(* two accessor names denote the same slot of a node of category [cat] under the current header *)
(* data members that an interface accessor returns as is (read from <ipr/impl>; modelled) *)
Definition member_accessor : list (string * (string * string)) := [("Handler", ("block", "body"))].
Definition same_accessor (cat a b : string) : bool :=
  streq a b ||
  existsb (fun r => streq (fst r) cat && ((streq (fst (snd r)) a && streq (snd (snd r)) b) || (streq (fst (snd r)) b && streq (snd (snd r)) a))) member_accessor ||
  match alias_target derived cat a with Some q => streq q b | None => false end ||
  match alias_target derived cat b with Some q => streq q a | None => false end.

Definition rule_agrees (cat : string) (want got : type_rule) : bool :=
  match want, got with
  | Borrow a, Borrow b => same_accessor cat a b
  | _, _ => rule_eqb want got
  end.

Definition source_rule_of_class (cls : string) : type_rule :=
  match Schema.lookup cls type_bodies with Some b => classify b | None => NoRule "no-body" end.

Definition source_rule (cat : string) : type_rule :=
  match Schema.lookup cat type_class with
  | Some cls => source_rule_of_class cls
  | None => NoRule "no-class"
  end.

Definition category_ok (r : string * type_rule) : bool := rule_agrees (fst r) (snd r) (source_rule (fst r)).
Definition extra_ok (r : string * string) : bool :=
  match Schema.lookup (fst r) prescribed with
  | Some want => rule_agrees (fst r) want (source_rule_of_class (snd r))
  | None => false
  end.

(* every class that defines type() is accounted for: it is the class of some prescribed category, an extra class,
   or one of the helper classes listed here (overload-set and scope plumbing that is not a node category of its own) *)
Definition helper_classes : list string :=
  ["impl::singleton_overload";      (* overload-set plumbing of homogeneous scopes *)
   "impl::Nullptr"].                (* the class of the Lexicon's nullptr constant (a Symbol; C13 speaks of its type) *)
Definition class_accounted (r : string * cexpr) : bool :=
  existsb (fun c => match Schema.lookup (fst c) type_class with Some cls => streq cls (fst r) | None => false end) prescribed ||
  existsb (fun x => streq (snd x) (fst r)) extra_classes || str_mem (fst r) helper_classes.
End Source.

(* ---- interpretation over a heap of nodes ---- *)
Inductive tval := TBuiltin (k : string) | TNode (id : nat) | TProduct (l : list tval) | TRefused.

Record tnode := {
  t_cat : string;
  t_slots : list (string * nat);      (* accessor -> node *)
  t_typing : option nat;              (* the typing link *)
  t_members : list nat                (* current members of a sequence node *)
}.

Section Interp.
Variable rule_of : string -> type_rule.

Fixpoint type_of (fuel : nat) (h : list tnode) (n : nat) : tval :=
  match fuel with
  | O => TRefused
  | S f =>
    match nth_error h n with
    | None => TRefused
    | Some x =>
      match rule_of (t_cat x) with
      | Fixed k => TBuiltin k
      | Borrow a => match Schema.lookup a (t_slots x) with Some m => type_of f h m | None => TRefused end
      | FirstOperand => match Schema.lookup "first" (t_slots x) with Some m => TNode m | None => TRefused end
      | Stored | DeclType => match t_typing x with Some t => TNode t | None => TRefused end
      | Members => TProduct (map (type_of f h) (t_members x))
      | NoRule _ => TRefused
      end
    end
  end.

End Interp.

(* a sequence node gains a member at its end *)
Definition with_member (x : tnode) (m : nat) : tnode :=
  {| t_cat := t_cat x; t_slots := t_slots x; t_typing := t_typing x; t_members := t_members x ++ [m] |}.
Fixpoint add_member (h : list tnode) (n m : nat) : list tnode :=
  match h, n with
  | [], _ => []
  | x :: h', O => with_member x m :: h'
  | x :: h', S n' => x :: add_member h' n' m
  end.
