(* Properties_C14.v — C14: missing or out-of-range data raises a logic error, never
   undefined behaviour.

   The first two theorems are obligations on tables regenerated from the CURRENT source
   (GenAccess): every get(Index) of a Sequence implementation guards its index, and no const
   member function dereferences a pointer that is neither tested by util::check nor in the
   explicit list [Access.allowed_raw] of pointers that are non-null by construction.  The
   others are about the outcome algebra for every state and every index. *)
From Coq Require Import List String Bool Arith Lia.
From IprV Require Import GenTypes Access.
From IprV.gen Require Import GenAccess.
Import ListNotations.
Local Open Scope string_scope.

Lemma every_sequence_guards_its_index : forallb (fun r => bounds_checked_by (snd r)) gen_seq_gets = true.
Proof. vm_compute. reflexivity. Qed.

Lemma no_unchecked_dereference : forallb site_ok gen_raw_derefs = true.
Proof. vm_compute. reflexivity. Qed.

(* the sequence implementations the source has today, with the discipline read off their bodies *)
Definition discipline_of (cls : string) : option seq_impl :=
  match List.find (fun r => streq (fst r) cls) gen_seq_gets with
  | Some r => Some {| bounds_checked := bounds_checked_by (snd r);
                      null_checked := forallb site_ok (filter (fun d => streq (fst d) (cls ++ "::get")) gen_raw_derefs) |}
  | None => None
  end.

Lemma current_sequences_never_ub : forall r d, In r gen_seq_gets -> discipline_of (fst r) = Some d ->
  forall slots i, seq_get d slots i <> UB.
Proof.
  assert (H : forallb (fun r => match discipline_of (fst r) with
                                | Some d => bounds_checked d && null_checked d | None => true end) gen_seq_gets = true)
    by (vm_compute; reflexivity).
  intros r d Hin Hd slots i. rewrite forallb_forall in H. specialize (H r Hin). rewrite Hd in H.
  apply andb_true_iff in H as [Hb Hn]. apply seq_get_never_ub; assumption.
Qed.

Lemma current_sequences_refuse_out_of_range : forall r d, In r gen_seq_gets -> discipline_of (fst r) = Some d ->
  forall slots i, List.length slots <= i -> seq_get d slots i = Refused.
Proof.
  assert (H : forallb (fun r => match discipline_of (fst r) with
                                | Some d => bounds_checked d | None => true end) gen_seq_gets = true)
    by (vm_compute; reflexivity).
  intros r d Hin Hd slots i Hi. rewrite forallb_forall in H. specialize (H r Hin). rewrite Hd in H.
  apply index_refused; assumption.
Qed.

(* ---- property theorems ---- *)
Theorem c14_every_sequence_guards_its_index : forallb (fun r => bounds_checked_by (snd r)) gen_seq_gets = true.
Proof. exact every_sequence_guards_its_index. Qed.
Theorem c14_no_unchecked_dereference : forallb site_ok gen_raw_derefs = true.
Proof. exact no_unchecked_dereference. Qed.
Theorem c14_current_sequences_never_ub : forall r d, In r gen_seq_gets -> discipline_of (fst r) = Some d ->
  forall slots i, seq_get d slots i <> UB.
Proof. exact current_sequences_never_ub. Qed.
Theorem c14_current_sequences_refuse_out_of_range : forall r d, In r gen_seq_gets -> discipline_of (fst r) = Some d ->
  forall slots i, List.length slots <= i -> seq_get d slots i = Refused.
Proof. exact current_sequences_refuse_out_of_range. Qed.
Theorem c14_unset_link_is_refused : forall p, p = POptional \/ p = PRef \/ p = PChecked -> read_link p None = Refused.
Proof. exact unset_is_refused. Qed.
Theorem c14_checked_links_never_ub : forall p l, p <> PRaw -> wf_link p l -> read_link p l <> UB.
Proof. exact checked_links_never_ub. Qed.
Theorem c14_iteration_agrees_with_positions : forall d slots,
  List.length (iterate d slots) = List.length slots /\
  forall i, i < List.length slots -> nth_error (iterate d slots) i = Some (seq_get d slots i).
Proof. exact iteration_agrees. Qed.
(* why the discipline matters: an unchecked read of a slot that was never filled is undefined *)
Theorem c14_unchecked_unfilled_slot_is_ub : forall d slots i, null_checked d = false -> nth_error slots i = Some None -> seq_get d slots i = UB.
Proof. exact unfilled_slot_unchecked_is_ub. Qed.

(* the premises are met: the reference sequence of today's source, with one unfilled slot *)
Example c14_example :
  match discipline_of "impl::ref_sequence" with
  | Some d => seq_get d [Some 5; None] 0 = Ok 5 /\ seq_get d [Some 5; None] 1 = Refused /\ seq_get d [Some 5; None] 2 = Refused
  | None => False
  end.
Proof. vm_compute. repeat split. Qed.

(* A refusal must be able to REACH the caller: no function of the library that is declared noexcept calls anything or throws
   (a std::logic_error raised inside a noexcept function terminates the program instead).  Table regenerated from the source. *)
Theorem c14_refusals_can_propagate : gen_noexcept_refusing = [].
Proof. reflexivity. Qed.

(* The library swallows no exception: every catch clause in it ends by throwing again (table regenerated from the source; at the
   time of writing the library has no catch clause at all), so a refusal raised below a catch clause still reaches the caller. *)
Theorem c14_library_swallows_no_exception :
  forallb (fun r => snd r) GenAccess.gen_catch_clauses = true.
Proof. vm_compute. reflexivity. Qed.

Print Assumptions c14_library_swallows_no_exception.
Print Assumptions c14_refusals_can_propagate.
Print Assumptions c14_every_sequence_guards_its_index.
Print Assumptions c14_no_unchecked_dereference.
Print Assumptions c14_current_sequences_never_ub.
Print Assumptions c14_current_sequences_refuse_out_of_range.
Print Assumptions c14_unset_link_is_refused.
Print Assumptions c14_checked_links_never_ub.
Print Assumptions c14_iteration_agrees_with_positions.
Print Assumptions c14_unchecked_unfilled_slot_is_ub.
Print Assumptions c14_example.
