(* Properties_C16.v — C16: substitutions behave as finite maps from parameters to expressions. *)
From Coq Require Import List PeanoNat Bool.
From IprV Require Import Subst.
Import ListNotations.

Theorem c16_elementary_apply : forall p v q,
  (q = p -> elem_apply p v q = v) /\ (q <> p -> elem_apply p v q = Param q).
Proof. exact elementary_domain. Qed.

Theorem c16_general_apply : forall bs q,
  gen_apply (build bs) q = match last_binding bs q with Some v => v | None => Param q end.
Proof. exact general_apply. Qed.

Theorem c16_general_one_binding_per_parameter : forall bs, NoDup (map fst (build bs)).
Proof. exact general_functional. Qed.

Example c16_nonvacuous :
  map (gen_apply (build [(1, Value 10); (2, Value 20); (1, Value 11)])) [1; 2; 3] = [Value 11; Value 20; Param 3] /\
  map (elem_apply 4 (Value 7)) [4; 5] = [Value 7; Param 5].
Proof. vm_compute. auto. Qed.

Print Assumptions c16_elementary_apply.
Print Assumptions c16_general_apply.
Print Assumptions c16_general_one_binding_per_parameter.
Print Assumptions c16_nonvacuous.
