(* Properties_C16.v — C16: substitutions behave as finite maps from parameters to expressions. *)
From Coq Require Import List PeanoNat Bool String.
From IprV Require Import GenTypes Derived GenDerived Subst SubstSource.
From IprV Require StateSpace.
Import ListNotations.

Theorem c16_elementary_apply : forall p v q,
  (q = p -> elem_apply p v q = v) /\ (q <> p -> elem_apply p v q = Param q).
Proof. exact elementary_domain. Qed.

(* the same, about the member function's body and the constructor's initialisers as they stand in <ipr/impl>
   (GenDerived is regenerated from the source on every run): for every interpretation of the object's members that
   the constructor can leave behind, every parameter and every amount of evaluation fuel beyond 12 *)
Theorem c16_elementary_source_denotes : forall (I : interp) fuel s p v q,
  constructed I s p v ->
  apply_source I (12 + fuel) s q = VObj (obj_of (elem_apply p (Value v) q)).
Proof. exact elementary_source_denotes. Qed.

Theorem c16_elementary_factory_forwards : elem_factory_forwards = true.
Proof. exact elem_factory_forwards_checked. Qed.

Example c16_elementary_source_nonvacuous :
  constructed demo_interp 9 4 7 /\ map (apply_source demo_interp 12 9) [4; 5] = [VObj 7; VObj 5].
Proof. exact elementary_source_example. Qed.

Theorem c16_general_apply : forall bs q,
  gen_apply (build bs) q = match last_binding bs q with Some v => v | None => Param q end.
Proof. exact general_apply. Qed.

Theorem c16_general_one_binding_per_parameter : forall bs, NoDup (map fst (build bs)).
Proof. exact general_functional. Qed.

Example c16_nonvacuous :
  map (gen_apply (build [(1, Value 10); (2, Value 20); (1, Value 11)])) [1; 2; 3] = [Value 11; Value 20; Param 3] /\
  map (elem_apply 4 (Value 7)) [4; 5] = [Value 7; Param 5].
Proof. vm_compute. auto. Qed.

(* a general substitution is its map, an elementary one its two references (StateSpace.v against the regenerated GenState) *)
Theorem c16_state_is_what_the_model_abstracts :
  StateSpace.state_as_modelled (StateSpace.substitution_state) = true.
Proof. vm_compute. reflexivity. Qed.

Print Assumptions c16_state_is_what_the_model_abstracts.
Print Assumptions c16_elementary_apply.
Print Assumptions c16_elementary_source_denotes.
Print Assumptions c16_elementary_factory_forwards.
Print Assumptions c16_elementary_source_nonvacuous.
Print Assumptions c16_general_apply.
Print Assumptions c16_general_one_binding_per_parameter.
Print Assumptions c16_nonvacuous.
