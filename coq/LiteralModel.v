(* LiteralModel.v — C18: how a literal's spelling is written (src/io.cxx, Primary_expr::visit(Literal)).
   The switch is re-translated from the source on every run (GenPrinter.gen_pr_literal); this file
   gives it a byte-level meaning and proves, for every spelling over all byte values, that the text
   written contains no control byte that the spelling does not contain, and that numbers are decimal. *)
From Coq Require Import List String Bool Arith NArith Lia.
From IprV Require Import GenTypes PrinterDispatch.
Import ListNotations.
Local Open Scope N_scope.

(* decimal digits of a byte value (what operator<<(int) writes while the stream is in decimal mode) *)
Definition digit (d : N) : N := 48 + d.
Definition decimal (n : N) : list N :=
  if n <? 10 then [digit n]
  else if n <? 100 then [digit (n / 10); digit (n mod 10)]
  else [digit (n / 100); digit ((n / 10) mod 10); digit (n mod 10)].

Section Table.
Variable table : list (list (option N) * list lit_piece).

Definition case_matches (b : N) (vals : list (option N)) : bool :=
  existsb (fun v => match v with Some x => N.eqb x b | None => false end) vals.
Definition is_default (vals : list (option N)) : bool := existsb (fun v => match v with None => true | Some _ => false end) vals.

Definition pieces_for (b : N) : option (list lit_piece) :=
  match List.find (fun r => case_matches b (fst r)) table with
  | Some r => Some (snd r)
  | None => option_map snd (List.find (fun r => is_default (fst r)) table)
  end.

(* None: the case contains something without a byte-level meaning here (a manipulator, an unread construct) *)
Fixpoint render (b : N) (ps : list lit_piece) : option (list N) :=
  match ps with
  | [] => Some []
  | p :: r =>
      match render b r with
      | None => None
      | Some rest =>
          match p with
          | LStr bs => Some (bs ++ rest)%list
          | LRaw => Some (b :: rest)
          | LNum => Some (decimal b ++ rest)%list
          | LManip _ | LOther _ => None
          end
      end
  end.

Definition escape_byte (b : N) : option (list N) :=
  match pieces_for b with Some ps => render b ps | None => None end.

Fixpoint escape (s : list N) : option (list N) :=
  match s with
  | [] => Some []
  | b :: r => match escape_byte b, escape r with
              | Some x, Some y => Some (x ++ y)%list
              | _, _ => None
              end
  end.

(* the check over all 256 byte values: the case is readable, and every control byte it writes is the byte itself *)
Definition byte_ok (b : N) : bool :=
  match escape_byte b with
  | Some out => forallb (fun x => (32 <=? x) || (x =? b)) out
  | None => false
  end.
Definition all_bytes : list N := map N.of_nat (seq 0 256).
Definition table_ok : bool := forallb byte_ok all_bytes.

Lemma in_all_bytes : forall b, b < 256 -> In b all_bytes.
Proof.
  intros b H. unfold all_bytes. apply in_map_iff. exists (N.to_nat b). split; [apply N2Nat.id|].
  apply in_seq. lia.
Qed.

(* for EVERY spelling over bytes: printing is defined, and any control byte written occurs in the spelling *)
Theorem escape_writes_no_new_control_byte : table_ok = true ->
  forall s, (forall b, In b s -> b < 256) ->
  exists out, escape s = Some out /\ forall x, In x out -> x < 32 -> In x s.
Proof.
  intros Hok. induction s as [|b r IH]; intros Hs.
  - exists []. split; [reflexivity|]. intros x [].
  - assert (Hb : b < 256) by (apply Hs; left; reflexivity).
    unfold table_ok in Hok. rewrite forallb_forall in Hok. specialize (Hok b (in_all_bytes b Hb)).
    unfold byte_ok in Hok. destruct (escape_byte b) as [ob|] eqn:Eb; [|discriminate].
    destruct (IH (fun x Hx => Hs x (or_intror Hx))) as (orest & Er & Hr).
    exists (ob ++ orest)%list. split; [simpl; rewrite Eb, Er; reflexivity|].
    intros x Hx Hlt. apply in_app_or in Hx as [Hx|Hx].
    + rewrite forallb_forall in Hok. specialize (Hok x Hx). apply orb_true_iff in Hok as [H|H].
      * apply N.leb_le in H. lia.
      * apply N.eqb_eq in H. subst. left. reflexivity.
    + right. apply Hr; assumption.
Qed.
End Table.

(* decimal really is decimal: the digits are '0'..'9' and denote the value *)
Lemma digit_range : forall x, x < 10 -> 48 <= 48 + x <= 57.
Proof. intros. lia. Qed.
Lemma decimal_digits : forall n, n < 256 -> forall d, In d (decimal n) -> 48 <= d <= 57.
Proof.
  intros n Hn d Hd. unfold decimal, digit in Hd.
  destruct (n <? 10) eqn:E1; [apply N.ltb_lt in E1; destruct Hd as [<-|[]]; apply digit_range; exact E1|].
  destruct (n <? 100) eqn:E2.
  - apply N.ltb_lt in E2. apply N.ltb_ge in E1.
    assert (n / 10 < 10) by (apply N.div_lt_upper_bound; lia).
    assert (n mod 10 < 10) by (apply N.mod_lt; lia).
    destruct Hd as [<-|[<-|[]]]; apply digit_range; assumption.
  - apply N.ltb_ge in E2.
    assert (n / 100 < 10) by (apply N.div_lt_upper_bound; lia).
    assert ((n / 10) mod 10 < 10) by (apply N.mod_lt; lia).
    assert (n mod 10 < 10) by (apply N.mod_lt; lia).
    destruct Hd as [<-|[<-|[<-|[]]]]; apply digit_range; assumption.
Qed.

Definition value_of (ds : list N) : N := fold_left (fun acc d => acc * 10 + (d - 48)) ds 0.
Lemma decimal_value : forallb (fun n => N.eqb (value_of (decimal n)) n) (map N.of_nat (seq 0 256)) = true.
Proof. vm_compute. reflexivity. Qed.
