(* LexInst.v — the unification model instantiated at the tables regenerated
   from the current source (reserved words, built-in rows). *)
From Coq Require Import List ZArith NArith String Bool.
From IprV Require Import GenTypes Arena ArenaProofs Lexicon LexiconProofs.
From IprV.gen Require Import GenWords.
Import ListNotations.

Definition known_words : list word := map bytes_of_string gen_known_words.
Definition ix_of (w : string) : nat := match str_index w gen_known_words with Some i => i | None => 0 end.
Definition builtin_words : list nat := map ix_of gen_builtins.
Definition builtin_void : nat := match str_index "Void"%string gen_fundamental with Some i => i | None => 0 end.
Definition ix_default := ix_of "default". Definition ix_this := ix_of "this".
Definition ix_C := ix_of "C". Definition ix_Cxx := ix_of "C++".

Notation Norm := (norm known_words builtin_words ix_default ix_this ix_C ix_Cxx builtin_void).
Notation Step := (step known_words builtin_words ix_default ix_this ix_C ix_Cxx builtin_void key_eqb).
Notation FinalKey := (final_key known_words builtin_words ix_default ix_this ix_C ix_Cxx builtin_void key_eqb).
Notation Trace := (trace known_words builtin_words ix_default ix_this ix_C ix_Cxx builtin_void).
Notation QualifySeq := (qualify_seq known_words builtin_words ix_default ix_this ix_C ix_Cxx builtin_void).

Definition row_of (fundamental : string) : nat :=
  match str_index fundamental gen_fundamental with Some i => i | None => 0 end.
