(* Lexicon.v — executable model of node unification in impl::Lexicon
   (type_factory, name_factory, expr_factory get_* functions; src/impl.cxx
   1004-1358, 1662-1779, 2136-2145, 2265-2269), at the level of finite maps.

   A node identity is either one of the process-wide constants or [Dyn i], the
   i-th node created by a unifying request of this Lexicon, or [Ext i], a node
   the client built with a generative factory and passes as an operand
   (opaque).  [norm] performs exactly the collapses the code performs before
   it looks a table up; the tables themselves are one association list keyed
   by [key] (one constructor per table, so distinct tables never clash).
   That a red-black table with the code's comparators behaves like this
   association list is Unify.v + LexTables.v.

   Definitions only; proofs in LexiconProofs.v. *)
From Coq Require Import List ZArith NArith Bool.
From IprV Require Import Arena.
Import ListNotations.

Inductive nid :=
| Builtin (k : nat)            (* builtins[k], a row of builtin.def *)
| SymConst (c : nat)           (* 0 false, 1 true, 2 nullptr, 3 default, 4 delete *)
| NullType                     (* decltype(nullptr), the type of nullptr *)
| WordId (k : nat)             (* reserved word k as Identifier and Logogram (std_identifier) *)
| StrEmpty | StrKnown (k : nat)
| InvisibleLogo | NaturalCC | CLink | CxxLink | NaturalXfer
| Ext (i : nat)
| Dyn (i : nat).

Inductive ctor1 := CPointer | CReference | CRvalueRef | CAsType | CExtended
                 | COperator | CSuffix | CConversion | CCtorName | CDtorName | CGuideName
                 | CIdentifier | CLogogram | CLinkage | CConvention.
Inductive ctor2 := CArray | CTor | CPtrToMember | CForall | CSymbol | CLiteral | CTemplateId.
Inductive ctorS := CProduct | CSum | CTypeSeq.

(* a transfer as the comparators see it: the spellings of linkage and convention *)
Definition xval := (word * word)%type.

Inductive key :=
| K1 (c : ctor1) (a : nid)
| K2 (c : ctor2) (a b : nid)
| KQual (q : N) (t : nid)
| KFun (s t e : nid)
| KFunX (s t e : nid) (x : xval)
| KAsX (e : nid) (x : xval)
| KSeq (c : ctorS) (ts : list nid)
| KStr (w : word)
(* transfers are keyed by the spellings of their parts (the comparators compare contents) *)
| KXferL (lw : word) | KXferC (cw : word) | KXfer (lw cw : word).

Inductive request :=
(* types *)
| RPointer (t : nid) | RReference (t : nid) | RRvalueRef (t : nid)
| RArray (t b : nid) | RQualified (q : N) (t : nid)
| RFunction (s t : nid) (e : option nid) (x : option nid)      (* x: a transfer node *)
| RProduct (ts : list nid) | RSum (ts : list nid)
| RProductW (ts : list nid) | RSumW (ts : list nid)            (* through a Warehouse *)
| RForall (s t : nid) | RPtrToMember (c t : nid) | RTor (s e : nid)
| RAsType (e : nid) (x : option nid) | RAsTypeId (i : nid)
| RTransfer (l c : nid) | RTransferL (l : nid) | RTransferC (c : nid)
(* names *)
| RString (w : word) | RIdentifier (s : nid) | ROperator (s : nid) | RSuffix (i : nid)
| RConversion (t : nid) | RCtorName (t : nid) | RDtorName (t : nid) | RGuideName (m : nid)
| RTemplateId (e l : nid) | RLogogram (s : nid)
(* atoms *)
| RSymbol (n t : nid) | RLabel (i : nid) | RThis (t : nid) | RLiteral (t s : nid)
| RLinkage (s : nid) | RConvention (s : nid)
| RDecltypeNull.                                                (* get_decltype(nullptr_value()) *)

Inductive normal := NConst (n : nid) | NKey (k : key) | NKey2 (k1 : key) (mk : nid -> key) | NRefused.

Section Lex.
Variable known : list word.            (* the reserved-word table *)
Variable builtin_words : list nat.     (* for each builtin k, the index of its name in [known] *)
Variable ix_default ix_this ix_C ix_Cxx : nat.   (* indices of those words in [known] *)
Variable builtin_void : nat.           (* the row of `void` in builtins *)

Definition table := list (key * nat).

Definition key_of (m : table) (n : nid) : option key :=
  match n with Dyn i => option_map fst (nth_error m i) | _ => None end.

(* the spelling of a String node *)
Definition str_word (m : table) (s : nid) : option word :=
  match s with
  | StrEmpty => Some []
  | StrKnown k => nth_error known k
  | Dyn _ => match key_of m s with Some (KStr w) => Some w | _ => None end
  | _ => None
  end.

(* the String under a Logogram / the Logogram under a Linkage or Calling_convention *)
Definition logo_string (m : table) (l : nid) : option nid :=
  match l with
  | InvisibleLogo => Some StrEmpty
  | WordId k => Some (StrKnown k)
  | Dyn _ => match key_of m l with Some (K1 CLogogram s) => Some s | _ => None end
  | _ => None
  end.
Definition linkage_logo (m : table) (l : nid) : option nid :=
  match l with
  | CLink => Some (WordId ix_C) | CxxLink => Some (WordId ix_Cxx)
  | Dyn _ => match key_of m l with Some (K1 CLinkage g) => Some g | _ => None end
  | _ => None
  end.
Definition cc_logo (m : table) (c : nid) : option nid :=
  match c with
  | NaturalCC => Some InvisibleLogo
  | Dyn _ => match key_of m c with Some (K1 CConvention g) => Some g | _ => None end
  | _ => None
  end.
Definition spelled (m : table) (logo : option nid) : option word :=
  match logo with Some g => match logo_string m g with Some s => str_word m s | None => None end | None => None end.
Definition linkage_word m l := spelled m (linkage_logo m l).
Definition cc_word m c := spelled m (cc_logo m c).

Definition words_eqb (a b : word) : bool := word_eqb a b.
Definition cxx_word : word := nth ix_Cxx known [].

(* the value of a transfer node: (linkage spelling, convention spelling) *)
Definition xfer_val (m : table) (x : nid) : option xval :=
  match x with
  | NaturalXfer => Some (cxx_word, [])
  | Dyn _ => match key_of m x with
             | Some (KXfer lw cw) => Some (lw, cw)
             | Some (KXferL lw) => Some (lw, [])
             | Some (KXferC cw) => Some (cxx_word, cw)
             | _ => None
             end
  | _ => None
  end.
(* Transfer::operator== against cxx_transfer(): value equality of the spellings *)
Definition is_natural (v : xval) : bool := words_eqb (fst v) cxx_word && words_eqb (snd v) [].

Definition builtin_of_word (k : nat) : option nat :=
  (fix go (l : list nat) (i : nat) : option nat :=
     match l with [] => None | w :: l' => if Nat.eqb w k then Some i else go l' (S i) end) builtin_words 0.

(* what a request is looked up as *)
Definition norm (m : table) (r : request) : normal :=
  match r with
  | RPointer t => NKey (K1 CPointer t)
  | RReference t => NKey (K1 CReference t)
  | RRvalueRef t => NKey (K1 CRvalueRef t)
  | RArray t b => NKey (K2 CArray t b)
  | RQualified q t =>
      if N.eqb q 0 then NRefused
      else match key_of m t with
           | Some (KQual q' t') => NKey (KQual (N.lor q q') t')       (* normal form: flatten *)
           | _ => NKey (KQual q t)
           end
  | RFunction s t e x =>
      let e' := match e with Some e => e | None => SymConst 0 end in   (* default: noexcept(false) *)
      match x with
      | None => NKey (KFun s t e')
      | Some x => match xfer_val m x with
                  | Some v => if is_natural v then NKey (KFun s t e') else NKey (KFunX s t e' v)
                  | None => NRefused
                  end
      end
  | RProduct ts => NKey (KSeq CProduct ts)
  | RSum ts => NKey (KSeq CSum ts)
  | RProductW ts => NKey2 (KSeq CTypeSeq ts) (fun _ => KSeq CProduct ts)
  | RSumW ts => NKey2 (KSeq CTypeSeq ts) (fun _ => KSeq CSum ts)
  | RForall s t => NKey (K2 CForall s t)
  | RPtrToMember c t => NKey (K2 CPtrToMember c t)
  | RTor s e => NKey (K2 CTor s e)
  | RAsType e x =>
      match x with
      | None => NKey (K1 CAsType e)
      | Some x => match xfer_val m x with
                  | Some v => if is_natural v then NKey (K1 CAsType e) else NKey (KAsX e v)
                  | None => NRefused
                  end
      end
  | RAsTypeId i =>
      match i with
      | WordId k => match builtin_of_word k with Some b => NConst (Builtin b) | None => NKey (K1 CExtended i) end
      | _ => NKey (K1 CExtended i)
      end
  | RTransfer l c =>
      match linkage_word m l, cc_word m c with
      | Some lw, Some cw =>
          if words_eqb lw cxx_word then NKey (KXferC cw)
          else if words_eqb cw [] then NKey (KXferL lw)
          else NKey (KXfer lw cw)
      | _, _ => NRefused
      end
  | RTransferL l => match linkage_word m l with Some lw => NKey (KXferL lw) | None => NRefused end
  | RTransferC c => match cc_word m c with Some cw => NKey (KXferC cw) | None => NRefused end
  | RString w =>
      match w with
      | [] => NConst StrEmpty
      | _ => match word_if_known known w with Some k => NConst (StrKnown k) | None => NKey (KStr w) end
      end
  | RIdentifier s => match s with StrKnown k => NConst (WordId k) | _ => NKey (K1 CIdentifier s) end
  | ROperator s => NKey (K1 COperator s)
  | RSuffix i => NKey (K1 CSuffix i)
  | RConversion t => NKey (K1 CConversion t)
  | RCtorName t => NKey (K1 CCtorName t)
  | RDtorName t => NKey (K1 CDtorName t)
  | RGuideName t => NKey (K1 CGuideName t)
  | RTemplateId e l => NKey (K2 CTemplateId e l)
  | RLogogram s =>
      match s with
      | StrEmpty => NConst InvisibleLogo
      | StrKnown k => NConst (WordId k)
      | _ => NKey (K1 CLogogram s)
      end
  | RSymbol n t => NKey (K2 CSymbol n t)
  | RLabel i =>
      match i with
      | WordId k => if Nat.eqb k ix_default then NConst (SymConst 3) else NKey (K2 CSymbol i (Builtin builtin_void))
      | _ => NKey (K2 CSymbol i (Builtin builtin_void))
      end
  | RThis t => NKey (K2 CSymbol (WordId ix_this) t)
  | RLiteral t s => NKey (K2 CLiteral t s)
  | RLinkage s =>
      match s with
      | StrKnown k => if Nat.eqb k ix_C then NConst CLink else if Nat.eqb k ix_Cxx then NConst CxxLink
                      else NKey (K1 CLinkage (WordId k))
      | StrEmpty => NKey (K1 CLinkage InvisibleLogo)
      | _ => NKey2 (K1 CLogogram s) (fun g => K1 CLinkage g)
      end
  | RConvention s =>
      match s with
      | StrKnown k => NKey (K1 CConvention (WordId k))
      | StrEmpty => NKey (K1 CConvention InvisibleLogo)
      | _ => NKey2 (K1 CLogogram s) (fun g => K1 CConvention g)
      end
  | RDecltypeNull => NConst NullType
  end.

Variable key_eqb : key -> key -> bool.

(* insert-or-find in the association list *)
Definition aget (m : table) (k : key) : table * nat :=
  match List.find (fun e => key_eqb (fst e) k) m with
  | Some e => (m, snd e)
  | None => (m ++ [(k, length m)], length m)
  end.

Definition step (m : table) (r : request) : table * option nid :=
  match norm m r with
  | NConst n => (m, Some n)
  | NKey k => let '(m', i) := aget m k in (m', Some (Dyn i))
  | NKey2 k1 mk => let '(m1, i1) := aget m k1 in
                   let '(m2, i2) := aget m1 (mk (Dyn i1)) in (m2, Some (Dyn i2))
  | NRefused => (m, None)
  end.

Fixpoint run (m : table) (rs : list request) : table * list (option nid) :=
  match rs with
  | [] => (m, [])
  | r :: rs' => let '(m1, o) := step m r in let '(m2, os) := run m1 rs' in (m2, o :: os)
  end.

(* the final key a request stands for (after its auxiliary lookup, if any) *)
Definition final_key (m : table) (r : request) : option (nid + key) :=
  match norm m r with
  | NConst n => Some (inl n)
  | NKey k => Some (inr k)
  | NKey2 k1 mk => Some (inr (mk (Dyn (snd (aget m k1)))))
  | NRefused => None
  end.
End Lex.
