(* ArenaProofs.v — proofs about the arena and string-pool model (C03, and the
   allocation accounting used by C19). *)
From Coq Require Import List ZArith NArith Bool Lia PeanoNat Permutation FMapFacts.
From IprV Require Import Arena.
Import ListNotations.
Local Open Scope Z_scope.
Ltac Zify.zify_post_hook ::= Z.div_mod_to_equations.

(* ------------------------------------------------------------------ *)
(* 1. granule arithmetic                                                *)
(* ------------------------------------------------------------------ *)
Lemma headers_enough : forall n, 0 <= n -> padding + n <= headersz * headers_for n.
Proof. intros; unfold headers_for, headersz, padding in *; lia. Qed.

Lemma headers_pos : forall n, 0 <= n -> 1 <= headers_for n.
Proof. intros; unfold headers_for, headersz, padding in *; lia. Qed.

Lemma fresh_pool_fits : forall n, 0 <= n <= bufsz -> headers_for n <= bufsz.
Proof. intros; unfold headers_for, headersz, padding, bufsz in *; lia. Qed.

Lemma oversize_fits : forall n, bufsz < n -> padding + n <= headersz * bufsz + (n - bufsz).
Proof. intros; unfold headersz, padding, bufsz in *; lia. Qed.

(* ------------------------------------------------------------------ *)
(* 2. arena invariant                                                   *)
(* ------------------------------------------------------------------ *)
Definition cap_of (a : arena) (p : nat) : Z := nth p (a_caps a) 0.

Definition block_ok (a : arena) (b : block) : Prop :=
  (b_pool b < a_npools a)%nat /\ 0 <= b_off b /\ 0 <= b_bytes b /\ b_len b = headers_for (b_bytes b) /\
  headersz * b_off b + padding + b_bytes b <= cap_of a (b_pool b) /\
  (b_pool b = a_cur a -> b_off b + b_len b <= a_next a).

Definition disjoint (b1 b2 : block) : Prop :=
  b_pool b1 <> b_pool b2 \/ b_off b1 + b_len b1 <= b_off b2 \/ b_off b2 + b_len b2 <= b_off b1.

Fixpoint NoOverlap (l : list block) : Prop :=
  match l with [] => True | b :: l' => Forall (disjoint b) l' /\ NoOverlap l' end.

Record AInv (a : arena) : Prop := {
  inv_next : 0 <= a_next a <= bufsz;
  inv_caps : length (a_caps a) = a_npools a;
  inv_cur : (a_cur a < a_npools a)%nat;
  inv_curcap : cap_of a (a_cur a) = headersz * bufsz;
  inv_blocks : Forall (block_ok a) (a_blocks a);
  inv_disj : NoOverlap (a_blocks a);
  inv_chain_hd : exists rest, a_chain a = a_cur a :: rest;
  inv_chain : Permutation (a_chain a) (seq 0 (a_npools a))
}.

Lemma AInv_init : AInv arena_init.
Proof.
  constructor; simpl; try (unfold bufsz; lia); auto.
  - exists []; reflexivity.
Qed.

Lemma cap_of_app_old a p x : (p < length (a_caps a))%nat -> nth p (a_caps a ++ [x]) 0 = nth p (a_caps a) 0.
Proof. intros. apply app_nth1; auto. Qed.

Lemma cap_of_app_new a x : nth (length (a_caps a)) (a_caps a ++ [x]) 0 = x.
Proof. rewrite app_nth2 by lia. rewrite Nat.sub_diag. reflexivity. Qed.

Ltac simp := cbn [b_pool b_off b_len b_bytes a_npools a_caps a_cur a_next a_blocks a_chain fst snd length app].

Theorem allocate_inv : forall a n, AInv a -> 0 <= n ->
  let '(a', b, _) := allocate a n in
  AInv a' /\ a_blocks a' = b :: a_blocks a /\ block_ok a' b /\ b_bytes b = n /\
  (forall p, (p < a_npools a)%nat -> cap_of a' p = cap_of a p) /\ (a_npools a <= a_npools a')%nat.
Proof.
  intros a n I Hn. unfold allocate.
  pose proof (headers_enough n Hn) as He. pose proof (headers_pos n Hn) as Hp.
  destruct I as [Inext Icaps Icur Icurcap Iblocks Idisj [rest Ihd] Ichain].
  destruct (Z.leb_spec (headers_for n) (bufsz - a_next a)) as [Hfit|Hnofit].
  - (* fits in the current pool *)
    assert (Hbok : forall a', a_npools a' = a_npools a -> a_caps a' = a_caps a -> a_cur a' = a_cur a ->
                               a_next a' = a_next a + headers_for n -> block_ok a' {| b_pool := a_cur a; b_off := a_next a; b_len := headers_for n; b_bytes := n |}).
    { intros a' E1 E2 E3 E4.
      assert (Ec : cap_of a' (a_cur a) = headersz * bufsz) by (unfold cap_of in *; rewrite E2; exact Icurcap).
      unfold block_ok; simp. rewrite E1, E3, E4, Ec.
      repeat split; try lia. unfold headersz, padding, bufsz in *. lia. }
    split; [|split; [reflexivity|split; [apply Hbok; reflexivity|split; [reflexivity|split; [intros; reflexivity|simp; lia]]]]].
    constructor; simp; auto; try lia.
    + constructor; [apply Hbok; reflexivity|].
      rewrite Forall_forall in *. intros x Hx. specialize (Iblocks x Hx).
      unfold block_ok, cap_of in *; simp. destruct Iblocks as (H1 & H2 & H3 & H4 & H5 & H6).
      repeat split; auto. intros Hc. specialize (H6 Hc). lia.
    + split; auto. rewrite Forall_forall in *. intros x Hx. specialize (Iblocks x Hx).
      unfold disjoint; simp. destruct Iblocks as (_ & _ & _ & _ & _ & H6).
      destruct (Nat.eq_dec (b_pool x) (a_cur a)) as [E|E]; [right; right; specialize (H6 E); lia | left; congruence].
    + exists rest; auto.
  - destruct (Z.ltb_spec bufsz n) as [Hbig|Hsmall].
    + (* oversize: own pool, spliced behind the current one *)
      pose proof (oversize_fits n Hbig) as Hov.
      split; [|split; [reflexivity|split; [|split; [reflexivity|split]]]].
      * constructor; simp; auto; try lia.
        -- rewrite app_length; simp; lia.
        -- unfold cap_of; simp. rewrite cap_of_app_old by lia. exact Icurcap.
        -- constructor.
           ++ unfold block_ok, cap_of; simp. repeat split; try lia.
              rewrite <- Icaps, cap_of_app_new. lia.
           ++ rewrite Forall_forall in *. intros x Hx. specialize (Iblocks x Hx).
              unfold block_ok, cap_of in *; simp. destruct Iblocks as (H1 & H2 & H3 & H4 & H5 & H6).
              repeat split; auto; try lia. rewrite cap_of_app_old by lia. exact H5.
        -- split; auto. rewrite Forall_forall in *. intros x Hx. specialize (Iblocks x Hx).
           unfold disjoint; simp. left. destruct Iblocks as (H1 & _). lia.
        -- rewrite Ihd. eexists; reflexivity.
        -- rewrite Ihd in *. rewrite seq_S. simp.
           apply perm_trans with (a_cur a :: rest ++ [a_npools a]).
           ++ constructor. change (a_npools a :: rest) with ([a_npools a] ++ rest). apply Permutation_app_comm.
           ++ change (a_cur a :: rest ++ [a_npools a]) with ((a_cur a :: rest) ++ [a_npools a]). apply Permutation_app_tail. exact Ichain.
      * unfold block_ok, cap_of; simp. repeat split; try lia.
        rewrite <- Icaps, cap_of_app_new. lia.
      * intros q Hq. unfold cap_of; simp. apply cap_of_app_old. lia.
      * simp; lia.
    + (* a fresh pool becomes current *)
      pose proof (fresh_pool_fits n ltac:(lia)) as Hff.
      split; [|split; [reflexivity|split; [|split; [reflexivity|split]]]].
      * constructor; simp; auto; try lia.
        -- rewrite app_length; simp; lia.
        -- unfold cap_of; simp. rewrite <- Icaps, cap_of_app_new. reflexivity.
        -- constructor.
           ++ unfold block_ok, cap_of; simp. repeat split; try lia.
              rewrite <- Icaps, cap_of_app_new. unfold headersz, padding, bufsz in *. lia.
           ++ rewrite Forall_forall in *. intros x Hx. specialize (Iblocks x Hx).
              unfold block_ok, cap_of in *; simp. destruct Iblocks as (H1 & H2 & H3 & H4 & H5 & H6).
              repeat split; auto; try lia.
              rewrite cap_of_app_old by lia. exact H5.
        -- split; auto. rewrite Forall_forall in *. intros x Hx. specialize (Iblocks x Hx).
           unfold disjoint; simp. left. destruct Iblocks as (H1 & _). lia.
        -- eexists; reflexivity.
        -- rewrite seq_S. simp. change (a_npools a :: a_chain a) with ([a_npools a] ++ a_chain a).
           apply perm_trans with (a_chain a ++ [a_npools a]); [apply Permutation_app_comm|].
           apply Permutation_app_tail. exact Ichain.
      * unfold block_ok, cap_of; simp. repeat split; try lia.
        simp. rewrite <- Icaps, cap_of_app_new. unfold headersz, padding, bufsz in *. lia.
      * intros q Hq. unfold cap_of; simp. apply cap_of_app_old. lia.
      * simp; lia.
Qed.

(* histories of allocations *)
Fixpoint run_arena (a : arena) (ns : list Z) : arena :=
  match ns with [] => a | n :: ns' => run_arena (fst (fst (allocate a n))) ns' end.

Theorem run_arena_inv : forall ns a, AInv a -> Forall (fun n => 0 <= n) ns -> AInv (run_arena a ns).
Proof.
  induction ns as [|n ns IH]; intros a I Hpos; simpl; auto.
  inversion Hpos; subst.
  pose proof (allocate_inv a n I H1) as H. destruct (allocate a n) as [[a' b] t]. simpl.
  apply IH; tauto.
Qed.

(* C03: every block lies within its pool and blocks never overlap, for every history *)
Theorem blocks_in_bounds_and_disjoint : forall ns, Forall (fun n => 0 <= n) ns ->
  let a := run_arena arena_init ns in
  NoOverlap (a_blocks a) /\
  Forall (fun b => 0 <= b_off b /\ headersz * b_off b + padding + b_bytes b <= cap_of a (b_pool b)) (a_blocks a).
Proof.
  intros ns H a. pose proof (run_arena_inv ns arena_init AInv_init H) as I. fold a in I.
  split; [apply (inv_disj a I)|].
  pose proof (inv_blocks a I) as Hb. rewrite Forall_forall in *. intros b Hin.
  destruct (Hb b Hin) as (_ & H2 & _ & _ & H5 & _). auto.
Qed.

(* C19: every pool ever allocated is on the chain the destructor walks, exactly once *)
Theorem chain_complete : forall ns, Forall (fun n => 0 <= n) ns ->
  Permutation (a_chain (run_arena arena_init ns)) (seq 0 (a_npools (run_arena arena_init ns))).
Proof. intros ns H. apply inv_chain. apply run_arena_inv; auto using AInv_init. Qed.

(* ------------------------------------------------------------------ *)
(* 3. memory                                                            *)
(* ------------------------------------------------------------------ *)
Module MemF := FMapFacts.WFacts_fun PZ Mem.

Lemma mem_get_add : forall m p o c p' o',
  mem_get (Mem.add (p, o) c m) p' o' = if (Nat.eqb p' p && (o' =? o))%bool then c else mem_get m p' o'.
Proof.
  intros. unfold mem_get. rewrite MemF.add_o.
  destruct (PZ.eq_dec (p, o) (p', o')) as [E|E].
  - destruct E as [E1 E2]. simpl in E1, E2. subst.
    rewrite Nat.eqb_refl, Z.eqb_refl. reflexivity.
  - destruct (Nat.eqb_spec p' p), (Z.eqb_spec o' o); cbn [andb]; auto.
    exfalso. apply E. split; simpl; auto.
Qed.

Lemma write_bytes_get : forall w m p off p' o',
  mem_get (write_bytes m p off w) p' o' =
  if (Nat.eqb p' p && ((off <=? o') && (o' <? off + Z.of_nat (length w))))%bool
  then nth (Z.to_nat (o' - off)) w 0%N else mem_get m p' o'.
Proof.
  induction w as [|c w IH]; intros m p off p' o'; cbn [write_bytes length].
  - destruct (Nat.eqb p' p); cbn [andb]; auto.
    destruct (Z.leb_spec off o'); cbn [andb]; auto.
    destruct (Z.ltb_spec o' (off + Z.of_nat 0)); auto. lia.
  - rewrite IH, mem_get_add. rewrite Nat2Z.inj_succ.
    destruct (Nat.eqb p' p) eqn:Ep; cbn [andb]; [|reflexivity].
    destruct (Z.leb_spec (off + 1) o'), (Z.ltb_spec o' (off + 1 + Z.of_nat (length w))),
             (Z.leb_spec off o'), (Z.ltb_spec o' (off + Z.succ (Z.of_nat (length w)))); cbn [andb]; try lia;
    try (destruct (Z.eqb_spec o' off); [try lia|try reflexivity; try lia]).
    + replace (Z.to_nat (o' - off)) with (S (Z.to_nat (o' - (off + 1)))) by lia. reflexivity.
    + subst. rewrite Z.sub_diag. reflexivity.
Qed.

Lemma read_bytes_ext : forall n m m' p off,
  (forall o, off <= o < off + Z.of_nat n -> mem_get m p o = mem_get m' p o) ->
  read_bytes m p off n = read_bytes m' p off n.
Proof.
  induction n as [|n IH]; intros m m' p off H; simpl; auto.
  f_equal; [apply H; lia | apply IH; intros; apply H; lia].
Qed.

Lemma read_bytes_map : forall n m p off,
  read_bytes m p off n = map (fun i => mem_get m p (off + Z.of_nat i)) (seq 0 n).
Proof.
  induction n as [|n IH]; intros m p off; simpl; auto.
  f_equal; [f_equal; lia|]. rewrite IH, <- seq_shift, map_map.
  apply map_ext. intros i. f_equal. lia.
Qed.

Lemma map_nth_seq : forall (w : word), map (fun i => nth i w 0%N) (seq 0 (length w)) = w.
Proof.
  induction w as [|c w IH]; simpl; auto.
  f_equal. rewrite <- seq_shift, map_map. exact IH.
Qed.

Lemma read_write_same : forall w m p off, read_bytes (write_bytes m p off w) p off (length w) = w.
Proof.
  intros w m p off. rewrite read_bytes_map. rewrite <- (map_nth_seq w) at 2.
  apply map_ext_in. intros i Hi. apply in_seq in Hi.
  rewrite write_bytes_get, Nat.eqb_refl. cbn [andb].
  destruct (Z.leb_spec off (off + Z.of_nat i)), (Z.ltb_spec (off + Z.of_nat i) (off + Z.of_nat (length w)));
    cbn [andb]; try lia.
  f_equal. lia.
Qed.

Lemma read_write_other : forall w m p off p' off' n,
  (p' <> p \/ off' + Z.of_nat n <= off \/ off + Z.of_nat (length w) <= off') ->
  read_bytes (write_bytes m p off w) p' off' n = read_bytes m p' off' n.
Proof.
  intros w m p off p' off' n H. apply read_bytes_ext. intros o Ho.
  rewrite write_bytes_get.
  destruct (Nat.eqb_spec p' p); cbn [andb]; auto.
  destruct (Z.leb_spec off o), (Z.ltb_spec o (off + Z.of_nat (length w))); cbn [andb]; auto.
  destruct H as [H|[H|H]]; [congruence|lia|lia].
Qed.

(* ------------------------------------------------------------------ *)
(* 4. the order on words and the binary search                          *)
(* ------------------------------------------------------------------ *)
Lemma word_cmp_refl : forall a, word_cmp a a = Eq.
Proof. induction a as [|x a IH]; simpl; auto. rewrite N.compare_refl. exact IH. Qed.

Lemma word_cmp_eq : forall a b, word_cmp a b = Eq -> a = b.
Proof.
  induction a as [|x a IH]; destruct b as [|y b]; simpl; try discriminate; auto.
  destruct (N.compare_spec x y) as [Hxy|Hxy|Hxy]; try discriminate. intros Hc. subst. f_equal. auto.
Qed.

Lemma word_cmp_antisym : forall a b, word_cmp b a = CompOpp (word_cmp a b).
Proof.
  induction a as [|x a IH]; destruct b as [|y b]; simpl; auto.
  rewrite (N.compare_antisym x y). destruct (N.compare x y); simpl; auto.
Qed.

Lemma word_cmp_lt_trans : forall a b c, word_cmp a b = Lt -> word_cmp b c = Lt -> word_cmp a c = Lt.
Proof.
  induction a as [|x a IH]; destruct b as [|y b]; destruct c as [|z c]; simpl; try discriminate; auto.
  destruct (N.compare_spec x y), (N.compare_spec y z); try discriminate; subst; intros H1 H2.
  - rewrite N.compare_refl. eauto.
  - destruct (N.compare_spec y z); auto; lia.
  - destruct (N.compare_spec x z); auto; lia.
  - destruct (N.compare_spec x z); auto; lia.
Qed.

Lemma word_eqb_eq a b : word_eqb a b = true <-> a = b.
Proof.
  unfold word_eqb. split.
  - destruct (word_cmp a b) eqn:E; try discriminate. intros _. apply word_cmp_eq; auto.
  - intros ->. rewrite word_cmp_refl. reflexivity.
Qed.

Lemma word_ltb_trans a b c : word_ltb a b = true -> word_ltb b c = true -> word_ltb a c = true.
Proof.
  unfold word_ltb. destruct (word_cmp a b) eqn:E1; try discriminate.
  destruct (word_cmp b c) eqn:E2; try discriminate. rewrite (word_cmp_lt_trans _ _ _ E1 E2). auto.
Qed.

Lemma word_ltb_irrefl a : word_ltb a a = false.
Proof. unfold word_ltb. rewrite word_cmp_refl. reflexivity. Qed.

(* not (x < w) and y = x or x < y  ==> not (y < w) *)
Lemma word_not_ltb_mono x y w : word_ltb x w = false -> (x = y \/ word_ltb x y = true) -> word_ltb y w = false.
Proof.
  intros Hx [->|Hxy]; auto.
  destruct (word_ltb y w) eqn:E; auto. rewrite (word_ltb_trans _ _ _ Hxy E) in Hx. discriminate.
Qed.

Fixpoint sorted_strictb (l : list word) : bool :=
  match l with
  | a :: (b :: _) as t => word_ltb a b && sorted_strictb t
  | _ => true
  end.

Definition sorted_strict (l : list word) : Prop :=
  forall i j, (i < j < length l)%nat -> word_ltb (nth i l []) (nth j l []) = true.

Lemma sorted_strictb_sound : forall l, sorted_strictb l = true -> sorted_strict l.
Proof.
  induction l as [|a l IH]; intros H i j Hij; simpl in Hij; [lia|].
  destruct l as [|b l]; [simpl in Hij; lia|].
  simpl in H. apply andb_true_iff in H as [Hab Hs]. specialize (IH Hs).
  destruct i as [|i]; destruct j as [|j]; try lia.
  - change (nth 0 (a :: b :: l) []) with a. change (nth (S j) (a :: b :: l) []) with (nth j (b :: l) []).
    destruct j as [|j]; [exact Hab|].
    eapply word_ltb_trans; [exact Hab|]. apply (IH 0%nat (S j)). simpl in *; lia.
  - change (nth (S i) (a :: b :: l) []) with (nth i (b :: l) []).
    change (nth (S j) (a :: b :: l) []) with (nth j (b :: l) []). apply IH. simpl in *; lia.
Qed.

Section Search.
Variable tbl : list word.
Hypothesis Hsorted : sorted_strict tbl.

Lemma lower_bound_spec : forall w fuel first len,
  (len <= fuel)%nat -> (first + len <= length tbl)%nat ->
  (forall i, (i < first)%nat -> word_ltb (nth i tbl []) w = true) ->
  (forall i, (first + len <= i < length tbl)%nat -> word_ltb (nth i tbl []) w = false) ->
  let r := lower_bound fuel tbl first len w in
  (first <= r <= first + len)%nat /\
  (forall i, (i < r)%nat -> word_ltb (nth i tbl []) w = true) /\
  (forall i, (r <= i < length tbl)%nat -> word_ltb (nth i tbl []) w = false).
Proof.
  intros w. induction fuel as [|fuel IH]; intros first len Hf Hb Hlo Hhi; cbn [lower_bound].
  - assert (len = 0)%nat by lia. subst. repeat split; auto; try lia. intros; apply Hhi; lia.
  - destruct (Nat.eqb_spec len 0) as [->|Hne].
    + repeat split; auto; try lia. intros; apply Hhi; lia.
    + pose proof (Nat.div2_decr len (len)) as _.
      assert (Hhalf : (Nat.div2 len < len)%nat) by (apply Nat.lt_div2; lia).
      set (half := Nat.div2 len) in *. set (mid := (first + half)%nat).
      assert (Hmid : (mid < length tbl)%nat) by (unfold mid; lia).
      rewrite (nth_error_nth' tbl [] Hmid).
      destruct (word_ltb (nth mid tbl []) w) eqn:Hlt.
      * (* element at mid is below w: continue right of mid *)
        specialize (IH (S mid) (len - half - 1)%nat).
        destruct IH as (H1 & H2 & H3); try (unfold mid; lia).
        -- intros i Hi. destruct (Nat.eq_dec i mid) as [->|Hne']; auto.
           destruct (Nat.lt_ge_cases i first); [apply Hlo; auto|].
           eapply word_ltb_trans; [apply (Hsorted i mid); unfold mid in *; lia | exact Hlt].
        -- intros i Hi. apply Hhi. unfold mid in *. lia.
        -- repeat split; auto; unfold mid in *; lia.
      * (* element at mid is not below w: continue in [first, mid) *)
        specialize (IH first half).
        destruct IH as (H1 & H2 & H3); try lia.
        -- exact Hlo.
        -- intros i Hi. fold mid in Hi.
           apply (word_not_ltb_mono (nth mid tbl [])); auto.
           destruct (Nat.eq_dec i mid) as [->|Hne']; [left; reflexivity|right].
           apply Hsorted. lia.
        -- repeat split; auto; lia.
Qed.

(* the reserved-word lookup answers exactly the table *)
Theorem word_if_known_correct : forall w k,
  word_if_known tbl w = Some k <-> nth_error tbl k = Some w.
Proof.
  intros w k. unfold word_if_known.
  destruct (lower_bound_spec w (S (length tbl)) 0 (length tbl)) as (Hr & Hlo & Hhi); try lia; try (intros; lia).
  set (r := lower_bound (S (length tbl)) tbl 0 (length tbl) w) in *.
  split.
  - destruct (nth_error tbl r) as [x|] eqn:Hx; [|discriminate].
    destruct (word_eqb x w) eqn:He; [|discriminate]. intros H; inversion H; subst.
    apply word_eqb_eq in He. congruence.
  - intros Hk.
    assert (Hkl : (k < length tbl)%nat) by (apply nth_error_Some; congruence).
    assert (Hnk : nth k tbl [] = w) by (apply nth_error_nth; auto).
    assert (r = k).
    { destruct (Nat.lt_trichotomy r k) as [Hlt|[Heq|Hgt]]; auto.
      - (* tbl[r] >= w = tbl[k] but r < k *)
        pose proof (Hhi r ltac:(lia)) as Hnr. pose proof (Hsorted r k ltac:(lia)) as Hs.
        rewrite Hnk in Hs. congruence.
      - pose proof (Hlo k Hgt) as Hc. rewrite Hnk, word_ltb_irrefl in Hc. discriminate. }
    subst r. rewrite H, Hk. rewrite (proj2 (word_eqb_eq w w) eq_refl). reflexivity.
Qed.
End Search.

(* ------------------------------------------------------------------ *)
(* 5. the string pool                                                   *)
(* ------------------------------------------------------------------ *)
Section Pool.
Variable known : list word.
Variable hash : word -> N.                   (* ANY hash function, collisions included *)
Hypothesis known_sorted : sorted_strict known.

Notation intern := (intern known hash).
Notation chars_of := (chars_of known).

Definition data_range_ok (a : arena) (b : block) : Prop := block_ok a b.

(* [dws] is the ghost list of the words held by the dynamic nodes, oldest first *)
Record PInv (p : pool) (dws : list word) : Prop := {
  pi_arena : AInv (p_arena p);
  pi_len : length dws = length (p_nodes p);
  pi_blocks : map d_block (p_nodes p) = rev (a_blocks (p_arena p));
  pi_node : forall i d w, nth_error (p_nodes p) i = Some d -> nth_error dws i = Some w ->
            d_word_len d = Z.of_nat (length w) /\ d_hash d = hash w /\ node_chars p d = w /\
            b_bytes (d_block d) = d_word_len d;
  pi_nodup : NoDup dws;
  pi_dyn : forall w, In w dws -> w <> [] /\ word_if_known known w = None
}.

Lemma PInv_init : PInv pool_init [].
Proof.
  constructor; simpl; auto using AInv_init.
  - intros i d w H. destruct i; discriminate.
  - constructor.
  - intros w [].
Qed.

Lemma find_unique : forall (A : Type) (f : A -> bool) (l : list A) (e : A),
  In e l -> f e = true -> (forall x, In x l -> f x = true -> x = e) -> find f l = Some e.
Proof.
  intros A f l e. induction l as [|y l IH]; intros Hin Hf Hu; simpl; [destruct Hin|].
  destruct (f y) eqn:Hy.
  - f_equal. apply Hu; simpl; auto.
  - destruct Hin as [->|Hin]; [congruence|]. apply IH; auto. intros; apply Hu; simpl; auto.
Qed.

Lemma in_combine_seq : forall (A : Type) (l : list A) s i x,
  In (i, x) (combine (seq s (length l)) l) <-> (s <= i)%nat /\ nth_error l (i - s) = Some x.
Proof.
  intros A l. induction l as [|y l IH]; intros s i x; simpl.
  - split; [tauto|]. intros [_ H]. destruct (i - s)%nat; discriminate.
  - rewrite IH. split.
    + intros [H|[H1 H2]].
      * inversion H; subst. rewrite Nat.sub_diag. auto.
      * split; [lia|]. replace (i - s)%nat with (S (i - S s)) by lia. exact H2.
    + intros [H1 H2]. destruct (Nat.eq_dec i s) as [->|Hne].
      * rewrite Nat.sub_diag in H2. inversion H2; subst. left; reflexivity.
      * right. split; [lia|]. replace (i - s)%nat with (S (i - S s)) in H2 by lia. exact H2.
Qed.

Lemma in_bucket : forall p h i d,
  In (i, d) (bucket p h) <-> nth_error (p_nodes p) i = Some d /\ d_hash d = h.
Proof.
  intros p h i d. unfold bucket. rewrite <- in_rev, filter_In, in_combine_seq. simpl.
  rewrite Nat.sub_0_r, N.eqb_eq. split; [tauto|]. intros [H1 H2]; repeat split; auto; lia.
Qed.

(* header-disjoint blocks have byte-disjoint character ranges *)
Lemma data_disjoint : forall a b x, block_ok a b -> block_ok a x -> disjoint b x ->
  b_pool x <> b_pool b \/ data_off x + b_bytes x <= data_off b \/ data_off b + b_bytes b <= data_off x.
Proof.
  unfold block_ok, disjoint, data_off. intros a b x (_ & B2 & B3 & B4 & _) (_ & X2 & X3 & X4 & _) [H|[H|H]].
  - left; congruence.
  - right; right. pose proof (headers_enough _ B3). unfold headersz, padding in *. lia.
  - right; left. pose proof (headers_enough _ X3). unfold headersz, padding in *. lia.
Qed.

Lemma nth_error_lt : forall (A : Type) (l : list A) i x, nth_error l i = Some x -> (i < length l)%nat.
Proof. intros A l i x H. apply nth_error_Some. rewrite H. discriminate. Qed.

Lemma NoDup_snoc : forall (A : Type) (l : list A) x, NoDup l -> ~ In x l -> NoDup (l ++ [x]).
Proof.
  intros A l x Hn Hx. apply NoDup_rev in Hn. rewrite <- (rev_involutive (l ++ [x])).
  apply NoDup_rev. rewrite rev_app_distr. simpl. constructor; auto. rewrite <- in_rev. auto.
Qed.

Theorem intern_step : forall p dws w, PInv p dws ->
  let '(p', n, _) := intern p w in
  exists dws',
    PInv p' dws' /\ chars_of p' n = Some w /\
    (* earlier nodes are untouched *)
    (forall i d, nth_error (p_nodes p) i = Some d ->
                 nth_error (p_nodes p') i = Some d /\ node_chars p' d = node_chars p d) /\
    (* which node answers *)
    match w with
    | [] => n = SEmpty /\ dws' = dws
    | _ => match word_if_known known w with
           | Some k => n = SReserved k /\ dws' = dws
           | None => (forall i, nth_error dws i = Some w -> n = SDynamic i /\ dws' = dws) /\
                     (~ In w dws -> n = SDynamic (length dws) /\ dws' = dws ++ [w])
           end
    end.
Proof.
  intros p dws w I. unfold Arena.intern.
  destruct w as [|c0 w0].
  { exists dws. split; [exact I|]. split; [reflexivity|]. split; [intros; split; auto|split; reflexivity]. }
  set (w := c0 :: w0) in *.
  destruct (word_if_known known w) as [k|] eqn:Hk.
  - exists dws. split; [exact I|]. split; [simpl; apply word_if_known_correct in Hk; auto|].
    split; [intros; split; auto|split; reflexivity].
  - destruct (find (fun e => word_eqb (node_chars p (snd e)) w) (bucket p (hash w))) as [[i d]|] eqn:Hf.
    + (* hit *)
      apply find_some in Hf as [Hin He]. simpl in He. apply word_eqb_eq in He.
      apply in_bucket in Hin as [Hn Hh].
      assert (Hi : (i < length dws)%nat) by (rewrite (pi_len _ _ I); eapply nth_error_lt; first [exact Hn | exact Hx]).
      destruct (nth_error dws i) as [wi|] eqn:Hwi; [|apply nth_error_None in Hwi; lia].
      destruct (pi_node _ _ I i d wi Hn Hwi) as (_ & _ & Hc & _). rewrite He in Hc. subst wi.
      exists dws. split; [exact I|]. split; [simpl; rewrite Hn; simpl; congruence|]. split; [auto|].
      split.
      * intros j Hj. split; auto. f_equal.
        apply (proj1 (NoDup_nth_error dws) (pi_nodup _ _ I) i j); [exact Hi|]. rewrite Hwi, Hj. reflexivity.
      * intros Hnot. exfalso. apply Hnot. eapply nth_error_In; eauto.
    + (* miss: allocate, copy, new node *)
      assert (Hnotin : ~ In w dws).
      { intros Hin. apply In_nth_error in Hin as [i Hi].
        assert (Hl : (i < length (p_nodes p))%nat) by (rewrite <- (pi_len _ _ I); eapply nth_error_lt; exact Hi).
        destruct (nth_error (p_nodes p) i) as [d|] eqn:Hd; [|apply nth_error_None in Hd; lia].
        destruct (pi_node _ _ I i d w Hd Hi) as (_ & Hh & Hc & _).
        eapply find_none in Hf; [|apply in_bucket; split; eauto].
        simpl in Hf. rewrite Hc, (proj2 (word_eqb_eq w w) eq_refl) in Hf. discriminate. }
      pose proof (allocate_inv (p_arena p) (Z.of_nat (length w)) (pi_arena _ _ I) ltac:(lia)) as Ha.
      destruct (allocate (p_arena p) (Z.of_nat (length w))) as [[a' b] t].
      destruct Ha as (Ia' & Hbl & Hbok & Hbb & Hcap & Hnp).
      set (m' := write_bytes (p_mem p) (b_pool b) (data_off b) w).
      set (d := {| d_word_len := Z.of_nat (length w); d_block := b; d_hash := hash w |}).
      set (p' := {| p_arena := a'; p_mem := m'; p_nodes := p_nodes p ++ [d] |}).
      (* old nodes keep their characters *)
      assert (Hold : forall i x, nth_error (p_nodes p) i = Some x -> node_chars p' x = node_chars p x).
      { intros i x Hx. unfold node_chars, p'; cbn [p_mem]. unfold m'.
        apply read_write_other.
        assert (Hxb : In (d_block x) (a_blocks (p_arena p))).
        { apply in_rev. rewrite <- (pi_blocks _ _ I). apply in_map. eapply nth_error_In; eauto. }
        pose proof (inv_disj _ Ia') as Hd. rewrite Hbl in Hd. destruct Hd as [Hd _].
        rewrite Forall_forall in Hd. specialize (Hd _ Hxb).
        pose proof (inv_blocks _ Ia') as Hb'. rewrite Hbl in Hb'. inversion Hb' as [|? ? _ Hrest]; subst.
        rewrite Forall_forall in Hrest. specialize (Hrest _ Hxb).
        assert (Hi : (i < length dws)%nat) by (rewrite (pi_len _ _ I); eapply nth_error_lt; first [exact Hn | exact Hx]).
        destruct (nth_error dws i) as [wi|] eqn:Hwi; [|apply nth_error_None in Hwi; lia].
        destruct (pi_node _ _ I i x wi Hx Hwi) as (Hl & _ & _ & Hbx).
        destruct (data_disjoint a' b (d_block x) Hbok Hrest Hd) as [H|[H|H]];
          [left; auto|right; left|right; right]; lia. }
      assert (Hnew : node_chars p' d = w).
      { unfold node_chars, p', d; cbn [p_mem d_block d_word_len]. unfold m'.
        rewrite Nat2Z.id. apply read_write_same. }
      exists (dws ++ [w]). split; [|split; [|split; [|split]]].
      * constructor.
        -- exact Ia'.
        -- unfold p'; cbn [p_nodes]. rewrite !app_length, (pi_len _ _ I). reflexivity.
        -- unfold p'; cbn [p_nodes p_arena]. rewrite map_app, (pi_blocks _ _ I), Hbl. reflexivity.
        -- intros i x wi Hx Hwi. change (p_nodes p') with (p_nodes p ++ [d]) in Hx.
           destruct (Nat.lt_ge_cases i (length (p_nodes p))) as [Hlt|Hge].
           ++ rewrite nth_error_app1 in Hx by auto. rewrite nth_error_app1 in Hwi by (rewrite (pi_len _ _ I); auto).
              destruct (pi_node _ _ I i x wi Hx Hwi) as (H1 & H2 & H3 & H4).
              repeat split; auto. rewrite (Hold i x Hx). exact H3.
           ++ assert (i = length (p_nodes p)).
              { assert (i < length (p_nodes p ++ [d]))%nat by (apply nth_error_Some; congruence).
                rewrite app_length in H; simpl in H; lia. }
              subst i. rewrite nth_error_app2, Nat.sub_diag in Hx by lia. inversion Hx; subst x.
              rewrite <- (pi_len _ _ I), nth_error_app2, Nat.sub_diag in Hwi by lia. inversion Hwi; subst wi.
              repeat split; auto.
        -- apply NoDup_snoc; auto. apply (pi_nodup _ _ I).
        -- intros v Hv. apply in_app_or in Hv as [Hv|[<-|[]]]; [apply (pi_dyn _ _ I); auto|].
           split; [discriminate|exact Hk].
      * cbn [Arena.chars_of p_nodes p']. rewrite nth_error_app2, Nat.sub_diag by lia. simpl. f_equal. exact Hnew.
      * intros i x Hx. split; [|eapply Hold; eauto].
        cbn [p_nodes p']. rewrite nth_error_app1; auto. apply nth_error_Some. congruence.
      * intros i Hi. exfalso. apply Hnotin. eapply nth_error_In; eauto.
      * intros _. rewrite (pi_len _ _ I). auto.
Qed.

(* which node stands for a word, given the words held by the dynamic nodes *)
Definition classify (dws : list word) (w : word) (n : strnode) : Prop :=
  match w with
  | [] => n = SEmpty
  | _ => match word_if_known known w with
         | Some k => n = SReserved k
         | None => exists i, n = SDynamic i /\ nth_error dws i = Some w
         end
  end.

Lemma classify_ext : forall dws ext w n, classify dws w n -> classify (dws ++ ext) w n.
Proof.
  unfold classify. intros dws ext w n H. destruct w; auto.
  destruct (word_if_known known (b :: w)); auto.
  destruct H as (i & Hn & Hi). exists i. split; auto.
  rewrite nth_error_app1; auto. eapply nth_error_lt; eauto.
Qed.

Lemma classify_chars : forall p dws w n, PInv p dws -> classify dws w n -> chars_of p n = Some w.
Proof.
  unfold classify. intros p dws w n I H. destruct w as [|c w]; [subst; reflexivity|].
  destruct (word_if_known known (c :: w)) as [k|] eqn:Hk.
  - subst. simpl. apply word_if_known_correct in Hk; auto.
  - destruct H as (i & -> & Hi). simpl.
    assert (Hl : (i < length (p_nodes p))%nat) by (rewrite <- (pi_len _ _ I); eapply nth_error_lt; eauto).
    destruct (nth_error (p_nodes p) i) as [d|] eqn:Hd; [|apply nth_error_None in Hd; lia].
    simpl. f_equal. destruct (pi_node _ _ I i d _ Hd Hi) as (_ & _ & Hc & _). exact Hc.
Qed.

Lemma classify_functional : forall p dws w n n', PInv p dws -> classify dws w n -> classify dws w n' -> n = n'.
Proof.
  unfold classify. intros p dws w n n' I H H'. destruct w as [|c w]; [congruence|].
  destruct (word_if_known known (c :: w)); [congruence|].
  destruct H as (i & -> & Hi). destruct H' as (j & -> & Hj). f_equal.
  apply (proj1 (NoDup_nth_error dws) (pi_nodup _ _ I) i j); [eapply nth_error_lt; eauto|congruence].
Qed.

Theorem intern_all_spec : forall ws p dws, PInv p dws ->
  exists dws' ext, dws' = dws ++ ext /\ PInv (fst (intern_all known hash p ws)) dws' /\
                   Forall2 (classify dws') ws (snd (intern_all known hash p ws)).
Proof.
  induction ws as [|w ws IH]; intros p dws I; cbn [intern_all].
  - exists dws, []. rewrite app_nil_r. simpl. split; [reflexivity|]. split; [exact I|constructor].
  - pose proof (intern_step p dws w I) as Hs.
    destruct (intern p w) as [[p1 n] t].
    destruct Hs as (dws1 & I1 & Hc & Hold & Hwhich).
    destruct (IH p1 dws1 I1) as (dws2 & ext & -> & I2 & HF).
    destruct (intern_all known hash p1 ws) as [p2 ns]. cbn [fst snd] in *.
    assert (Hext1 : exists e1, dws1 = dws ++ e1 /\ classify dws1 w n).
    { unfold classify. destruct w as [|c w]; [destruct Hwhich as [-> ->]; exists []; rewrite app_nil_r; auto|].
      destruct (word_if_known known (c :: w)) as [k|]; [destruct Hwhich as [-> ->]; exists []; rewrite app_nil_r; auto|].
      destruct Hwhich as [Hin Hnot].
      destruct (in_dec (list_eq_dec N.eq_dec) (c :: w) dws) as [Hi|Hi].
      - apply In_nth_error in Hi as [i Hi]. destruct (Hin i Hi) as [-> ->].
        exists []. rewrite app_nil_r. split; auto. exists i; auto.
      - destruct (Hnot Hi) as [-> ->]. exists [c :: w]. split; auto.
        exists (length dws). split; auto. rewrite nth_error_app2, Nat.sub_diag by lia. reflexivity. }
    destruct Hext1 as (e1 & -> & Hcl).
    exists ((dws ++ e1) ++ ext), (e1 ++ ext). split; [rewrite app_assoc; reflexivity|]. split; [exact I2|].
    constructor; [apply classify_ext; exact Hcl|exact HF].
Qed.

(* ---- the statements of C03 over whole histories ---- *)
Definition run_pool (ws : list word) : pool * list strnode := intern_all known hash pool_init ws.

(* the characters of every returned String are exactly the bytes interned,
   whatever was interned afterwards *)
Theorem content_preserved : forall ws i w n,
  nth_error ws i = Some w -> nth_error (snd (run_pool ws)) i = Some n ->
  chars_of (fst (run_pool ws)) n = Some w.
Proof.
  intros ws i w n Hw Hn. unfold run_pool in *.
  destruct (intern_all_spec ws pool_init [] PInv_init) as (dws & ext & _ & I & HF).
  eapply classify_chars; eauto.
  clear I. revert i Hw Hn. induction HF; intros [|i] Hw Hn; simpl in *; try discriminate.
  - inversion Hw; inversion Hn; subst; auto.
  - eauto.
Qed.

(* same node iff same contents *)
Theorem intern_injective : forall ws i j wi wj ni nj,
  nth_error ws i = Some wi -> nth_error ws j = Some wj ->
  nth_error (snd (run_pool ws)) i = Some ni -> nth_error (snd (run_pool ws)) j = Some nj ->
  (ni = nj <-> wi = wj).
Proof.
  intros ws i j wi wj ni nj Hwi Hwj Hni Hnj.
  pose proof (content_preserved ws i wi ni Hwi Hni) as Ci.
  pose proof (content_preserved ws j wj nj Hwj Hnj) as Cj.
  split; [intros ->; congruence|intros ->].
  unfold run_pool in *.
  destruct (intern_all_spec ws pool_init [] PInv_init) as (dws & ext & _ & I & HF).
  assert (G : forall k w n, nth_error ws k = Some w -> nth_error (snd (intern_all known hash pool_init ws)) k = Some n ->
                            classify dws w n).
  { clear - HF. induction HF; intros [|k] w n Hw Hn; simpl in *; try discriminate.
    - inversion Hw; inversion Hn; subst; auto.
    - eauto. }
  eapply classify_functional; eauto.
Qed.

(* a later interning never changes the node an earlier request returned *)
Theorem intern_stable : forall ws ws' i n,
  nth_error (snd (run_pool ws)) i = Some n -> nth_error (snd (run_pool (ws ++ ws'))) i = Some n.
Proof.
  unfold run_pool. intros ws ws'. generalize pool_init.
  induction ws as [|w ws IH]; intros p i n H; cbn [intern_all app] in *.
  - destruct i; discriminate.
  - destruct (intern p w) as [[p1 m] t].
    specialize (IH p1).
    destruct (intern_all known hash p1 ws) as [p2 ns].
    destruct (intern_all known hash p1 (ws ++ ws')) as [p3 ns'] eqn:E.
    cbn [snd] in *. destruct i as [|i]; simpl in *; auto.
Qed.

(* the empty word and the reserved words map to their constants *)
Theorem empty_constant : forall p, fst (fst (intern p [])) = p /\ snd (fst (intern p [])) = SEmpty.
Proof. intros; split; reflexivity. Qed.

Theorem reserved_constant : forall p w k, w <> [] -> nth_error known k = Some w ->
  snd (fst (intern p w)) = SReserved k /\ fst (fst (intern p w)) = p.
Proof.
  intros p w k Hne Hk. unfold Arena.intern. destruct w as [|c w]; [congruence|].
  apply word_if_known_correct in Hk; auto. rewrite Hk. split; reflexivity.
Qed.

End Pool.
