(* Properties_C13.v — C13: Lexicon constants are distinct, correctly spelled,
   self-describing, process-wide.  The tables (builtin.def rows, reserved
   words, constant definitions, accessor bodies) are regenerated from the
   current source; the documented spellings below are the specification. *)
From Coq Require Import List ZArith NArith String Bool.
From IprV Require Import GenTypes Arena ArenaProofs Lexicon LexiconProofs LexInst.
From IprV.gen Require Import GenWords GenLexAcc.
From IprV.gen Require Import GenStatics.
Import ListNotations.
Local Open Scope string_scope.

(* accessor -> documented C++ spelling (include/ipr/interface; the comment for
   ushort_type saying "unsigned char" is a documentation typo and is not used) *)
Definition documented_builtins : list (string * string) :=
  [("void_type", "void"); ("bool_type", "bool"); ("char_type", "char"); ("schar_type", "signed char");
   ("uchar_type", "unsigned char"); ("wchar_t_type", "wchar_t"); ("char8_t_type", "char8_t");
   ("char16_t_type", "char16_t"); ("char32_t_type", "char32_t"); ("short_type", "short");
   ("ushort_type", "unsigned short"); ("int_type", "int"); ("uint_type", "unsigned int"); ("long_type", "long");
   ("ulong_type", "unsigned long"); ("long_long_type", "long long"); ("ulong_long_type", "unsigned long long");
   ("float_type", "float"); ("double_type", "double"); ("long_double_type", "long double");
   ("ellipsis_type", "..."); ("typename_type", "typename"); ("class_type", "class"); ("union_type", "union");
   ("enum_type", "enum"); ("namespace_type", "namespace")].

Definition acc_lookup (n : string) : option lex_acc :=
  option_map snd (List.find (fun p => streq (fst p) n) gen_lex_accessors).

(* the builtins[] row an accessor returns *)
Definition accessor_row (n : string) : option nat :=
  match acc_lookup n with Some (AccBuiltin e) => str_index e gen_fundamental | _ => None end.

Definition rows : list (option nat) := map (fun p => accessor_row (fst p)) documented_builtins.

Fixpoint onat_nodup (l : list (option nat)) : bool :=
  match l with
  | [] => true
  | None :: _ => false
  | Some x :: l' => negb (existsb (fun y => match y with Some z => Nat.eqb x z | None => false end) l') && onat_nodup l'
  end.

(* the 26 accessors return pairwise distinct built-in objects *)
Theorem c13_builtin_accessors_distinct : onat_nodup rows = true /\ List.length rows = 26%nat.
Proof. vm_compute. auto. Qed.

(* each names itself with the documented spelling, which is a reserved word *)
Definition spelled_ok (p : string * string) : bool :=
  match accessor_row (fst p) with
  | Some r => match nth_error gen_builtins r with
              | Some w => streq w (snd p) && str_mem w gen_known_words
              | None => false
              end
  | None => false
  end.
Theorem c13_builtin_spelling : forallb spelled_ok documented_builtins = true.
Proof. vm_compute. reflexivity. Qed.

(* the symbolic constants and the two linkages: definition, spelling, type *)
Definition const_ok (acc var word ty : string) : bool :=
  match acc_lookup acc with
  | Some (AccConstant v) => streq v var &&
      match List.find (fun p => streq (fst p) var) gen_constants with
      | Some (_, (w, t)) => streq w word && streq t ty
      | None => false
      end
  | _ => false
  end.
Theorem c13_symbolic_constants :
  const_ok "false_value" "false_cst" "false" "Bool" = true /\
  const_ok "true_value" "true_cst" "true" "Bool" = true /\
  const_ok "default_value" "default_cst" "default" "Auto" = true /\
  const_ok "delete_value" "delete_cst" "delete" "Void" = true /\
  const_ok "c_linkage" "c_link" "C" "" = true /\
  const_ok "cxx_linkage" "cxx_link" "C++" "" = true /\
  acc_lookup "nullptr_value" = Some (AccConstant "nullptr_cst").
Proof. vm_compute. repeat split; reflexivity. Qed.

(* the constants are compile-time tables: nothing a Lexicon does can change them *)
Theorem c13_tables_are_constexpr :
  gen_known_words_constexpr = true /\ gen_builtins_constexpr = true /\
  gen_std_specifiers_constexpr = true /\ gen_std_qualifiers_constexpr = true.
Proof. vm_compute. auto. Qed.

(* routes from a spelling to a node yield the constant, in every Lexicon state *)
Definition route_type (m : table) (b : nat) : bool :=
  match nth_error gen_builtins b with
  | Some w =>
    match Step m (RString (bytes_of_string w)) with
    | (m1, Some s) => match Step m1 (RIdentifier s) with
                      | (m2, Some i) => match Step m2 (RAsTypeId i) with
                                        | (_, Some (Builtin b')) => Nat.eqb b b'
                                        | _ => false end
                      | _ => false end
    | _ => false end
  | None => false
  end.
Theorem c13_spelling_routes_types : forallb (route_type []) (seq 0 (List.length gen_builtins)) = true.
Proof. vm_compute. reflexivity. Qed.

(* ... and that does not depend on the state: the three steps consult only the
   reserved-word table *)
Theorem c13_routes_state_independent : forall m m' k,
  Norm m (RIdentifier (StrKnown k)) = Norm m' (RIdentifier (StrKnown k)) /\
  Norm m (RAsTypeId (WordId k)) = Norm m' (RAsTypeId (WordId k)) /\
  Norm m (RLabel (WordId k)) = Norm m' (RLabel (WordId k)) /\
  Norm m (RLinkage (StrKnown k)) = Norm m' (RLinkage (StrKnown k)) /\
  Norm m RDecltypeNull = Norm m' RDecltypeNull /\
  (forall w, Norm m (RString w) = Norm m' (RString w)).
Proof. intros. repeat split; reflexivity. Qed.

Theorem c13_spelling_routes_atoms : forall m,
  Norm m (RLinkage (StrKnown ix_C)) = NConst CLink /\
  Norm m (RLinkage (StrKnown ix_Cxx)) = NConst CxxLink /\
  Norm m (RLabel (WordId ix_default)) = NConst (SymConst 3) /\
  Norm m RDecltypeNull = NConst NullType /\
  Norm m (RString (bytes_of_string "C")) = NConst (StrKnown ix_C) /\
  Norm m (RString (bytes_of_string "C++")) = NConst (StrKnown ix_Cxx) /\
  Norm m (RString (bytes_of_string "default")) = NConst (StrKnown ix_default).
Proof. intros. vm_compute. repeat split; reflexivity. Qed.

(* No object of static storage duration defined by the library is initialized at run time before main(): each is constexpr
   (constant-initialized, hence complete before any initializer of any translation unit runs) or a function-local static
   (initialized on first use).  A client's namespace-scope object may therefore use the library's constants. *)
Theorem c13_constants_ready_before_main :
  forallb (fun s => s_constexpr s || s_static_local s) gen_statics = true.
Proof. vm_compute. reflexivity. Qed.

Print Assumptions c13_constants_ready_before_main.
Print Assumptions c13_builtin_accessors_distinct.
Print Assumptions c13_builtin_spelling.
Print Assumptions c13_symbolic_constants.
Print Assumptions c13_tables_are_constexpr.
Print Assumptions c13_spelling_routes_types.
Print Assumptions c13_routes_state_independent.
Print Assumptions c13_spelling_routes_atoms.
