(* Subst.v — substitutions as finite maps from parameters to expressions (C16):
   impl::Elementary_substitution (include/ipr/impl:1861-1871) and
   impl::General_substitution (std::map with insert_or_assign; src/impl.cxx:1442-1454).
   Parameters and expressions are node identities; a parameter is itself an
   expression (the result for a parameter outside the domain). *)
From Coq Require Import List PeanoNat Bool.
Import ListNotations.

Inductive expr := Param (p : nat) | Value (v : nat).

Definition elem_apply (p : nat) (v : expr) (q : nat) : expr :=
  if Nat.eqb q p then v else Param q.

(* the general substitution: association list, newest binding first *)
Definition gsubst := list (nat * expr).
Definition subst (s : gsubst) (p : nat) (v : expr) : gsubst :=
  (p, v) :: filter (fun b => negb (Nat.eqb (fst b) p)) s.          (* insert_or_assign *)
Definition gen_apply (s : gsubst) (q : nat) : expr :=
  match find (fun b => Nat.eqb (fst b) q) s with Some b => snd b | None => Param q end.
Definition build (bs : list (nat * expr)) : gsubst := fold_left (fun s b => subst s (fst b) (snd b)) bs [].

(* specification: the latest binding given for q, if any *)
Fixpoint last_binding (bs : list (nat * expr)) (q : nat) : option expr :=
  match bs with
  | [] => None
  | b :: bs' => match last_binding bs' q with
                | Some v => Some v
                | None => if Nat.eqb (fst b) q then Some (snd b) else None
                end
  end.

Theorem elementary_apply : forall p v q,
  elem_apply p v q = if Nat.eqb q p then v else Param q.
Proof. reflexivity. Qed.

Theorem elementary_domain : forall p v q, (q = p -> elem_apply p v q = v) /\ (q <> p -> elem_apply p v q = Param q).
Proof.
  intros p v q. unfold elem_apply. split; intros H.
  - subst. rewrite Nat.eqb_refl. reflexivity.
  - destruct (Nat.eqb_spec q p); [contradiction|reflexivity].
Qed.

Lemma gen_apply_subst : forall s p v q,
  gen_apply (subst s p v) q = if Nat.eqb p q then v else gen_apply s q.
Proof.
  intros s p v q. unfold gen_apply, subst. simpl.
  destruct (Nat.eqb_spec p q) as [->|Hne]; [reflexivity|].
  induction s as [|b s IH]; simpl; [reflexivity|].
  destruct (Nat.eqb_spec (fst b) p) as [E|E]; simpl.
  - rewrite E. destruct (Nat.eqb_spec p q); [contradiction|]. exact IH.
  - destruct (Nat.eqb (fst b) q); [reflexivity|exact IH].
Qed.

Lemma last_binding_snoc : forall bs b q,
  last_binding (bs ++ [b]) q = if Nat.eqb (fst b) q then Some (snd b) else last_binding bs q.
Proof.
  induction bs as [|c bs IH]; intros b q; simpl.
  - destruct (Nat.eqb (fst b) q); reflexivity.
  - rewrite IH. destruct (Nat.eqb (fst b) q); [reflexivity|]. reflexivity.
Qed.

(* a general substitution has exactly the latest binding given for each parameter *)
Theorem general_apply : forall bs q,
  gen_apply (build bs) q = match last_binding bs q with Some v => v | None => Param q end.
Proof.
  intros bs. induction bs as [|b bs IH] using rev_ind; intros q; [reflexivity|].
  unfold build in *. rewrite fold_left_app. simpl.
  rewrite gen_apply_subst, last_binding_snoc, IH.
  destruct (Nat.eqb (fst b) q); reflexivity.
Qed.

(* the map holds at most one binding per parameter *)
Lemma subst_nodup : forall s p v, NoDup (map fst s) -> NoDup (map fst (subst s p v)).
Proof.
  intros s p v H. unfold subst. simpl. constructor.
  - rewrite in_map_iff. intros (x & Hx & Hin). apply filter_In in Hin as [_ Hn].
    rewrite Hx, Nat.eqb_refl in Hn. discriminate.
  - induction s as [|c s IHs]; simpl; [constructor|].
    inversion H; subst. destruct (negb (Nat.eqb (fst c) p)); simpl; auto.
    constructor; auto. rewrite in_map_iff. intros (x & Hx & Hin). apply filter_In in Hin as [Hin _].
    apply H2. rewrite <- Hx. apply in_map. exact Hin.
Qed.

Theorem general_functional : forall bs, NoDup (map fst (build bs)).
Proof.
  intros bs. induction bs as [|b bs IH] using rev_ind; [constructor|].
  unfold build in *. rewrite fold_left_app. simpl. apply (subst_nodup _ (fst b) (snd b)). exact IH.
Qed.
