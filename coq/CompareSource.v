(* CompareSource.v — the leaf comparisons every unification table ends in, as they stand in the
   source (the overloads of impl::compare, regenerated into GenDerived.gen_derived on every run):
   Strings are ordered by their characters; Logograms, Linkages and Calling conventions by the
   spelling they wrap; Transfers lexicographically by (linkage, convention); every other node by
   its address.  Each statement holds for EVERY interpretation of the primitive accessors. *)
From Coq Require Import List ZArith String Bool.
From IprV Require Import GenTypes Derived GenDerived GenCmp.
Import ListNotations.
Local Open Scope string_scope.

Section Compare.
Variable I : interp.

(* the body of the overload for [ty], applied to two operands *)
Definition cmp (fuel : nat) (ty : string) (a b : value) : value :=
  match lookup_row gen_derived ("::compare(" ++ ty ++ ")") with
  | Some (_, body) => eval gen_derived I fuel (VErr "no receiver") [a; b] body
  | None => VErr "no such overload"
  end.

(* a parameterless accessor of the interface, primitive or derived *)
Definition acc (fuel : nat) (name : string) (x : value) : value :=
  eval gen_derived I fuel x [] (CCall name CThis []).

(* both sides are closed programs over the regenerated table applied to symbolic operands: evaluation decides the equality *)
Ltac unfold_cmp := unfold cmp, acc; vm_compute.

Theorem string_order_is_by_characters : forall fuel a b,
  cmp (20 + fuel) "ipr::String" a b =
  prim I "ext::compare" (acc (20 + fuel) "String::characters" a) [acc (20 + fuel) "String::characters" b].
Proof. intros. unfold_cmp. reflexivity. Qed.

Theorem logogram_order_is_by_spelling : forall fuel a b,
  cmp (20 + fuel) "ipr::Logogram" a b =
  cmp (20 + fuel) "ipr::String" (acc (20 + fuel) "Logogram::what" a) (acc (20 + fuel) "Logogram::what" b).
Proof. intros. unfold_cmp. reflexivity. Qed.

Theorem linkage_order_is_by_language : forall fuel a b,
  cmp (20 + fuel) "ipr::Linkage" a b =
  cmp (20 + fuel) "ipr::Logogram" (acc (20 + fuel) "Linkage::language" a) (acc (20 + fuel) "Linkage::language" b).
Proof. intros. unfold_cmp. reflexivity. Qed.

Theorem convention_order_is_by_name : forall fuel a b,
  cmp (20 + fuel) "ipr::Calling_convention" a b =
  cmp (20 + fuel) "ipr::Logogram" (acc (20 + fuel) "Calling_convention::name" a) (acc (20 + fuel) "Calling_convention::name" b).
Proof. intros. unfold_cmp. reflexivity. Qed.

Theorem transfer_order_is_lexicographic : forall fuel a b,
  cmp (20 + fuel) "ipr::Transfer" a b =
  match cmp (20 + fuel) "ipr::Linkage" (acc (20 + fuel) "Transfer::linkage" a) (acc (20 + fuel) "Transfer::linkage" b) with
  | VZ 0 => cmp (20 + fuel) "ipr::Calling_convention" (acc (20 + fuel) "Transfer::convention" a) (acc (20 + fuel) "Transfer::convention" b)
  | VZ z => VZ z
  | _ => VErr "three-way result"
  end.
Proof. intros. unfold_cmp. reflexivity. Qed.

Theorem node_order_is_by_address : forall fuel a b this,
  match lookup_row gen_derived "::compare(ipr::Node)" with
  | Some (_, body) => eval gen_derived I (20 + fuel) this [a; b] body
  | None => VErr "no such overload"
  end = prim I "::compare(ipr::Node*)" this [a; b].
Proof. intros. unfold_cmp. reflexivity. Qed.
End Compare.

(* Which overload each call of impl::compare in the library resolves to (regenerated: GenCmp.gen_compare_calls).  Operands of the
   five value types are never compared as mere nodes (by address): a call whose operands are Strings, Logograms, Linkages, Calling
   conventions or Transfers resolves to the overload for exactly that type; and each of the five overloads is in use. *)
Definition by_value : list string :=
  ["ipr::String"; "ipr::Logogram"; "ipr::Linkage"; "ipr::Calling_convention"; "ipr::Transfer"].

Definition call_ok (c : string * string * nat) : bool :=
  let '(operand, overload, _) := c in
  if existsb (streq operand) by_value then streq overload operand else true.

Definition calls_ok (calls : list (string * string * nat)) : bool :=
  forallb call_ok calls &&
  forallb (fun t => existsb (fun c => let '(operand, overload, n) := c in streq operand t && streq overload t && Nat.ltb 0 n) calls) by_value.

Lemma value_operands_resolve_to_value_overloads : calls_ok gen_compare_calls = true.
Proof. vm_compute. reflexivity. Qed.

(* the check refuses the resolution a one-word edit of an overload's parameter type produces *)
Example calls_ok_refuses_address_comparison_of_strings :
  calls_ok [("ipr::String", "ipr::Node", 6); ("ipr::Logogram", "ipr::Logogram", 4); ("ipr::Linkage", "ipr::Linkage", 3);
            ("ipr::Calling_convention", "ipr::Calling_convention", 3); ("ipr::Transfer", "ipr::Transfer", 2)] = false.
Proof. vm_compute. reflexivity. Qed.
