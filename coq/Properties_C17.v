(* Properties_C17.v — C17: printed text depends only on graph structure and printer options. *)
From Coq Require Import List String Bool Arith.
From IprV Require Import GenTypes PrinterDispatch PrintModel.
From IprV.gen Require Import GenPrinter GenStatics.
Import ListNotations.
Local Open Scope string_scope.

(* obligations on the CURRENT src/io.cxx: no pointer comparison, no pointer-to-integer conversion, no container keyed
   or ordered by addresses is declared or iterated anywhere in the printer; source locations are read in one function
   only, which is reached only through the function that tests Printer::print_locations *)
Lemma printer_consults_no_address : gen_pr_address_uses = [].
Proof. reflexivity. Qed.
Lemma locations_read_only_behind_the_switch :
  gen_pr_location_reads = ["ipr::xpr::Location_printer operator()(void (const ipr::Stmt &))"] /\
  gen_pr_location_gates = ["ipr::xpr::Location_printer print(void (ipr::Printer &, const ipr::Node &))"].
Proof. split; reflexivity. Qed.

Theorem c17_printer_consults_no_address : gen_pr_address_uses = [].
Proof. exact printer_consults_no_address. Qed.
Theorem c17_locations_read_only_behind_the_switch :
  gen_pr_location_reads = ["ipr::xpr::Location_printer operator()(void (const ipr::Stmt &))"] /\
  gen_pr_location_gates = ["ipr::xpr::Location_printer print(void (ipr::Printer &, const ipr::Node &))"].
Proof. exact locations_read_only_behind_the_switch. Qed.
Theorem c17_unfold_invariant_under_isomorphism : forall (label : Type) phi (g g' : graph label), graph_iso label phi g g' ->
  forall f n, unfold label g f n = unfold label g' f (phi n).
Proof. exact unfold_invariant_under_isomorphism. Qed.
Theorem c17_print_address_independent : forall (label options out : Type) (print_term : options -> term label -> out) phi g g',
  graph_iso label phi g g' -> forall o f n, print label options out print_term o g f n = print label options out print_term o g' f (phi n).
Proof. exact print_address_independent. Qed.
Theorem c17_locations_hidden_when_disabled : forall (word : Type) emit show_loc t,
  pr word emit show_loc false t = pr word emit show_loc false (erase word t).
Proof. exact locations_hidden_when_disabled. Qed.
Theorem c17_location_shown_when_enabled : forall (word : Type) emit show_loc w x ks,
  pr word emit show_loc true (Node _ (w, Some x) ks) = (show_loc x ++ emit w (map (pr word emit show_loc true) ks))%list.
Proof. exact location_shown_when_enabled. Qed.
Theorem c17_no_location_no_difference : forall (word : Type) emit show_loc t,
  pr word emit show_loc true (erase word t) = pr word emit show_loc false (erase word t).
Proof. exact no_location_no_difference. Qed.

(* the premises are met: two different numberings of one three-node program *)
Example c17_example :
  let g  := {| g_label := fun n => n * 10; g_kids := fun n => match n with 0 => [1; 2] | _ => [] end |} in
  let g' := {| g_label := fun n => match n with 7 => 0 | 3 => 10 | 5 => 20 | _ => 99 end;
               g_kids := fun n => match n with 7 => [3; 5] | _ => [] end |} in
  unfold nat g 3 0 = unfold nat g' 3 7.
Proof. vm_compute. reflexivity. Qed.

(* Printing is a traversal through const accessors.  No class of the library has a `mutable` data member (table regenerated from
   the source), so no const accessor can write into a node: the graph is left as it was found, and two printers may read one graph
   at the same time. *)
Theorem c17_const_accessors_cannot_write : gen_mutable_records = [].
Proof. reflexivity. Qed.

Print Assumptions c17_const_accessors_cannot_write.
Print Assumptions c17_printer_consults_no_address.
Print Assumptions c17_locations_read_only_behind_the_switch.
Print Assumptions c17_unfold_invariant_under_isomorphism.
Print Assumptions c17_print_address_independent.
Print Assumptions c17_locations_hidden_when_disabled.
Print Assumptions c17_location_shown_when_enabled.
Print Assumptions c17_no_location_no_difference.
Print Assumptions c17_example.
