(* LexTables.v — every unification table of the library, seen as a red-black
   container ordered by the comparator its call site uses, answers two
   requests with the same node iff their keys are equal (Unify.tree_unified),
   for an arbitrary injective address map.  One theorem per comparator shape:

   unary  by address      pointers, references, as_type(expr), conversions, ctor/dtor/guide names, suffixes
   binary by addresses    arrays, tors, pointers to member, foralls, symbols, template-ids
   (N, address)           qualified types
   ternary by addresses   functions
   sequence, element-wise products, sums, type sequences
   by spelling            identifiers, operators, logograms, linkages, conventions, transfers
   mixed                  literals (address, spelling); with-transfer tables (addresses, spellings) *)
From Coq Require Import List ZArith NArith Lia Bool.
From IprV Require Import RBModel RBProofs Comparators Unify Arena.
Import ListNotations.
Local Open Scope Z_scope.

(* the generic statement, with the decision procedure derived from the comparator *)
Section Generic.
Variable key : Type.
Variable cmp : key -> key -> Z.
Hypothesis cmp_total : TotalOrder key cmp.
Hypothesis cmp_eq : forall a b, cmp a b = 0 <-> a = b.

Theorem table_unified : forall ks : list key, exists s ns,
  trun key cmp (rb_empty (elt key)) ks = Some (s, ns) /\ length ns = length ks /\
  forall i j ki kj ni nj,
    nth_error ks i = Some ki -> nth_error ks j = Some kj ->
    nth_error ns i = Some ni -> nth_error ns j = Some nj -> (ni = nj <-> ki = kj).
Proof.
  apply (tree_unified key cmp cmp_total cmp_eq (fun a b => cmp a b =? 0)).
  intros a b. rewrite Z.eqb_eq. apply cmp_eq.
Qed.
End Generic.

(* spelling comparison: std::u8string_view::compare = bytewise lexicographic *)
Definition byte_cmp (a b : N) : Z := int_cmp (Z.of_N a) (Z.of_N b).
Lemma byte_cmp_total : TotalOrder N byte_cmp.
Proof.
  split; unfold byte_cmp; intros.
  - apply (sgn_antisym _ _ int_cmp_total).
  - eapply (le_trans _ _ int_cmp_total); eauto.
Qed.
Lemma byte_cmp_eq a b : byte_cmp a b = 0 <-> a = b.
Proof. unfold byte_cmp. rewrite int_cmp_eq. lia. Qed.

Definition spell_cmp : word -> word -> Z := lex_cmp N byte_cmp.
Lemma spell_cmp_total : TotalOrder word spell_cmp.
Proof. apply lex_cmp_total, byte_cmp_total. Qed.
Lemma spell_cmp_eq a b : spell_cmp a b = 0 <-> a = b.
Proof. apply lex_cmp_eq. apply byte_cmp_eq. Qed.

Section Shapes.
Variable node : Type.
Variable addr : node -> Z.
Hypothesis addr_inj : forall a b, addr a = addr b -> a = b.

Notation acmp := (by_key node addr).
Let acmp_total := by_key_total node addr.
Let acmp_eq := by_key_eq node addr addr_inj.

Definition unary_cmp := acmp.
Definition binary_cmp := pair_cmp node node acmp acmp.
Definition qual_cmp := pair_cmp Z node int_cmp acmp.
Definition ternary_cmp := pair_cmp node (node * node) acmp (pair_cmp node node acmp acmp).
Definition seq_cmp := lex_cmp node acmp.
Definition literal_cmp := pair_cmp node word acmp spell_cmp.
Definition xfer_cmp := pair_cmp word word spell_cmp spell_cmp.
Definition astype_x_cmp := pair_cmp node (word * word) acmp xfer_cmp.
Definition fun_x_cmp := pair_cmp (node * (node * node)) (word * word) ternary_cmp xfer_cmp.

Ltac solve_total := repeat first [apply spell_cmp_total | apply byte_cmp_total | apply by_key_total | apply int_cmp_total
                                 | apply pair_cmp_total | apply lex_cmp_total].
Ltac solve_eq := repeat first [exact spell_cmp_eq | exact byte_cmp_eq | exact acmp_eq | exact int_cmp_eq
                              | apply pair_cmp_eq | apply lex_cmp_eq].

Theorem unary_table_unified : forall ks, exists s ns,
  trun node unary_cmp (rb_empty _) ks = Some (s, ns) /\ length ns = length ks /\
  forall i j ki kj ni nj, nth_error ks i = Some ki -> nth_error ks j = Some kj ->
    nth_error ns i = Some ni -> nth_error ns j = Some nj -> (ni = nj <-> ki = kj).
Proof. apply table_unified; [solve_total | exact acmp_eq]. Qed.

Theorem binary_table_unified : forall ks, exists s ns,
  trun _ binary_cmp (rb_empty _) ks = Some (s, ns) /\ length ns = length ks /\
  forall i j ki kj ni nj, nth_error ks i = Some ki -> nth_error ks j = Some kj ->
    nth_error ns i = Some ni -> nth_error ns j = Some nj -> (ni = nj <-> ki = kj).
Proof. apply table_unified; [unfold binary_cmp; solve_total | unfold binary_cmp; solve_eq]. Qed.

Theorem qualified_table_unified : forall ks, exists s ns,
  trun _ qual_cmp (rb_empty _) ks = Some (s, ns) /\ length ns = length ks /\
  forall i j ki kj ni nj, nth_error ks i = Some ki -> nth_error ks j = Some kj ->
    nth_error ns i = Some ni -> nth_error ns j = Some nj -> (ni = nj <-> ki = kj).
Proof. apply table_unified; [unfold qual_cmp; solve_total | unfold qual_cmp; solve_eq]. Qed.

Theorem ternary_table_unified : forall ks, exists s ns,
  trun _ ternary_cmp (rb_empty _) ks = Some (s, ns) /\ length ns = length ks /\
  forall i j ki kj ni nj, nth_error ks i = Some ki -> nth_error ks j = Some kj ->
    nth_error ns i = Some ni -> nth_error ns j = Some nj -> (ni = nj <-> ki = kj).
Proof. apply table_unified; [unfold ternary_cmp; solve_total | unfold ternary_cmp; solve_eq]. Qed.

Theorem sequence_table_unified : forall ks, exists s ns,
  trun _ seq_cmp (rb_empty _) ks = Some (s, ns) /\ length ns = length ks /\
  forall i j ki kj ni nj, nth_error ks i = Some ki -> nth_error ks j = Some kj ->
    nth_error ns i = Some ni -> nth_error ns j = Some nj -> (ni = nj <-> ki = kj).
Proof. apply table_unified; [unfold seq_cmp; solve_total | unfold seq_cmp; solve_eq]. Qed.

Theorem spelling_table_unified : forall ks, exists s ns,
  trun _ spell_cmp (rb_empty _) ks = Some (s, ns) /\ length ns = length ks /\
  forall i j ki kj ni nj, nth_error ks i = Some ki -> nth_error ks j = Some kj ->
    nth_error ns i = Some ni -> nth_error ns j = Some nj -> (ni = nj <-> ki = kj).
Proof. apply table_unified; [apply spell_cmp_total | exact spell_cmp_eq]. Qed.

Theorem literal_table_unified : forall ks, exists s ns,
  trun _ literal_cmp (rb_empty _) ks = Some (s, ns) /\ length ns = length ks /\
  forall i j ki kj ni nj, nth_error ks i = Some ki -> nth_error ks j = Some kj ->
    nth_error ns i = Some ni -> nth_error ns j = Some nj -> (ni = nj <-> ki = kj).
Proof. apply table_unified; [unfold literal_cmp; solve_total | unfold literal_cmp; solve_eq]. Qed.

Theorem transfer_table_unified : forall ks, exists s ns,
  trun _ xfer_cmp (rb_empty _) ks = Some (s, ns) /\ length ns = length ks /\
  forall i j ki kj ni nj, nth_error ks i = Some ki -> nth_error ks j = Some kj ->
    nth_error ns i = Some ni -> nth_error ns j = Some nj -> (ni = nj <-> ki = kj).
Proof. apply table_unified; [unfold xfer_cmp; solve_total | unfold xfer_cmp; solve_eq]. Qed.

Theorem astype_transfer_table_unified : forall ks, exists s ns,
  trun _ astype_x_cmp (rb_empty _) ks = Some (s, ns) /\ length ns = length ks /\
  forall i j ki kj ni nj, nth_error ks i = Some ki -> nth_error ks j = Some kj ->
    nth_error ns i = Some ni -> nth_error ns j = Some nj -> (ni = nj <-> ki = kj).
Proof. apply table_unified; [unfold astype_x_cmp, xfer_cmp; solve_total | unfold astype_x_cmp, xfer_cmp; solve_eq]. Qed.

Theorem function_transfer_table_unified : forall ks, exists s ns,
  trun _ fun_x_cmp (rb_empty _) ks = Some (s, ns) /\ length ns = length ks /\
  forall i j ki kj ni nj, nth_error ks i = Some ki -> nth_error ks j = Some kj ->
    nth_error ns i = Some ni -> nth_error ns j = Some nj -> (ni = nj <-> ki = kj).
Proof.
  apply table_unified; [unfold fun_x_cmp, ternary_cmp, xfer_cmp; solve_total
                       | unfold fun_x_cmp, ternary_cmp, xfer_cmp; solve_eq].
Qed.

(* what goes wrong when a call site resolves to the (Node, Node) overload with
   an element type that is not the key type: the element's OWN address is
   compared with the key, no stored element ever compares equal to a request
   (elements are fresh allocations), so every request creates a node. *)
Theorem self_address_never_finds : forall (elt_addr : nat -> Z) (keys : list node) (k : node) (stored : list nat),
  (forall n, elt_addr n <> addr k) ->
  forall n, In n stored -> int_cmp (elt_addr n) (addr k) <> 0.
Proof. intros ea keys k stored H n _. rewrite int_cmp_eq. apply H. Qed.
End Shapes.
