(* Extract.v — extraction of the executable models to OCaml for the
   correspondence harness.  ExtrOcamlBasic only: bool, option, unit, list,
   prod, sumbool, sumor map to the OCaml types; Z, N, positive, nat stay
   extracted inductives.  No Extract Constant / Extract Inductive of our own. *)
From Coq Require Import ExtrOcamlBasic.
From Coq Require Import List ZArith NArith.
From IprV Require Import RBModel Comparators Scope Subst Region.
(* stable, unambiguous names for the driver *)
Definition rb_find := RBModel.find.
Definition rb_elements := RBModel.elements.
Definition rb_height := RBModel.height.
Definition rb_size := RBModel.size.
Definition rb_insert_owning := RBModel.insert_owning.
Definition rb_insert_chain := RBModel.insert_chain.
Definition rb_insert_tags := RBModel.insert_tags.
Definition scope_run := Scope.run.
Definition scope_elements := Scope.elements.
Definition scope_types := Scope.scope_type.
Definition scope_lookup := Scope.lookup.
Definition scope_select := Scope.select.
Definition scope_decl_set := Scope.decl_set.
Definition scope_master := Scope.master.
Definition scope_h_run := Scope.h_run.
Definition region_run := Region.run.
Definition region_outward := Region.outward.
Definition region_is_global := Region.is_global.
Definition subst_elem := Subst.elem_apply.
Definition subst_gen (bs : list (nat * Subst.expr)) (q : nat) := Subst.gen_apply (Subst.build bs) q.

Extraction Language OCaml.
Extraction "extracted/model.ml"
  rb_insert_owning rb_insert_chain rb_find RBModel.rb_empty rb_insert_tags rb_elements rb_height rb_size
  Comparators.int_cmp Comparators.lex_cmp Comparators.pair_cmp
  Z.sub Z.add Z.of_nat Z.to_nat N.of_nat N.to_nat
  scope_run scope_elements scope_types scope_lookup scope_select scope_decl_set scope_master scope_h_run
  subst_elem subst_gen
  region_run region_outward region_is_global.
