(* Extract.v — extraction of the executable models to OCaml for the
   correspondence harness.  ExtrOcamlBasic only: bool, option, unit, list,
   prod, sumbool, sumor map to the OCaml types; Z, N, positive, nat stay
   extracted inductives.  No Extract Constant / Extract Inductive of our own. *)
From Coq Require Import ExtrOcamlBasic.
From Coq Require Import List ZArith NArith.
From IprV Require Import RBModel Comparators.
Extraction Language OCaml.
Extraction "extracted/model.ml"
  RBModel.insert_owning RBModel.insert_chain RBModel.find RBModel.rb_empty
  RBModel.insert_tags RBModel.elements RBModel.height RBModel.size
  Comparators.int_cmp Comparators.lex_cmp Comparators.pair_cmp
  Z.sub Z.add Z.of_nat Z.to_nat N.of_nat N.to_nat.
