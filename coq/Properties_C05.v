(* Properties_C05.v — C05: node identity is stable: nodes never move, never silently change,
   never alias.  The logical half is proved over append-only histories (Stability.v); the
   physical half ("keeps its address", "stays valid") is partial: it rests on the container
   lemma below, whose premises are the C++ standard's invalidation rules applied to the
   containers and growth operations the CURRENT source uses (GenStore), and on ASan runs. *)
From Coq Require Import List String Bool Arith Lia.
From IprV Require Import GenTypes Schema Typing Stability.
From IprV.gen Require Import GenStore.
From IprV Require StateSpace.
Import ListNotations.
Local Open Scope string_scope.
Local Open Scope list_scope.

Lemma object_stores_reference_stable : forallb (store_ok gen_store_growth gen_store_bases) gen_store_bases = true.
Proof. vm_compute. reflexivity. Qed.

(* the stores that hold node objects are exactly the ones the lemma speaks of (non-vacuity) *)
Lemma object_stores_present :
  forallb (fun s => match Schema.lookup s gen_store_bases with Some bs => existsb holds_objects bs || streq s "obj_list" | None => false end)
          ["stable_farm"; "obj_sequence"; "obj_list"; "string_pool"] = true.
Proof. vm_compute. reflexivity. Qed.

(* what the rules reject, for the record *)
Example vector_growth_is_not_stable : growth_keeps_references "std::vector<T>" "emplace_back" = false /\
  growth_keeps_references "std::deque<T>" "insert" = false /\ growth_keeps_references "std::deque<T>" "emplace_back" = true.
Proof. vm_compute. repeat split. Qed.

Theorem c05_observation_stable : forall h1 h2 n x, nth_error (hrun h1) n = Some x ->
  exists y, nth_error (hrun (h1 ++ h2)) n = Some y /\ t_cat y = t_cat x /\ t_slots y = t_slots x /\ t_typing y = t_typing x /\
            t_members y = t_members x ++ additions_to n h2.
Proof. exact observation_stable. Qed.
Theorem c05_untouched_node_is_identical : forall h1 h2 n x, nth_error (hrun h1) n = Some x -> additions_to n h2 = [] ->
  nth_error (hrun (h1 ++ h2)) n = Some x.
Proof. exact untouched_node_is_identical. Qed.
Theorem c05_make_fresh : forall h c s t, nth_error (hstep h (HMake c s t)) (List.length h) =
    Some {| t_cat := c; t_slots := s; t_typing := t; t_members := [] |} /\
  forall k, k < List.length h -> k <> List.length h.
Proof. exact make_fresh. Qed.
Theorem c05_object_stores_reference_stable_partial : forallb (store_ok gen_store_growth gen_store_bases) gen_store_bases = true.
Proof. exact object_stores_reference_stable. Qed.
Theorem c05_object_stores_present : forallb (fun s => match Schema.lookup s gen_store_bases with Some bs => existsb holds_objects bs || streq s "obj_list" | None => false end)
          ["stable_farm"; "obj_sequence"; "obj_list"; "string_pool"] = true.
Proof. exact object_stores_present. Qed.

Example c05_example :
  let h1 := [HMake "Enum" [] None; HMake "Enumerator" [] (Some 0)] in
  let h2 := [HAdd 0 1; HMake "Plus" [("first", 1)] None; HAdd 0 2] in
  option_map t_members (nth_error (hrun (h1 ++ h2)) 0) = Some [1; 2] /\
  nth_error (hrun (h1 ++ h2)) 1 = nth_error (hrun h1) 1.
Proof. vm_compute. split; reflexivity. Qed.

(* the list-like stores have no state beyond their standard container (and obj_list its end mark) (StateSpace.v against the regenerated GenState) *)
Theorem c05_state_is_what_the_model_abstracts :
  StateSpace.state_as_modelled (StateSpace.store_state) = true.
Proof. vm_compute. reflexivity. Qed.

Print Assumptions c05_state_is_what_the_model_abstracts.
Print Assumptions c05_observation_stable.
Print Assumptions c05_untouched_node_is_identical.
Print Assumptions c05_make_fresh.
Print Assumptions c05_object_stores_reference_stable_partial.
Print Assumptions c05_object_stores_present.
Print Assumptions c05_example.
