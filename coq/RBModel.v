(* RBModel.v — executable model of ipr::util::rb_tree (include/ipr/utility:88-391).

   The C++ tree is a parent-linked CLRS red-black tree.  The model is a
   functional zipper: [descend] builds the ancestor path the C++ loop walks
   (`slot`/`parent` in container::insert, `slot`/`up` in chain::insert),
   [fixup] is core::fixup_insert as structural recursion on that path, two
   frames per recolouring step, the four rotation cases written as the
   result of the rotate_left/rotate_right compositions.

   Orientation is the code's: the search goes LEFT when comp(data,key) < 0.

   This file contains definitions only (it is extracted and evaluated for the
   correspondence check); proofs are in RBProofs.v. *)

From Coq Require Import List ZArith Bool.
Import ListNotations.

Section RB.
Variable key : Type.
Variable cmp : key -> key -> Z.      (* comp(data, key) of the C++ *)

Inductive color := Red | Black.
Inductive tree := E | T (c : color) (l : tree) (k : key) (r : tree).
Inductive dir := GoL | GoR.
Record frame := F { fd : dir; fc : color; fk : key; fsib : tree }.

Definition plug (z : tree) (f : frame) : tree :=
  match fd f with
  | GoL => T (fc f) z (fk f) (fsib f)
  | GoR => T (fc f) (fsib f) (fk f) z
  end.

Fixpoint zip (z : tree) (p : list frame) : tree :=
  match p with [] => z | f :: p' => zip (plug z f) p' end.

Definition is_red (t : tree) : bool :=
  match t with T Red _ _ _ => true | _ => false end.

Definition paint (c : color) (t : tree) : tree :=
  match t with E => E | T _ l k r => T c l k r end.

(* core::fixup_insert.  [z] is the subtree rooted at the C++ `z`; [p] the
   ancestors of z, nearest first.  A red parent without a grandparent is the
   point where the C++ would dereference a null pointer: the model returns
   None there, and RBProofs shows it unreachable. *)
Fixpoint fixup (z : tree) (p : list frame) {struct p} : option tree :=
  match p with
  | [] => Some z
  | f1 :: p1 =>
    match fc f1 with
    | Black => Some (zip z p)
    | Red =>
      match p1 with
      | [] => None
      | f2 :: p2 =>
        let uncle := fsib f2 in
        if is_red uncle then
          let parent := plug z (F (fd f1) Black (fk f1) (fsib f1)) in
          let g := plug parent (F (fd f2) Red (fk f2) (paint Black uncle)) in
          fixup g p2
        else
          match fd f2, fd f1, z with
          | GoL, GoL, _ =>
              Some (zip (T Black z (fk f1) (T Red (fsib f1) (fk f2) uncle)) p2)
          | GoL, GoR, T _ zl zk zr =>
              Some (zip (T Black (T Red (fsib f1) (fk f1) zl) zk (T Red zr (fk f2) uncle)) p2)
          | GoR, GoR, _ =>
              Some (zip (T Black (T Red uncle (fk f2) (fsib f1)) (fk f1) z) p2)
          | GoR, GoL, T _ zl zk zr =>
              Some (zip (T Black (T Red uncle (fk f2) zl) zk (T Red zr (fk f1) (fsib f1))) p2)
          | _, _, E => None
          end
      end
    end
  end.

(* The search loop of insert: Some path to the empty slot, or None when an
   element comparing equal is met. *)
Fixpoint descend (t : tree) (k : key) (p : list frame) : option (list frame) :=
  match t with
  | E => Some p
  | T c l x r =>
    let o := cmp x k in
    if (o <? 0)%Z then descend l k (F GoL c x r :: p)
    else if (0 <? o)%Z then descend r k (F GoR c x l :: p)
    else None
  end.

(* find (both flavours): the stored element comparing equal, if any. *)
Fixpoint find (t : tree) (k : key) : option key :=
  match t with
  | E => None
  | T _ l x r =>
    let o := cmp x k in
    if (o <? 0)%Z then find l k
    else if (0 <? o)%Z then find r k
    else Some x
  end.

Record rbstate := { rb_tree : tree; rb_count : Z }.
Definition rb_empty : rbstate := {| rb_tree := E; rb_count := 0 |}.

(* Result of an insertion: the new state, and the element now standing for
   the key (fresh = true when a node was allocated). *)
Record ins_result := { ir_state : rbstate; ir_elem : key; ir_fresh : bool }.

(* container<T>::insert (owning flavour). *)
Definition insert_owning (s : rbstate) (k : key) : option ins_result :=
  match descend (rb_tree s) k [] with
  | None =>
      match find (rb_tree s) k with
      | Some x => Some {| ir_state := s; ir_elem := x; ir_fresh := false |}
      | None => None
      end
  | Some p =>
      match fixup (T Red E k E) p with
      | Some t' =>
          Some {| ir_state := {| rb_tree := paint Black t'; rb_count := rb_count s + 1 |};
                  ir_elem := k; ir_fresh := true |}
      | None => None
      end
  end.

(* chain<Node>::insert (intrusive flavour): an equal key leaves the tree
   alone but `count` is incremented all the same, and the argument node is
   returned. *)
Definition insert_chain (s : rbstate) (k : key) : option ins_result :=
  match descend (rb_tree s) k [] with
  | None =>
      Some {| ir_state := {| rb_tree := rb_tree s; rb_count := rb_count s + 1 |};
              ir_elem := k; ir_fresh := false |}
  | Some p =>
      match fixup (T Red E k E) p with
      | Some t' =>
          Some {| ir_state := {| rb_tree := paint Black t'; rb_count := rb_count s + 1 |};
                  ir_elem := k; ir_fresh := true |}
      | None => None
      end
  end.

Definition insert_tree (t : tree) (k : key) : option tree :=
  match descend t k [] with
  | None => Some t
  | Some p => option_map (paint Black) (fixup (T Red E k E) p)
  end.

Fixpoint inserts (t : tree) (ks : list key) : option tree :=
  match ks with
  | [] => Some t
  | k :: ks' => match insert_tree t k with Some t' => inserts t' ks' | None => None end
  end.

Fixpoint elements (t : tree) : list key :=
  match t with E => [] | T _ l k r => elements l ++ k :: elements r end.

Fixpoint size (t : tree) : nat :=
  match t with E => 0 | T _ l _ r => S (size l + size r) end.

Fixpoint height (t : tree) : nat :=
  match t with E => 0 | T _ l _ r => S (Nat.max (height l) (height r)) end.

(* Branch tags of one insertion, for generator-adequacy accounting. *)
Inductive tag := TagFound | TagRoot | TagParentBlack | TagUncleRed
               | TagLL | TagLR | TagRR | TagRL | TagStuck.

Fixpoint fixup_tags (z : tree) (p : list frame) {struct p} : list tag :=
  match p with
  | [] => [TagRoot]
  | f1 :: p1 =>
    match fc f1 with
    | Black => [TagParentBlack]
    | Red =>
      match p1 with
      | [] => [TagStuck]
      | f2 :: p2 =>
        let uncle := fsib f2 in
        if is_red uncle then
          let parent := plug z (F (fd f1) Black (fk f1) (fsib f1)) in
          let g := plug parent (F (fd f2) Red (fk f2) (paint Black uncle)) in
          TagUncleRed :: fixup_tags g p2
        else
          match fd f2, fd f1 with
          | GoL, GoL => [TagLL] | GoL, GoR => [TagLR]
          | GoR, GoR => [TagRR] | GoR, GoL => [TagRL]
          end
      end
    end
  end.

Definition insert_tags (t : tree) (k : key) : list tag :=
  match descend t k [] with
  | None => [TagFound]
  | Some p => fixup_tags (T Red E k E) p
  end.

End RB.

Arguments E {key}.
Arguments T {key}.
Arguments F {key}.
Arguments fd {key}.
Arguments fc {key}.
Arguments fk {key}.
Arguments fsib {key}.
