(* Properties_C18.v — C18: printing terminates and leaves the stream and the printer as it found them.

   Everything here is about tables regenerated from the CURRENT src/io.cxx (GenPrinter: visitor classes,
   handlers, the dispatches each handler makes resolved down to (visitor class, node path), guards,
   net indentation along every path, iostream manipulators) and from the current Visitor interface
   (GenVisitor: default forwarding). *)
From Coq Require Import List String Bool Arith ZArith Lia.
From Coq Require Import NArith.
From IprV Require Import GenTypes Schema Visitor PrinterDispatch LiteralModel.
From IprV.gen Require Import GenVisitor GenIface GenCategory GenPrinter.
From IprV Require StateSpace.
Import ListNotations.
Local Open Scope string_scope.
Local Open Scope list_scope.

(* default forwarding of ipr::Visitor: visit(const X&) calls visit(const parent(X)&); the pure ones end the chain *)
Definition forward (x : string) : option string :=
  match List.find (fun r => streq (v_param r) x) gen_visitor with
  | Some r => if v_pure r then None else match v_forward r with p :: _ => Some p | [] => None end
  | None => None
  end.

(* types whose name() may be the type-id of the type itself.  As_type is excluded: its printers consult the name only
   under denote_builtin_type(t), which holds for the named built-in types, whose names are identifiers (C13). *)
Definition is_type_kind (k : string) : bool :=
  match List.find (fun r => streq (if_name r) k) gen_ifaces with
  | Some r => streq (if_nearest r) "Type" && negb (streq k "As_type")
  | None => false
  end.

Definition succ := successors gen_pr_classes gen_pr_handlers forward is_type_kind.

(* entry points: the visitor class each helper's operator<< hands the node to *)
Definition entry_classes : list string :=
  flat_map (fun e => flat_map (fun a => match a with PDispatch c [] => [c] | _ => [] end) (fst (snd e))) gen_pr_entries.

Definition leaf_categories : list string :=
  flat_map (fun r => if if_is_node r && Z.leb 0 (if_code r) then
                       match nth_error gen_categories (Z.to_nat (if_code r)) with Some c => [c] | None => [] end
                     else []) gen_ifaces.

Definition entry (c k : string) : pstate := {| ps_dyn := c; ps_from := c; ps_static := k; ps_cat := k; ps_mark := false |}.

Definition acyclic_all : bool :=
  forallb (fun k => forallb (fun c => acyclic gen_pr_classes gen_pr_handlers forward is_type_kind 64 [] (entry c k)) entry_classes) leaf_categories.

(* no handler recurses on the same node without bound: the same-node dispatch graph has no cycle, for every node category
   offered to every entry point (xpr_decl, xpr_stmt, xpr_type, xpr_expr and the internal ones) *)
Lemma same_node_dispatch_acyclic : acyclic_all = true.
Proof. vm_cast_no_check (eq_refl true). Qed.

(* the states reachable through same-node dispatches from the entry points, grouped by the category of the node
   (a state about "the type-id naming a K" belongs to K's group) *)
Fixpoint closure (fuel : nat) (s : pstate) : list pstate :=
  match fuel with
  | O => [s]
  | S f => s :: match succ s with Some l => flat_map (closure f) l | None => [] end
  end.
Fixpoint dedupe (l : list pstate) (acc : list pstate) : list pstate :=
  match l with
  | [] => acc
  | x :: r => if existsb (pstate_eqb x) acc then dedupe r acc else dedupe r (x :: acc)
  end.
Definition states_of (k : string) : list pstate := dedupe (flat_map (fun c => closure 12 (entry c k)) entry_classes) [].
Definition state_table : list (string * list pstate) := map (fun k => (k, states_of k)) leaf_categories.
Definition root (s : pstate) : string := match is_typeid_of (ps_cat s) with Some k => k | None => ps_cat s end.

Definition rank (s : pstate) : nat := chain_length gen_pr_classes gen_pr_handlers forward is_type_kind 16 s.
Definition rank_bound : nat := 12.

Definition known (s : pstate) : bool :=
  match Schema.lookup (root s) state_table with Some l => existsb (pstate_eqb s) l | None => false end.

Definition row_ok (r : string * list pstate) : bool :=
  forallb (fun s => Nat.leb (rank s) rank_bound &&
                    match succ s with
                    | Some l => forallb (fun s' => Nat.ltb (rank s') (rank s) && existsb (pstate_eqb s') (snd r) && streq (root s') (fst r)) l
                    | None => false
                    end) (snd r).
Lemma rows_ok : forallb row_ok state_table = true.
Proof. vm_cast_no_check (eq_refl true). Qed.
Lemma table_keys_nodup : str_nodup (map fst state_table) = true.
Proof. vm_cast_no_check (eq_refl true). Qed.

Lemma lookup_in_nodup : forall (A : Type) (t : list (string * A)) k l, str_nodup (map fst t) = true -> In (k, l) t -> Schema.lookup k t = Some l.
Proof.
  intros A t k l. unfold Schema.lookup. induction t as [|[k0 l0] t IH]; intros Hn Hin; [contradiction|].
  simpl in *. apply andb_true_iff in Hn as [Hn1 Hn2].
  destruct Hin as [E|Hin].
  - inversion E; subst. unfold streq. rewrite String.eqb_refl. reflexivity.
  - destruct (streq k0 k) eqn:E.
    + apply streq_eq in E. subst k0. apply negb_true_iff in Hn1.
      assert (str_mem k (map fst t) = true) by (apply str_mem_In; apply in_map_iff; exists (k, l); auto). congruence.
    + apply IH; assumption.
Qed.

Lemma pstate_eqb_eq : forall a b, pstate_eqb a b = true -> a = b.
Proof.
  intros [a1 a2 a3 a4 a5] [b1 b2 b3 b4 b5]. unfold pstate_eqb. simpl.
  rewrite !andb_true_iff. intros [[[[H1 H2] H3] H4] H5].
  apply streq_eq in H1, H2, H3, H4. apply Bool.eqb_prop in H5. subst. reflexivity.
Qed.

(* a known state sits in the row of its root category *)
Lemma known_row : forall s, known s = true -> exists l, In (root s, l) state_table /\ In s l.
Proof.
  intros s H. unfold known in H. destruct (Schema.lookup (root s) state_table) as [l|] eqn:E; [|discriminate].
  exists l. split.
  - unfold Schema.lookup in E. destruct (List.find _ state_table) as [[k l']|] eqn:F; [|discriminate].
    simpl in E. inversion E; subst l'. apply find_some in F as [Hin Hk]. simpl in Hk. apply streq_eq in Hk. subst k. exact Hin.
  - apply existsb_exists in H as (x & Hx & He). apply pstate_eqb_eq in He. subst. exact Hx.
Qed.

Lemma known_facts : forall s, known s = true ->
  rank s <= rank_bound /\ exists ss, succ s = Some ss /\ forall s', In s' ss -> rank s' < rank s /\ known s' = true.
Proof.
  intros s K. destruct (known_row s K) as (l & Hrow & Hin).
  pose proof rows_ok as A. rewrite forallb_forall in A. specialize (A _ Hrow). unfold row_ok in A. simpl in A.
  rewrite forallb_forall in A. specialize (A s Hin). apply andb_true_iff in A as [A1 A2].
  split; [apply Nat.leb_le; exact A1|].
  destruct (succ s) as [ss|]; [|discriminate]. exists ss. split; [reflexivity|].
  intros s' Hs'. rewrite forallb_forall in A2. specialize (A2 s' Hs').
  apply andb_true_iff in A2 as [A2 A3]. apply andb_true_iff in A2 as [A2 A4].
  split; [apply Nat.ltb_lt; exact A2|].
  apply streq_eq in A3. unfold known. rewrite A3.
  rewrite (lookup_in_nodup _ state_table (root s) l table_keys_nodup Hrow). exact A4.
Qed.

(* the model printer: from a known state, the same-node dispatches of the CURRENT source, and a dispatch of every child to
   every entry point (which children a handler really prints does not matter for termination) *)
Definition label_cat (l : nat) : string := nth l leaf_categories "Unknown".
Definition model_handler (max_kids : nat) (s : pstate) (l : nat) : list (call pstate) :=
  if known s then
    match succ s with
    | Some ss => map (@Same pstate) ss ++
                 flat_map (fun i => map (fun c => Child pstate i (fun l' => entry c (label_cat l'))) entry_classes) (seq 0 max_kids)
    | None => []
    end
  else [].

Definition model_rank (s : pstate) : nat := if known s then rank s else 0.

Lemma model_rank_bounded : forall s, model_rank s <= rank_bound.
Proof.
  intros s. unfold model_rank. destruct (known s) eqn:K; [|lia]. apply (known_facts s K).
Qed.

Lemma model_same_decreases : forall n s l s', In (Same pstate s') (model_handler n s l) -> model_rank s' < model_rank s.
Proof.
  intros n s l s' H. unfold model_handler in H. destruct (known s) eqn:K; [|contradiction].
  destruct (known_facts s K) as (_ & ss & E & Hss). rewrite E in H.
  apply in_app_or in H as [H|H].
  - apply in_map_iff in H as (x & Hx & Hin). inversion Hx; subst x.
    destruct (Hss s' Hin) as [Hlt Hk]. unfold model_rank. rewrite K, Hk. exact Hlt.
  - apply in_flat_map in H as (i & _ & H). apply in_map_iff in H as (c & Hc & _). discriminate.
Qed.

(* printing ANY finite graph (any shape, any categories, any arity up to n) from any entry point terminates:
   the model never runs out of the fuel  height * (bound + 1) + rank + 1 *)
Lemma printing_terminates : forall n t s,
  run pstate (model_handler n) (height t * S rank_bound + model_rank s + 1) s t = true.
Proof.
  intros n t s. apply (terminates pstate model_rank rank_bound model_rank_bounded (model_handler n) (model_same_decreases n)).
Qed.

(* every handler, and every helper's operator<<, restores the indentation it found: the net change of
   Printer::indent() is 0 along every path through its body (loops and lambda bodies are themselves balanced) *)
Definition balanced (n : option (list Z)) : bool := match n with Some [0%Z] => true | _ => false end.
Lemma indentation_balanced :
  forallb (fun h => balanced (ph_net_indent h)) gen_pr_handlers && forallb (fun e => balanced (snd (snd e))) gen_pr_entries = true.
Proof. vm_compute. reflexivity. Qed.

(* no iostream manipulator is ever inserted into the stream: flags, fill, width and precision stay as found, so every
   number is written in the base the caller chose (decimal by default) *)
Lemma no_stream_manipulators : gen_pr_manips = [].
Proof. reflexivity. Qed.

(* the translator read every handler completely *)
Lemma no_opaque_handler : forallb (fun h => negb (existsb is_opaque (ph_actions h))) gen_pr_handlers = true.
Proof. vm_compute. reflexivity. Qed.

(* the literal-escaping switch of today's source, read as a table *)
Definition lit_table : list (list (option N) * list lit_piece) := match gen_pr_literal with Some t => t | None => [] end.
Lemma literal_table_ok : table_ok lit_table = true.
Proof. vm_compute. reflexivity. Qed.

(* ---- property theorems ---- *)
(* for every spelling over all byte values: the literal printer writes no control byte that the spelling does not
   contain (newline, tab, NUL, ... come out as two-character escapes), and the numbers it writes are decimal *)
Theorem c18_literal_writes_no_new_control_byte : forall s, (forall b, In b s -> (b < 256)%N) ->
  exists out, escape lit_table s = Some out /\ forall x, In x out -> (x < 32)%N -> In x s.
Proof. exact (escape_writes_no_new_control_byte lit_table literal_table_ok). Qed.
Theorem c18_literal_numbers_are_decimal :
  (forall n, (n < 256)%N -> forall d, In d (decimal n) -> (48 <= d <= 57)%N) /\
  forallb (fun n => N.eqb (value_of (decimal n)) n) (map N.of_nat (seq 0 256)) = true.
Proof. split; [exact decimal_digits|exact decimal_value]. Qed.
Theorem c18_same_node_dispatch_acyclic : acyclic_all = true.
Proof. exact same_node_dispatch_acyclic. Qed.
Theorem c18_printing_terminates : forall n t s,
  run pstate (model_handler n) (height t * S rank_bound + model_rank s + 1) s t = true.
Proof. exact printing_terminates. Qed.
Theorem c18_indentation_balanced :
  forallb (fun h => balanced (ph_net_indent h)) gen_pr_handlers && forallb (fun e => balanced (snd (snd e))) gen_pr_entries = true.
Proof. exact indentation_balanced. Qed.
Theorem c18_no_stream_manipulators : gen_pr_manips = [].
Proof. exact no_stream_manipulators. Qed.
Theorem c18_no_opaque_handler : forallb (fun h => negb (existsb is_opaque (ph_actions h))) gen_pr_handlers = true.
Proof. exact no_opaque_handler. Qed.

(* the analysis is not vacuous: it sees the parenthesise-and-retry edge, and it would see the cycle without the guard *)
Example c18_example_retry_edge :
  match succ (entry "xpr::Primary_expr" "Demotion") with
  | Some [s] => streq (ps_dyn s) "xpr_expr_visitor" && ps_mark s
  | _ => false
  end = true.
Proof. vm_compute. reflexivity. Qed.
Example c18_example_unguarded_cycle_is_detected :
  let unguarded := map (fun h => {| ph_class := ph_class h; ph_static := ph_static h;
                                    ph_actions := filter (fun a => negb (is_guard_reentry a)) (ph_actions h);
                                    ph_net_indent := ph_net_indent h |}) gen_pr_handlers in
  acyclic gen_pr_classes unguarded forward is_type_kind 64 [] (entry "xpr_expr_visitor" "Demotion") = false.
Proof. vm_compute. reflexivity. Qed.

Example c18_example_unguarded_type_cycle_is_detected :
  let unguarded := map (fun h => {| ph_class := ph_class h; ph_static := ph_static h;
                                    ph_actions := filter (fun a => negb (is_guard_selfname a)) (ph_actions h);
                                    ph_net_indent := ph_net_indent h |}) gen_pr_handlers in
  acyclic gen_pr_classes unguarded forward is_type_kind 64 [] (entry "xpr_type_visitor" "Tor") = false.
Proof. vm_compute. reflexivity. Qed.

(* the printer's own state is what the model tracks: stream, padding, pending newline and indentation, the location switch, the re-entry mark (StateSpace.v against the regenerated GenState) *)
Theorem c18_state_is_what_the_model_abstracts :
  StateSpace.state_as_modelled (StateSpace.printer_state) = true.
Proof. vm_compute. reflexivity. Qed.

Print Assumptions c18_state_is_what_the_model_abstracts.
Print Assumptions c18_literal_writes_no_new_control_byte.
Print Assumptions c18_literal_numbers_are_decimal.
Print Assumptions c18_same_node_dispatch_acyclic.
Print Assumptions c18_printing_terminates.
Print Assumptions c18_indentation_balanced.
Print Assumptions c18_no_stream_manipulators.
Print Assumptions c18_no_opaque_handler.
Print Assumptions c18_example_retry_edge.
Print Assumptions c18_example_unguarded_cycle_is_detected.
Print Assumptions c18_example_unguarded_type_cycle_is_detected.
