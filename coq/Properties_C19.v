(* Properties_C19.v — C19: destroying a Lexicon frees all its memory.
   PARTIAL: what is proved is the allocation/release ACCOUNTING of the two
   hand-written owners (string arena, red-black containers) on the model, plus
   the facts about the destructors read from the current source.  "No read or
   write outside live objects" is a property of the running program; it is
   observed with AddressSanitizer / LeakSanitizer by the c19 driver, not proved. *)
From Coq Require Import List ZArith String Bool Permutation.
From IprV Require Import GenTypes GenCheck RBModel RBProofs Unify Arena ArenaProofs Memory.
From IprV.gen Require Import GenStore.
From IprV Require StateSpace.
From IprV.gen Require GenAccess.
Import ListNotations.
Local Open Scope string_scope.

(* every pool the arena ever allocated (oversize pools spliced behind the current
   one included) is on the chain its destructor walks, exactly once *)
Theorem c19_arena_chain_complete : forall ns, Forall (fun n => (0 <= n)%Z) ns ->
  Permutation (a_chain (run_arena arena_init ns)) (seq 0 (a_npools (run_arena arena_init ns))).
Proof. exact chain_complete. Qed.

(* every node a red-black container allocated is held by the tree, exactly once:
   a destructor that walks the tree from the root releases all of them *)
Theorem c19_tree_holds_exactly_allocated :
  forall (key : Type) (cmp : key -> key -> Z), TotalOrder key cmp -> (forall a b, cmp a b = 0%Z <-> a = b) ->
  forall (key_eqb : key -> key -> bool), (forall a b, key_eqb a b = true <-> a = b) ->
  forall ks s ns, trun key cmp (rb_empty (elt key)) ks = Some (s, ns) ->
  Permutation (map snd (elements (elt key) (rb_tree (elt key) s))) (seq 0 (Z.to_nat (rb_count (elt key) s))).
Proof. exact tree_holds_exactly_allocated. Qed.

(* with both destructors walking their structures: no leak, no double free *)
Theorem c19_no_leak_no_double_free : forall ns (held : list (nat * list nat)) (counts : list (nat * nat)),
  Forall (fun n => (0 <= n)%Z) ns ->
  map fst held = map fst counts -> NoDup (map fst held) ->
  (forall t l c, In (t, l) held -> In (t, c) counts -> Permutation l (seq 0 c)) ->
  let a := run_arena arena_init ns in
  Permutation (released true true a held) (allocated a counts) /\ NoDup (released true true a held).
Proof. exact no_leak_no_double_free. Qed.

(* ... and the current source has those destructors; the other stores are
   standard containers, which release their elements themselves *)
Definition std_owner (b : string) : bool :=
  str_contains "std::forward_list" b || str_contains "std::deque" b || str_contains "std::vector" b ||
  str_contains "std::map" b || str_contains "stable_farm" b || str_contains "ipr::Sequence" b.
Theorem c19_destructors_in_source :
  gen_container_has_destructor = true /\ gen_container_calls_destroy_node = true /\ gen_arena_has_destructor = true /\
  forallb (fun p => forallb std_owner (snd p)) gen_store_bases = true.
Proof. vm_compute. auto. Qed.

(* arena writes stay inside live pools (C03) *)
Theorem c19_arena_in_bounds : forall ns, Forall (fun n => (0 <= n)%Z) ns ->
  let a := run_arena arena_init ns in
  Forall (fun b => (0 <= b_off b)%Z /\ (headersz * b_off b + padding + b_bytes b <= cap_of a (b_pool b))%Z) (a_blocks a).
Proof. intros ns H. exact (proj2 (blocks_in_bounds_and_disjoint ns H)). Qed.

(* the arena and the owning tree have the data members the allocation ledger accounts for (StateSpace.v against the regenerated GenState) *)
Theorem c19_state_is_what_the_model_abstracts :
  StateSpace.state_as_modelled (StateSpace.string_pool_state ++ StateSpace.tree_state) = true.
Proof. vm_compute. reflexivity. Qed.

(* The library swallows no exception: every catch clause in it ends by throwing again (table regenerated from the source; at the
   time of writing the library has no catch clause at all), so storage released while an exception passes is not kept in use. *)
Theorem c19_library_swallows_no_exception :
  forallb (fun r => snd r) GenAccess.gen_catch_clauses = true.
Proof. vm_compute. reflexivity. Qed.

Print Assumptions c19_library_swallows_no_exception.
Print Assumptions c19_state_is_what_the_model_abstracts.
Print Assumptions c19_arena_chain_complete.
Print Assumptions c19_tree_holds_exactly_allocated.
Print Assumptions c19_no_leak_no_double_free.
Print Assumptions c19_destructors_in_source.
Print Assumptions c19_arena_in_bounds.
