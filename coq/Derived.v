(* Derived.v — expression trees for the inline derived operations of the
   interface (regenerated from the headers as GenDerived.gen_derived) and
   their denotation over an ARBITRARY interpretation of the primitive (pure
   virtual) accessors and data members: a theorem about [eval] holds for every
   node in every state. *)
From Coq Require Import List ZArith String Bool.
From IprV Require Import GenTypes.
Import ListNotations.
Local Open Scope string_scope.

Inductive cexpr :=
| CThis
| CParam (i : nat)
| CInt (z : Z)
| CBool (b : bool)
| CCall (callee : string) (recv : cexpr) (args : list cexpr)     (* recv.callee(args) *)
| CField (name : string) (recv : cexpr)                          (* recv.name (data member) *)
| CBin (op : string) (a b : cexpr)
| CUn (op : string) (a : cexpr)
| COp (op : string) (args : list cexpr)                          (* overloaded operator call *)
| CCons (args : list cexpr)                                      (* brace / constructor initialisation *)
| CSeq (a b : cexpr)
| CCond (c a b : cexpr)                                          (* c ? a : b *)
| CLex (a b : cexpr)                                             (* if (auto c = a) return c; return b; *)
| CDefaultedEq (fields : list string)
| CUnknown (what : string).

Inductive value :=
| VZ (z : Z) | VB (b : bool)
| VObj (o : nat)                  (* an object (node, sequence, string ...); & and * are the identity on objects *)
| VTup (l : list value)           (* an aggregate built with braces, e.g. an Iterator {seq, index} *)
| VErr (why : string).

Record interp := {
  prim : string -> value -> list value -> value;      (* pure virtual / external member functions *)
  fld : string -> value -> value                      (* data members of non-aggregate objects *)
}.

Fixpoint value_eqb (a b : value) : bool :=
  match a, b with
  | VZ x, VZ y => Z.eqb x y
  | VB x, VB y => Bool.eqb x y
  | VObj x, VObj y => Nat.eqb x y
  | VTup l, VTup m =>
      (fix go (l m : list value) : bool :=
         match l, m with
         | [], [] => true
         | x :: l', y :: m' => value_eqb x y && go l' m'
         | _, _ => false
         end) l m
  | _, _ => false
  end.

Section Eval.
Variable table : list (string * (nat * cexpr)).
Variable I : interp.

Definition lookup_row (k : string) : option (nat * cexpr) :=
  option_map snd (List.find (fun r => streq (fst r) k) table).

(* data members of the two aggregates the interface defines *)
Definition field_of (name : string) (v : value) : value :=
  match v with
  | VTup [s; i] => if streq name "seq" then s else if streq name "index" then i else VErr "field"
  | _ => fld I name v
  end.

Definition bin (op : string) (a b : value) : value :=
  if streq op "==" then VB (value_eqb a b)
  else if streq op "!=" then VB (negb (value_eqb a b))
  else match a, b with
       | VZ x, VZ y =>
           if streq op ">" then VB (Z.ltb y x) else if streq op "<" then VB (Z.ltb x y)
           else if streq op ">=" then VB (Z.leb y x) else if streq op "<=" then VB (Z.leb x y)
           else if streq op "+" then VZ (x + y) else if streq op "-" then VZ (x - y) else VErr "binop"
       | VB x, VB y =>
           if streq op "&&" then VB (x && y) else if streq op "||" then VB (x || y) else VErr "binop"
       | _, _ => VErr "binop"
       end.

Definition un (op : string) (a : value) : value :=
  if streq op "!" then match a with VB b => VB (negb b) | _ => VErr "not" end
  else if streq op "&" then a
  else if streq op "*" then a
  else VErr "unop".

Fixpoint eval (fuel : nat) (this : value) (params : list value) (e : cexpr) : value :=
  match fuel with
  | O => VErr "fuel"
  | S f =>
    match e with
    | CThis => this
    | CParam i => nth i params (VErr "param")
    | CInt z => VZ z
    | CBool b => VB b
    | CField name r => field_of name (eval f this params r)
    | CBin op a b => bin op (eval f this params a) (eval f this params b)
    | CUn op a =>
        (* ++it / --it on an iterator: the index moves, the sequence stays *)
        if streq op "++" then match a with
                              | CField "index" r => match eval f this params r with
                                                    | VTup [s; VZ i] => VTup [s; VZ (i + 1)] | _ => VErr "inc" end
                              | _ => VErr "inc" end
        else if streq op "--" then match a with
                              | CField "index" r => match eval f this params r with
                                                    | VTup [s; VZ i] => VTup [s; VZ (i - 1)] | _ => VErr "dec" end
                              | _ => VErr "dec" end
        else un op (eval f this params a)
    | CCond c a b =>
        match eval f this params c with
        | VB true => eval f this params a
        | VB false => eval f this params b
        | _ => VErr "condition"
        end
    | CLex a b =>
        match eval f this params a with
        | VZ 0 => eval f this params b
        | VZ z => VZ z
        | _ => VErr "three-way result"
        end
    | CSeq a b =>
        (* `++index; return *this;` : the updated iterator *)
        match a with
        | CUn _ _ => eval f this params a
        | _ => eval f this params b
        end
    | CCons args => VTup (map (eval f this params) args)
    | CCall callee r args =>
        let rv := eval f this params r in
        let avs := map (eval f this params) args in
        match lookup_row callee with
        | Some (_, body) => eval f rv avs body              (* another derived operation: inline it *)
        | None => prim I callee rv avs
        end
    | COp op args =>
        let avs := map (eval f this params) args in
        match lookup_row op, avs with
        | Some (_, body), rv :: rest => eval f rv rest body
        | _, _ => VErr "operator"
        end
    | CDefaultedEq fields =>
        VB (forallb (fun n => value_eqb (field_of n this) (field_of n (nth 0 params (VErr "param")))) fields)
    | CUnknown w => VErr w
    end
  end.

(* a body that just forwards to a primitive accessor denotes that primitive *)
Lemma eval_alias : forall fuel this p, lookup_row p = None ->
  eval (S (S fuel)) this [] (CCall p CThis []) = prim I p this [].
Proof. intros fuel this p H. cbn [eval map]. rewrite H. reflexivity. Qed.
End Eval.
