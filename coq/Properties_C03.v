(* Properties_C03.v — C03: words are interned: one String node per distinct
   byte content, content preserved.  Model: Arena.v; proofs: ArenaProofs.v.
   The reserved-word table is the one regenerated from src/impl.cxx. *)
From Coq Require Import List ZArith NArith String Ascii Bool.
From IprV Require Import GenTypes Arena ArenaProofs.
From IprV.gen Require Import GenWords.
From IprV Require StateSpace.
Import ListNotations.

Definition known_words : list word := map bytes_of_string gen_known_words.

(* the table in the source is strictly sorted in byte-lexicographic order, so
   the binary search is exact *)
Theorem c03_known_words_sorted : sorted_strict known_words.
Proof. apply sorted_strictb_sound. vm_compute. reflexivity. Qed.

Theorem c03_binary_search_correct : forall w k,
  word_if_known known_words w = Some k <-> nth_error known_words k = Some w.
Proof. exact (word_if_known_correct known_words c03_known_words_sorted). Qed.

Section AnyHash.
Variable hash : word -> N.      (* every hash function, including constant ones *)

(* arithmetic of the allocator, for every length n >= 0 *)
Theorem c03_headers_enough : forall n, (0 <= n)%Z -> (padding + n <= headersz * headers_for n)%Z.
Proof. exact headers_enough. Qed.

(* blocks stay inside their pools and never overlap, for every allocation history *)
Theorem c03_blocks_in_bounds_and_disjoint : forall ns, Forall (fun n => (0 <= n)%Z) ns ->
  let a := run_arena arena_init ns in
  NoOverlap (a_blocks a) /\
  Forall (fun b => (0 <= b_off b)%Z /\ (headersz * b_off b + padding + b_bytes b <= cap_of a (b_pool b))%Z) (a_blocks a).
Proof. exact blocks_in_bounds_and_disjoint. Qed.

(* the characters of a String are exactly the bytes interned (any length, any
   byte values, no terminator), and stay so whatever is interned later *)
Theorem c03_content_preserved : forall ws i w n,
  nth_error ws i = Some w -> nth_error (snd (run_pool known_words hash ws)) i = Some n ->
  chars_of known_words (fst (run_pool known_words hash ws)) n = Some w.
Proof. exact (content_preserved known_words hash c03_known_words_sorted). Qed.

(* same node for equal contents, different nodes for different contents *)
Theorem c03_intern_injective : forall ws i j wi wj ni nj,
  nth_error ws i = Some wi -> nth_error ws j = Some wj ->
  nth_error (snd (run_pool known_words hash ws)) i = Some ni ->
  nth_error (snd (run_pool known_words hash ws)) j = Some nj ->
  (ni = nj <-> wi = wj).
Proof. exact (intern_injective known_words hash c03_known_words_sorted). Qed.

(* no later interning changes the node an earlier request returned *)
Theorem c03_intern_stable : forall ws ws' i n,
  nth_error (snd (run_pool known_words hash ws)) i = Some n ->
  nth_error (snd (run_pool known_words hash (ws ++ ws'))) i = Some n.
Proof. exact (intern_stable known_words hash). Qed.

(* the empty word and the reserved words map to their constant nodes and
   allocate nothing *)
Theorem c03_empty_constant : forall p,
  fst (fst (intern known_words hash p [])) = p /\ snd (fst (intern known_words hash p [])) = SEmpty.
Proof. exact (empty_constant known_words hash). Qed.

Theorem c03_reserved_constant : forall p w k, w <> [] -> nth_error known_words k = Some w ->
  snd (fst (intern known_words hash p w)) = SReserved k /\ fst (fst (intern known_words hash p w)) = p.
Proof. exact (reserved_constant known_words hash c03_known_words_sorted). Qed.
End AnyHash.

(* non-vacuity: a history crossing the inline / granule boundaries with a
   colliding hash, a reserved word, the empty word and a repeat *)
Example c03_nonvacuous :
  let h := fun (_ : word) => 0%N in
  let ws := [[65]; [66; 0; 67]; []; bytes_of_string "int"; [65]; repeat 7 9; repeat 7 8; [66; 0; 67]]%N in
  snd (run_pool known_words h ws) =
  [SDynamic 0; SDynamic 1; SEmpty; SReserved 26; SDynamic 0; SDynamic 2; SDynamic 3; SDynamic 1].
Proof. vm_compute. reflexivity. Qed.

(* the string pool and its arena have the data members the Arena model speaks about (a word header of a 64-bit length and 8 inline characters; a pool chain; the next free header): no cache, index or narrower counter (StateSpace.v against the regenerated GenState) *)
Theorem c03_state_is_what_the_model_abstracts :
  StateSpace.state_as_modelled (StateSpace.string_pool_state) = true.
Proof. vm_compute. reflexivity. Qed.

Print Assumptions c03_state_is_what_the_model_abstracts.
Print Assumptions c03_known_words_sorted.
Print Assumptions c03_binary_search_correct.
Print Assumptions c03_headers_enough.
Print Assumptions c03_blocks_in_bounds_and_disjoint.
Print Assumptions c03_content_preserved.
Print Assumptions c03_intern_injective.
Print Assumptions c03_intern_stable.
Print Assumptions c03_empty_constant.
Print Assumptions c03_reserved_constant.
Print Assumptions c03_nonvacuous.
