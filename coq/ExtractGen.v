(* ExtractGen.v — extraction of the model functions applied to the generated
   tables (re-run whenever coq/gen changes).  ExtrOcamlBasic only. *)
From Coq Require Import ExtrOcamlBasic.
From Coq Require Import List ZArith String.
From IprV Require Import GenTypes Visitor.
From IprV.gen Require Import GenCategory GenIface GenVisitor GenAccept.
Import ListNotations.

(* C06: for every leaf interface class: its name, the enumerator its code
   denotes, the hook accept selects, the sink reached by default forwarding,
   and the leaf classes K for which view<K> is non-null. *)
Definition c06_rows : list (string * (string * (list string * (list string * list string)))) :=
  map (fun r =>
         (if_name r,
          (match nth_error gen_categories (Z.to_nat (if_code r)) with Some c => c | None => "?"%string end,
           (match List.find (fun a => streq (a_iface a) (if_name r)) gen_accept with
            | Some a => a_targets a | None => [] end,
            (dispatch gen_visitor fuel0 is_sink (if_name r),
             filter (fun k => view gen_visitor k (if_name r)) (map if_name (leaves gen_ifaces)))))))
      (leaves gen_ifaces).

Extraction "extracted/genmodel.ml" c06_rows.
