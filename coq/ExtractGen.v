(* ExtractGen.v — extraction of the model functions applied to the generated
   tables (re-run whenever coq/gen changes).  ExtrOcamlBasic only. *)
From Coq Require Import ExtrOcamlBasic.
From Coq Require Import List ZArith String.
From Coq Require Import NArith.
From IprV Require Import GenTypes Visitor Bits Arena Lexicon LexiconProofs Derived Schema Typing Stability PrinterDispatch LiteralModel.
From IprV.gen Require Import GenCategory GenIface GenVisitor GenAccept GenWords GenLexAcc GenDerived GenFactory GenTypeRule GenPrinter.
Import ListNotations.
Local Open Scope bool_scope.

(* C06: for every leaf interface class: its name, the enumerator its code
   denotes, the hook accept selects, the sink reached by default forwarding,
   and the leaf classes K for which view<K> is non-null. *)
Definition c06_rows : list (string * (string * (list string * (list string * list string)))) :=
  map (fun r =>
         (if_name r,
          (match nth_error gen_categories (Z.to_nat (if_code r)) with Some c => c | None => "?"%string end,
           (match List.find (fun a => streq (a_iface a) (if_name r)) gen_accept with
            | Some a => a_targets a | None => [] end,
            (dispatch gen_visitor fuel0 is_sink (if_name r),
             filter (fun k => view gen_visitor k (if_name r)) (map if_name (leaves gen_ifaces)))))))
      (leaves gen_ifaces).

(* C10: subsets are given as bit masks over table positions *)
Definition mask_select (tbl : list string) (m : N) : list string :=
  map snd (filter (fun p => N.testbit m (N.of_nat (fst p))) (combine (seq 0 (List.length tbl)) tbl)).
Definition mask_of (tbl : list string) (ws : list string) : N :=
  fold_right (fun w acc => match str_index w tbl with Some i => N.lor (bit i) acc | None => acc end) 0%N ws.
Definition c10_table (q : bool) : list string := if q then gen_std_qualifiers else gen_std_specifiers.
Definition c10_union (q : bool) (m : N) : N := union_of (c10_table q) (mask_select (c10_table q) m).
Definition c10_decomp (q : bool) (x : N) : list string := decompose (c10_table q) x.
Definition c10_decomp_mask (q : bool) (x : N) : N := mask_of (c10_table q) (c10_decomp q x).
Definition c10_project (q : bool) (w : string) : option N := project (c10_table q) w.
Definition c10_accessors : list (string * lex_acc) := gen_lex_accessors.
Definition c10_known_words : list string := gen_known_words.

(* C03: the string pool over the regenerated reserved-word table, with a
   deliberately weak hash (collisions are frequent; the theorems hold for any hash) *)
Definition c03_known : list word := map bytes_of_string gen_known_words.
Definition c03_hash (w : word) : N :=
  ((N.of_nat (List.length w) + 7 * hd 0%N w + 13 * last w 0%N) mod 251)%N.
Definition c03_intern (p : pool) (w : word) : pool * strnode * intern_tag := intern c03_known c03_hash p w.
Definition c03_chars (p : pool) (n : strnode) : option word := chars_of c03_known p n.
Definition c03_node_block (p : pool) (i : nat) : option block := option_map d_block (nth_error (p_nodes p) i).

(* C01/C04/C11/C13: the unification model over the regenerated word tables *)
Definition ix_of (w : string) : nat := match str_index w gen_known_words with Some i => i | None => 0 end.
Definition lex_builtin_words : list nat := map ix_of gen_builtins.
Definition lex_builtin_void : nat := match str_index "Void"%string gen_fundamental with Some i => i | None => 0 end.
Definition lex_step (m : table) (r : request) : table * option nid :=
  step c03_known lex_builtin_words (ix_of "default") (ix_of "this") (ix_of "C") (ix_of "C++") lex_builtin_void key_eqb m r.
Definition lex_key_of (m : table) (n : nid) : option key := key_of m n.
Definition lex_xfer_val (m : table) (x : nid) : option xval := xfer_val c03_known (ix_of "C++") m x.
Definition lex_linkage_word (m : table) (l : nid) : option word := linkage_word c03_known (ix_of "C") (ix_of "C++") m l.
Definition lex_cc_word (m : table) (c : nid) : option word := cc_word c03_known m c.
Definition lex_fundamental : list string := gen_fundamental.
Definition lex_builtin_spellings : list string := gen_builtins.

(* C02/C09/C14: what the documentation table and the model of the code predict for one factory call *)
Fixpoint strs_eqb (a b : list string) : bool :=
  match a, b with [] , [] => true | x :: a', y :: b' => streq x y && strs_eqb a' b' | _, _ => false end.
Definition c02_find (cls name : string) (sorts : list string) : option gfactory :=
  List.find (fun f => streq (gf_class f) cls && streq (gf_name f) name && strs_eqb (gf_sorts f) sorts) gen_factories.
(* documented accessor, expected value, and whether the static model reaches it *)
Definition c02_expect (f : gfactory) (args : list string) : option (list (string * (string * bool))) :=
  option_map (map (fun r => (fst r, (Schema.render args (snd r),
                                     match model_read gen_derived f (fst r) with Some _ => true | None => false end)))) (doc f).
(* the node the model of the code builds: constructor slot -> value *)
Definition c02_model_node (f : gfactory) (args : list string) : option node :=
  option_map (fun st => build st args) (store_of f).
Definition c02_exempt : gfactory -> bool := exempt.
Definition c02_factories : list gfactory := gen_factories.

(* C09: the prescription, what the source says today, and the type of a growing sequence under the rules *)
Definition c09_prescribed : list (string * type_rule) := prescribed.
Definition c09_source_rule (c : string) : type_rule := source_rule gen_type_bodies gen_type_class c.
Definition c09_rule_of (c : string) : type_rule :=
  match Schema.lookup c prescribed with Some r => r | None => NoRule "unprescribed" end.
Definition c09_growth (kind : string) (ts : list nat) : list tval :=
  let n := List.length ts in
  let h0 := (map (fun t => {| t_cat := "Plus"%string; t_slots := []; t_typing := Some t; t_members := [] |}) ts ++
             [{| t_cat := kind; t_slots := []; t_typing := None; t_members := [] |}])%list in
  map (fun k => type_of c09_rule_of 3 (fold_left (fun h m => add_member h n m) (seq 0 k) h0) n) (seq 0 (S n)).

(* C05: an abstract history: container creations and member additions; the model's member lists *)
Definition c05_members (ops : list hop) : list (list nat) := map t_members (hrun ops).

(* C18: the text the literal printer writes for a spelling, per the regenerated switch table *)
Definition c18_escape (s : list N) : option (list N) :=
  escape (match gen_pr_literal with Some t => t | None => [] end) s.

Extraction "extracted/genmodel.ml" c06_rows
  c18_escape
  c05_members
  c09_prescribed c09_source_rule c09_growth
  c02_find c02_expect c02_model_node c02_exempt c02_factories
  lex_step lex_key_of lex_xfer_val lex_linkage_word lex_cc_word lex_fundamental lex_builtin_spellings
  lex_builtin_words ix_of
  c03_known c03_intern c03_chars c03_node_block pool_init allocate arena_init a_npools a_chain
  c10_table c10_union c10_decomp c10_decomp_mask c10_project c10_accessors c10_known_words
  Bits.implies N.lor N.land N.lxor.
