(* Access.v — C14: reading missing or out-of-range data is refused, never undefined.

   Outcomes of an access: a value, a refusal (an exception derived from std::logic_error), or
   undefined behaviour.  Only an UNCHECKED primitive can produce [UB]; the tables regenerated
   from the source (GenAccess) say which primitives the code uses today. *)
From Coq Require Import List String Bool Arith Lia.
From IprV Require Import GenTypes GenCheck.
Import ListNotations.
Local Open Scope string_scope.

Inductive outcome := Ok (v : nat) | Refused | UB.

(* ---- links ---- *)
Inductive link_prim :=
| PReference        (* a C++ reference member: bound at construction, cannot be missing *)
| POptional         (* ipr::Optional<T>::get *)
| PRef              (* util::ref<T>::get *)
| PChecked          (* *util::check(ptr) *)
| PRaw.             (* *ptr *)

Definition read_link (p : link_prim) (l : option nat) : outcome :=
  match l, p with
  | Some v, _ => Ok v
  | None, PRaw => UB
  | None, PReference => UB          (* not reachable: see [wf_link] *)
  | None, _ => Refused
  end.

(* a node state is well formed when its reference members are bound (C++ guarantees it) *)
Definition wf_link (p : link_prim) (l : option nat) : Prop := p = PReference -> l <> None.

Lemma checked_links_never_ub : forall p l, p <> PRaw -> wf_link p l -> read_link p l <> UB.
Proof.
  intros p l Hp Hw. destruct l as [v|]; [destruct p; discriminate|].
  destruct p; simpl; try discriminate; [exfalso; apply (Hw eq_refl); reflexivity | congruence].
Qed.

Lemma unset_is_refused : forall p, p = POptional \/ p = PRef \/ p = PChecked -> read_link p None = Refused.
Proof. intros p [H|[H|H]]; subst; reflexivity. Qed.

Lemma raw_unset_is_ub : read_link PRaw None = UB.
Proof. reflexivity. Qed.

(* ---- sequences ---- *)
(* a sequence implementation: its slots (None = a slot that was never filled) and how get(i) is guarded *)
Record seq_impl := {
  bounds_checked : bool;      (* vector::at, an explicit test followed by throw, or delegation to a checked get *)
  null_checked : bool         (* the stored pointer is tested before it is dereferenced (or elements are objects) *)
}.

Definition seq_get (d : seq_impl) (slots : list (option nat)) (i : nat) : outcome :=
  match nth_error slots i with
  | None => if bounds_checked d then Refused else UB
  | Some (Some v) => Ok v
  | Some None => if null_checked d then Refused else UB
  end.

Lemma index_refused : forall d slots i, bounds_checked d = true -> List.length slots <= i -> seq_get d slots i = Refused.
Proof.
  intros d slots i Hb Hi. unfold seq_get. apply nth_error_None in Hi. rewrite Hi, Hb. reflexivity.
Qed.

Lemma seq_get_never_ub : forall d slots i, bounds_checked d = true -> null_checked d = true -> seq_get d slots i <> UB.
Proof.
  intros d slots i Hb Hn. unfold seq_get. destruct (nth_error slots i) as [[v|]|]; rewrite ?Hb, ?Hn; discriminate.
Qed.

Lemma unfilled_slot_unchecked_is_ub : forall d slots i, null_checked d = false -> nth_error slots i = Some None -> seq_get d slots i = UB.
Proof. intros d slots i Hn H. unfold seq_get. rewrite H, Hn. reflexivity. Qed.

(* iteration visits exactly size() elements and agrees with positional access *)
Definition iterate (d : seq_impl) (slots : list (option nat)) : list outcome :=
  map (seq_get d slots) (seq 0 (List.length slots)).

Lemma iteration_agrees : forall d slots,
  List.length (iterate d slots) = List.length slots /\
  forall i, i < List.length slots -> nth_error (iterate d slots) i = Some (seq_get d slots i).
Proof.
  intros d slots. unfold iterate. split; [rewrite map_length, seq_length; reflexivity|].
  intros i Hi. rewrite nth_error_map. rewrite nth_error_nth' with (d := 0) by (rewrite seq_length; exact Hi).
  rewrite seq_nth by exact Hi. reflexivity.
Qed.

(* ---- what the source says (GenAccess) ---- *)
(* safeguards of a get(Index) body, as the translator lists them *)
Definition bounds_checked_by (feats : list string) : bool :=
  str_mem "at" feats                                         (* std::vector::at *)
  || (str_mem "throw" feats && str_mem "if" feats)           (* explicit test, then throw *)
  || (str_mem "throw" feats && negb (str_mem "subscript" feats) && negb (str_mem "advance" feats) && negb (str_mem "front" feats))
                                                             (* nothing but throw: the empty sequence *)
  || (str_mem "get" feats && negb (str_mem "subscript" feats)). (* delegation to another sequence's get *)

(* dereferences of pointers that are non-null by construction; each entry names the function and the pointer,
   with the reason.  THIS LIST IS PART OF THE STATEMENT of c14_no_unchecked_dereference. *)
Definition allowed_raw : list (string * string) :=
  [("Basic_qualifier::logogram", "this.qual");          (* set from a reference by the only constructor *)
   ("Basic_specifier::logogram", "this.spec");          (* idem *)
   ("Designator::path", "this.sr");                     (* idem *)
   ("Sequence::Iterator::operator*", "this.seq");       (* iterators are made by Sequence::begin/end/position from *this *)
   ("impl::General_substitution::operator[]", "CXXOperatorCallExpr");        (* map iterator, tested against end() *)
   ("impl::General_substitution::operator[]", "CXXOperatorCallExpr.second"); (* mapped value, inserted from a reference *)
   ("impl::Overload::operator[]", "local:*");           (* a local found by lookup, tested by the enclosing if; whatever it is called *)
   ("impl::decl_rep::decl_set", "this.decl_data.master_data");   (* decl_rep's only constructor stores a non-null master *)
   ("impl::decl_rep::definition", "this.decl_data.master_data");
   ("impl::decl_rep::master", "this.decl_data.master_data");
   ("impl::decl_rep::name", "this.decl_data.master_data");
   ("impl::decl_rep::name", "this.decl_data.master_data.overload"); (* set by Overload::push_back before the master is handed out *)
   ("impl::decl_rep::type", "this.decl_data.master_data");
   ("impl::homogeneous_scope::operator[]", "local:*");    (* the iterator of the search loop / std::find_if, within [begin, end) *)
   ("impl::obj_list::get", "local:*");                   (* list iterator advanced by p < size() *)
   ("impl::obj_list::get", "call:next")].                (* the same written as *std::next(begin(), p) *)

(* "local:*" allows any LOCAL variable of that function (the name a maintainer gives it does not matter) *)
Definition what_matches (pattern what : string) : bool :=
  streq pattern what || (streq pattern "local:*" && GenCheck.str_prefix "local:" what).
Definition deref_allowed (fn what : string) : bool :=
  existsb (fun r => streq (fst r) fn && what_matches (snd r) what) allowed_raw.
Definition site_ok (r : string * list string) : bool := forallb (deref_allowed (fst r)) (snd r).
