(* Properties_C20.v — C20: Lexicons are isolated.  PARTIAL: proved are (a) that
   in the CURRENT source no object of static storage duration is mutable
   (table regenerated from the five translation units and the headers), and
   (b) interleaving-independence of the model, where the only thing Lexicons
   share is that immutable data.  Freedom from data races of the compiled code
   under every schedule is observed with ThreadSanitizer, not proved. *)
From Coq Require Import List String Bool PeanoNat.
From IprV Require Import GenTypes GenCheck Isolation Lexicon LexiconProofs LexInst.
From IprV.gen Require Import GenStatics GenWords GenStore.
Import ListNotations.
Local Open Scope string_scope.

(* every object with static storage duration (namespace scope, static members,
   function-local statics) is constexpr or const, and none is thread_local *)
Definition immutable_static (s : static_row) : bool :=
  (s_constexpr s || s_const s) && negb (s_thread_local s) && negb (s_mutable s).
Theorem c20_no_mutable_statics : forallb immutable_static gen_statics = true.
Proof. vm_compute. reflexivity. Qed.

(* the tables all Lexicons share are compile-time constants *)
Theorem c20_shared_tables_constexpr :
  gen_known_words_constexpr = true /\ gen_builtins_constexpr = true /\
  gen_std_specifiers_constexpr = true /\ gen_std_qualifiers_constexpr = true.
Proof. vm_compute. auto. Qed.

(* on the model: whatever the interleaving of the operations of several
   Lexicons, each Lexicon gets exactly the answers it would get alone *)
Theorem c20_interleaving_irrelevant : forall (tr : list (nat * request)) i,
  answers_of _ i (snd (w_run _ _ _ Step (w_init _ []) tr)) = snd (run1 _ _ _ Step [] (project _ i tr)).
Proof. exact (interleaving_irrelevant table request (option nid) [] Step). Qed.

Theorem c20_frame : forall (w : world table) i r j, j <> i -> fst (w_step _ _ _ Step w (i, r)) j = w j.
Proof. exact (frame table request (option nid) Step). Qed.

(* the only nodes two Lexicons have in common are constants: a dynamically
   created node is [Dyn k] of ITS Lexicon's table; constants are the other
   constructors of [nid], which no request ever creates *)
Theorem c20_constants_are_not_created : forall m r n, Norm m r = NConst n -> forall k, n <> Dyn k.
Proof. exact (norm_const_not_dyn known_words builtin_words ix_default ix_this ix_C ix_Cxx builtin_void). Qed.

Example c20_nonvacuous : Nat.ltb 10 (List.length gen_statics) = true.
Proof. vm_compute. reflexivity. Qed.

(* The nodes of every unifying table come from std::allocator, i.e. from operator new: the owning tree has no other base class
   than its own core and std::allocator (a pooling allocator would be process-wide mutable state outside the library's text). *)
Definition tree_base_ok (b : string) : bool :=
  GenCheck.str_contains "std::allocator<" b || GenCheck.str_contains "core<" b.
Theorem c20_tree_nodes_come_from_operator_new :
  forallb tree_base_ok gen_tree_bases = true /\ existsb (GenCheck.str_contains "std::allocator<") gen_tree_bases = true.
Proof. vm_compute. auto. Qed.

Print Assumptions c20_tree_nodes_come_from_operator_new.
Print Assumptions c20_no_mutable_statics.
Print Assumptions c20_shared_tables_constexpr.
Print Assumptions c20_interleaving_irrelevant.
Print Assumptions c20_frame.
Print Assumptions c20_constants_are_not_created.
Print Assumptions c20_nonvacuous.
