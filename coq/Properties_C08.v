(* Properties_C08.v — C08: the ordered-set utility stays a valid balanced
   search tree for any insertions.  Only statements; every proof is
   [exact <lemma>].  Model: RBModel.v.  Proofs: RBProofs.v, Comparators.v.
   (Parent-link consistency of the pointer implementation: RBHeap.v, see
   Properties_C08_heap.v.) *)

From Coq Require Import List ZArith.
From IprV Require Import RBModel RBProofs Comparators.
From IprV Require StateSpace.
Import ListNotations.

Section C08.
Variable key : Type.
Variable cmp : key -> key -> Z.
Hypothesis cmp_total : TotalOrder key cmp.

(* For every insertion history the model never reaches the null-grandparent
   branch, and the result is a search tree obeying the red-black rules. *)
Theorem c08_inserts_rb : forall ks : list key,
  exists t, inserts key cmp E ks = Some t /\ RB key cmp t.
Proof. exact (inserts_rb key cmp cmp_total). Qed.

Theorem c08_insert_preserves_rb : forall t k, RB key cmp t ->
  exists t', insert_tree key cmp t k = Some t' /\ RB key cmp t'.
Proof. exact (insert_preserves_rb key cmp cmp_total). Qed.

(* height <= 2*log2(n+1), stated without logarithms: 2^height <= (n+1)^2 *)
Theorem c08_height_bound : forall t, RBcol key t ->
  2 ^ height key t <= (size key t + 1) * (size key t + 1).
Proof. exact (height_bound key). Qed.

(* every inserted key is found, a key never inserted is not *)
Theorem c08_find_after_inserts : forall ks t k, inserts key cmp E ks = Some t ->
  (find key cmp t k <> None <-> exists k', In k' ks /\ cmp k' k = 0%Z).
Proof. exact (find_after_inserts key cmp cmp_total). Qed.

(* owning flavour: an equal key returns the existing element and adds nothing *)
Theorem c08_owning_duplicate : forall s k x, RB key cmp (rb_tree key s) ->
  In x (elements key (rb_tree key s)) -> cmp x k = 0%Z ->
  exists y, insert_owning key cmp s k =
              Some {| ir_state := s; ir_elem := y; ir_fresh := false |} /\
            In y (elements key (rb_tree key s)) /\ cmp y k = 0%Z.
Proof. exact (owning_duplicate key cmp cmp_total). Qed.

Theorem c08_owning_fresh : forall s k r, RB key cmp (rb_tree key s) ->
  (forall x, In x (elements key (rb_tree key s)) -> cmp x k <> 0%Z) ->
  insert_owning key cmp s k = Some r ->
  ir_fresh key r = true /\ ir_elem key r = k /\
  rb_count key (ir_state key r) = (rb_count key s + 1)%Z /\
  (forall x, In x (elements key (rb_tree key (ir_state key r))) <->
             In x (elements key (rb_tree key s)) \/ x = k).
Proof. exact (owning_fresh key cmp cmp_total). Qed.

Theorem c08_owning_total : forall s k, RB key cmp (rb_tree key s) ->
  exists r, insert_owning key cmp s k = Some r /\ RB key cmp (rb_tree key (ir_state key r)).
Proof. exact (owning_insert_total key cmp cmp_total). Qed.

Theorem c08_chain_total : forall s k, RB key cmp (rb_tree key s) ->
  exists r, insert_chain key cmp s k = Some r /\ RB key cmp (rb_tree key (ir_state key r)) /\
            rb_count key (ir_state key r) = (rb_count key s + 1)%Z.
Proof. exact (chain_insert_total key cmp cmp_total). Qed.
End C08.

(* The three comparator families named by the property are total orders. *)
Theorem c08_int_cmp_total : TotalOrder Z int_cmp.
Proof. exact int_cmp_total. Qed.
Theorem c08_addr_cmp_total : forall (A : Type) (addr : A -> Z), TotalOrder A (by_key A addr).
Proof. exact by_key_total. Qed.
Theorem c08_lex_cmp_total : forall (A : Type) (c : A -> A -> Z),
  TotalOrder A c -> TotalOrder (list A) (lex_cmp A c).
Proof. exact lex_cmp_total. Qed.

(* Non-vacuity: a concrete non-trivial tree satisfies RB, and the history
   that produces it exercises recolouring and both double rotations. *)
Example c08_nonvacuous :
  inserts Z int_cmp E [5; 3; 8; 1; 4; 7; 9; 2; 6; 10; 0]%Z <> None /\
  exists t, inserts Z int_cmp E [5; 3; 8; 1; 4; 7; 9; 2; 6]%Z = Some t /\ size Z t = 9.
Proof. split; [vm_compute; discriminate | eexists; split; vm_compute; reflexivity]. Qed.

(* a tree node is three links and a colour, a tree is a root and a count: the state of the RBModel (StateSpace.v against the regenerated GenState) *)
Theorem c08_state_is_what_the_model_abstracts :
  StateSpace.state_as_modelled (StateSpace.tree_state) = true.
Proof. vm_compute. reflexivity. Qed.

Print Assumptions c08_state_is_what_the_model_abstracts.
Print Assumptions c08_inserts_rb.
Print Assumptions c08_insert_preserves_rb.
Print Assumptions c08_height_bound.
Print Assumptions c08_find_after_inserts.
Print Assumptions c08_owning_duplicate.
Print Assumptions c08_owning_fresh.
Print Assumptions c08_owning_total.
Print Assumptions c08_chain_total.
Print Assumptions c08_int_cmp_total.
Print Assumptions c08_addr_cmp_total.
Print Assumptions c08_lex_cmp_total.
Print Assumptions c08_nonvacuous.
