(* Properties_C04.v — C04: names and atoms are unified; a spelling has a single
   Identifier everywhere; linkage / convention / transfer values compare equal
   exactly when spelled the same.  Same model as C01 (Lexicon.v). *)
From Coq Require Import List ZArith NArith String Bool.
From IprV Require Import GenTypes RBModel RBProofs Comparators Unify Arena ArenaProofs Lexicon LexiconProofs LexTables GenCheck LexInst.
From IprV.gen Require Import GenCmp GenWords.
From IprV Require Derived CompareSource.
From IprV.gen Require GenDerived.
Import ListNotations.

Lemma known_sorted : sorted_strict known_words.
Proof. apply sorted_strictb_sound. vm_compute. reflexivity. Qed.
Lemma known_nonempty : ~ In [] known_words.
Proof.
  intros H. assert (E : existsb (fun w => match w with [] => true | _ => false end) known_words = false) by (vm_compute; reflexivity).
  apply Bool.not_true_iff_false in E. apply E. apply existsb_exists. exists []. auto.
Qed.

(* names and atoms: identifier, operator, suffix, conversion, constructor,
   destructor, guide name, template-id, logogram, symbol, label, this, literal,
   linkage, calling convention — the same statement as C01, over the same
   request language *)
Theorem c04_names_and_atoms_unified : forall rs i j mi ri ni mj rj nj,
  nth_error (Trace [] rs) i = Some (mi, ri, Some ni) ->
  nth_error (Trace [] rs) j = Some (mj, rj, Some nj) ->
  (ni = nj <-> FinalKey mi ri = FinalKey mj rj).
Proof. exact (requests_unified known_words builtin_words ix_default ix_this ix_C ix_Cxx builtin_void). Qed.

(* the table invariants hold in every reachable state *)
Theorem c04_table_invariant : forall m r, TInv known_words m -> TInv known_words (fst (Step m r)).
Proof. exact (step_TInv known_words builtin_words ix_default ix_this ix_C ix_Cxx builtin_void). Qed.

(* one String node per spelling (ties to C03) *)
Theorem c04_string_unique : forall m s s' w, AOk m -> TInv known_words m ->
  is_string known_words m s -> is_string known_words m s' ->
  str_word known_words m s = Some w -> str_word known_words m s' = Some w -> s = s'.
Proof. exact (string_unique known_words known_sorted known_nonempty). Qed.

(* the Identifier obtained for a spelling is the only Identifier with that
   spelling, the names of built-in types and symbolic constants included
   (they are the reserved-word identifiers [WordId k]) *)
Theorem c04_identifier_unique_per_spelling : forall m n n' w, AOk m -> TInv known_words m ->
  is_identifier known_words m n -> is_identifier known_words m n' ->
  ident_word known_words m n = Some w -> ident_word known_words m n' = Some w -> n = n'.
Proof. exact (identifier_unique known_words known_sorted known_nonempty). Qed.

(* get_identifier of a reserved spelling IS the constant's name *)
Theorem c04_reserved_identifier_is_constant : forall m k,
  Norm m (RIdentifier (StrKnown k)) = NConst (WordId k).
Proof. reflexivity. Qed.

(* operator== on logograms (hence linkages, conventions, transfers) compares
   the identity of the underlying String; it holds exactly for equal spellings *)
Theorem c04_value_equality_is_spelling : forall m g g' s s' w w', AOk m -> TInv known_words m ->
  logo_string m g = Some s -> logo_string m g' = Some s' ->
  is_string known_words m s -> is_string known_words m s' ->
  str_word known_words m s = Some w -> str_word known_words m s' = Some w' ->
  (s = s' <-> w = w').
Proof. exact (value_equality_is_spelling known_words known_sorted known_nonempty). Qed.

(* the red-black tables behind names and atoms *)
Theorem c04_spelling_tables :
  forall ks, exists s ns, trun _ spell_cmp (rb_empty _) ks = Some (s, ns) /\ List.length ns = List.length ks /\
  forall i j ki kj ni nj, nth_error ks i = Some ki -> nth_error ks j = Some kj ->
    nth_error ns i = Some ni -> nth_error ns j = Some nj -> (ni = nj <-> ki = kj).
Proof. exact spelling_table_unified. Qed.
Theorem c04_literal_table : forall (node : Type) (addr : node -> Z), (forall a b, addr a = addr b -> a = b) ->
  forall ks, exists s ns, trun _ (literal_cmp node addr) (rb_empty _) ks = Some (s, ns) /\ List.length ns = List.length ks /\
  forall i j ki kj ni nj, nth_error ks i = Some ki -> nth_error ks j = Some kj ->
    nth_error ns i = Some ni -> nth_error ns j = Some nj -> (ni = nj <-> ki = kj).
Proof. exact literal_table_unified. Qed.

Theorem c04_comparators_match_source : tables_ok gen_cmp_sites name_tables = true.
Proof. vm_compute. reflexivity. Qed.

Example c04_nonvacuous :
  map (fun e => snd e) (Trace [] [RString (bytes_of_string "x"); RIdentifier (Dyn 0); RString (bytes_of_string "int");
                                   RIdentifier (StrKnown (ix_of "int")); RString (bytes_of_string "x"); RIdentifier (Dyn 0);
                                   ROperator (Dyn 0); RLabel (WordId ix_default); RLinkage (StrKnown ix_C)])
  = [Some (Dyn 0); Some (Dyn 1); Some (StrKnown (ix_of "int")); Some (WordId (ix_of "int")); Some (Dyn 0); Some (Dyn 1);
     Some (Dyn 2); Some (SymConst 3); Some CLink].
Proof. vm_compute. reflexivity. Qed.

(* the leaf comparisons as they stand in the source (CompareSource.v over the regenerated GenDerived / GenCmp) *)
Theorem c04_string_order_is_by_characters : forall (I : Derived.interp) fuel a b,
  CompareSource.cmp I (20 + fuel) "ipr::String" a b =
  Derived.prim I "ext::compare" (CompareSource.acc I (20 + fuel) "String::characters" a) [CompareSource.acc I (20 + fuel) "String::characters" b].
Proof. exact CompareSource.string_order_is_by_characters. Qed.

Theorem c04_logogram_order_is_by_spelling : forall (I : Derived.interp) fuel a b,
  CompareSource.cmp I (20 + fuel) "ipr::Logogram" a b =
  CompareSource.cmp I (20 + fuel) "ipr::String" (CompareSource.acc I (20 + fuel) "Logogram::what" a) (CompareSource.acc I (20 + fuel) "Logogram::what" b).
Proof. exact CompareSource.logogram_order_is_by_spelling. Qed.

Theorem c04_value_operands_resolve_to_value_overloads : CompareSource.calls_ok gen_compare_calls = true.
Proof. exact CompareSource.value_operands_resolve_to_value_overloads. Qed.

Print Assumptions c04_string_order_is_by_characters.
Print Assumptions c04_logogram_order_is_by_spelling.
Print Assumptions c04_value_operands_resolve_to_value_overloads.
Print Assumptions c04_names_and_atoms_unified.
Print Assumptions c04_table_invariant.
Print Assumptions c04_string_unique.
Print Assumptions c04_identifier_unique_per_spelling.
Print Assumptions c04_reserved_identifier_is_constant.
Print Assumptions c04_value_equality_is_spelling.
Print Assumptions c04_spelling_tables.
Print Assumptions c04_literal_table.
Print Assumptions c04_comparators_match_source.
Print Assumptions c04_nonvacuous.
