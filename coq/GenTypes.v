(* GenTypes.v — record types of the tables that extract/cxx_facts.py
   regenerates from the C++ sources on every run (coq/gen/Gen*.v). *)
From Coq Require Import List ZArith NArith String Bool Ascii.
Import ListNotations.
Local Open Scope string_scope.

(* one interface class ipr::X, as seen by the reflection probe *)
Record iface_row := {
  if_name : string;
  if_is_node : bool;        (* derives from ipr::Node *)
  if_code : Z;              (* Category_code stamped by its Category<> base; -1 = none (abstract) *)
  if_nearest : string       (* nearest abstract super-category among Classic, Decl, Stmt, Directive,
                               Type, Name, Expr, Node ("-" if not a node) *)
}.

(* one overload ipr::Visitor::visit(const X&) *)
Record visitor_row := {
  v_param : string;
  v_pure : bool;
  v_virtual : bool;              (* declared virtual: accept() must reach the client's overrider *)
  v_defined : bool;              (* a definition was found in src/traversal.cxx *)
  v_forward : list string;       (* parameter classes of the visit overloads its body calls (resolved) *)
  v_stmts : nat                  (* number of statements in that body *)
}.

(* one instantiated accept(Visitor&) overrider *)
Record accept_row := {
  a_this : string;               (* static type of *this *)
  a_iface : string;              (* the interface class that type implements (innermost ipr:: class of its name) *)
  a_targets : list string        (* parameter class of the visit overload it resolves to *)
}.

(* one instantiated rb-tree insert/find call site *)
Record cmp_row := {
  c_flavour : string; c_op : string; c_elem : string; c_key : string;
  c_comparator : string; c_resolved : list string
}.

(* one object of static storage duration *)
Record static_row := {
  s_tu : string; s_name : string; s_type : string;
  s_constexpr : bool; s_const : bool; s_static_local : bool; s_thread_local : bool;
  s_mutable : bool                    (* its class has a `mutable` data member (directly, or in a member or base) *)
}.

(* one member function of a factory class *)
Record gfactory := {
  gf_class : string;                  (* expr_factory, type_factory, ..., Lexicon *)
  gf_name : string;
  gf_sorts : list string;             (* parameter sorts: E, T, R, I, S, T? (Optional<Type>), q, ph, ... *)
  gf_result : string;                 (* class of the node returned *)
  gf_bases : list string;             (* interface classes the aliases of the result may be declared in *)
  gf_shape : string;                  (* Unary / Binary / Ternary / Other: generic storage of the result's interface *)
  gf_defined : bool;
  gf_body : string;                   (* make.with_type / farm.make / table.insert / delegate / other *)
  gf_farm : string;                   (* store the body builds the node in, "" if the body is opaque *)
  gf_call : option (list (option nat)); (* constructor arguments, as parameter indices; None = opaque body *)
  gf_with_type : option nat           (* parameter handed to with_type *)
}.

Inductive lex_acc :=
| AccSpecifierWord (w : string) | AccQualifierWord (w : string)
| AccBuiltin (enumerator : string) | AccConstant (var : string) | AccUntranslatable.

Fixpoint bytes_of_string (s : string) : list N :=
  match s with EmptyString => [] | String c r => N_of_ascii c :: bytes_of_string r end.

Definition streq (a b : string) : bool := String.eqb a b.

Fixpoint str_mem (a : string) (l : list string) : bool :=
  match l with [] => false | x :: l' => streq a x || str_mem a l' end.

Fixpoint str_nodup (l : list string) : bool :=
  match l with [] => true | x :: l' => negb (str_mem x l') && str_nodup l' end.

Fixpoint str_index (a : string) (l : list string) : option nat :=
  match l with
  | [] => None
  | x :: l' => if streq a x then Some 0 else option_map S (str_index a l')
  end.

Lemma streq_eq a b : streq a b = true <-> a = b.
Proof. apply String.eqb_eq. Qed.

Lemma str_mem_In a l : str_mem a l = true <-> In a l.
Proof.
  induction l as [|x l IH]; simpl; [split; [discriminate|tauto]|].
  rewrite orb_true_iff, IH, streq_eq. split; intros [H|H]; auto.
Qed.

Lemma str_nodup_NoDup l : str_nodup l = true -> NoDup l.
Proof.
  induction l as [|x l IH]; simpl; [constructor|].
  rewrite andb_true_iff, negb_true_iff. intros [H1 H2]. constructor; auto.
  intros Hin. apply str_mem_In in Hin. congruence.
Qed.
