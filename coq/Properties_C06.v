(* Properties_C06.v — C06: category code, accept(), visitor defaults and view
   agree for every node class.  Statements over the tables regenerated from
   the current sources (coq/gen); finite domains, proved by computation and
   lifted to quantified statements (Visitor.v). *)
From Coq Require Import List ZArith String Bool.
From IprV Require Import GenTypes Visitor.
From IprV.gen Require Import GenCategory GenIface GenVisitor GenAccept.
From IprV.gen Require Import GenStatics.
Import ListNotations.
Local Open Scope string_scope.

Notation leaf := (is_leaf).

(* the Category<> base of every interface class stamps the enumerator bearing
   the class's own name *)
Theorem c06_category_is_own_code :
  forall r, In r gen_ifaces -> leaf r = true ->
  nth_error gen_categories (Z.to_nat (if_code r)) = Some (if_name r).
Proof. exact (own_code_lift gen_categories gen_ifaces ltac:(vm_compute; reflexivity)). Qed.

(* every instantiated accept overrider (impl::Node<T>::accept, T implementing
   interface X) resolves to visit(const X&); every leaf class has one *)
Theorem c06_accept_selects_own_hook :
  forall a, In a gen_accept -> a_targets a = [a_iface a].
Proof. exact (accept_lift gen_accept ltac:(vm_compute; reflexivity)). Qed.

Theorem c06_every_leaf_has_accept :
  forallb (leaf_has_accept gen_accept) gen_ifaces = true.
Proof. vm_compute; reflexivity. Qed.

(* the default body of every non-sink hook is a single call to the hook of the
   nearest abstract super-category *)
Theorem c06_default_forwards_to_nearest_abstract :
  forall r, In r gen_ifaces -> needs_default r = true ->
  exists h, find_hook gen_visitor (if_name r) = Some h /\ v_pure h = false /\
            v_forward h = [if_nearest r] /\ v_stmts h = 1.
Proof. exact (forward_lift gen_ifaces gen_visitor ltac:(vm_compute; reflexivity)). Qed.

(* a visitor overriding only the seven sinks receives exactly one call, at the
   nearest sink (classic expressions arrive at Expr through Classic); no loop *)
Theorem c06_dispatch_reaches_exactly_one_sink :
  forall r, In r gen_ifaces -> leaf r = true ->
  dispatch gen_visitor fuel0 is_sink (if_name r) = [nearest_sink r].
Proof. exact (sink_dispatch_lift gen_ifaces gen_visitor ltac:(vm_compute; reflexivity)). Qed.

(* view<K> yields the node for its own category and nothing for any other leaf *)
Theorem c06_view_characterisation :
  forall k i, In k gen_ifaces -> In i gen_ifaces -> leaf k = true -> leaf i = true ->
  (view gen_visitor (if_name k) (if_name i) = true <-> if_name k = if_name i).
Proof. exact (view_lift gen_ifaces gen_visitor ltac:(vm_compute; reflexivity)). Qed.

(* codes, leaf interfaces and hooks are in bijection; the pure hooks are the seven sinks *)
Theorem c06_codes_interfaces_hooks_bijection :
  bijection_ok gen_categories gen_ifaces gen_visitor = true.
Proof. vm_compute; reflexivity. Qed.

(* non-vacuity: the tables are populated *)
Example c06_nonvacuous :
  Nat.ltb 100 (List.length (leaves gen_ifaces)) = true /\ Nat.ltb 100 (List.length gen_accept) = true /\
  Nat.ltb 100 (List.length gen_visitor) = true.
Proof. vm_compute; auto. Qed.

(* No object of static storage duration defined by the library is initialized at run time before main(): each is constexpr
   (constant-initialized, hence complete before any initializer of any translation unit runs) or a function-local static
   (initialized on first use).  A client's namespace-scope object may therefore use the library's constants. *)
Theorem c06_constants_ready_before_main :
  forallb (fun s => s_constexpr s || s_static_local s) gen_statics = true.
Proof. vm_compute. reflexivity. Qed.

Print Assumptions c06_constants_ready_before_main.
Print Assumptions c06_category_is_own_code.
Print Assumptions c06_accept_selects_own_hook.
Print Assumptions c06_every_leaf_has_accept.
Print Assumptions c06_default_forwards_to_nearest_abstract.
Print Assumptions c06_dispatch_reaches_exactly_one_sink.
Print Assumptions c06_view_characterisation.
Print Assumptions c06_codes_interfaces_hooks_bijection.
Print Assumptions c06_nonvacuous.
