"""C01 — types are unified."""
from lexcommon import *
import lexgen

TYPE_OPS = ("pointer", "reference", "rvalue_reference", "array", "qualified", "function", "product", "productw", "sum",
            "sumw", "forall", "ptr_to_member", "tor", "as_type", "transfer", "transfer_l", "transfer_c")


def in_scope(key):
    k = key.split(":")
    return k[0] in ("split", "merged", "refused", "script") and (len(k) < 2 or k[1] in TYPE_OPS or k[0] == "script")


def check(res):
    f = factsmod.get_facts()
    status, out = coq_obligations(res, ["Properties_C01.v"])
    known = f["words"]["known_words"]["rows"]
    if res.tier == "quick":
        s = lexgen.gen_c01(res.tier, res.seed)
        st = run_script(res, s, known, "C01", in_scope)
        all_reqs = s.reqs
    else:
        scripts, st = run_histories(res, lambda k: lexgen.gen_c01(res.tier, res.seed * 1000 + k, n=(2500, 4000, 6000, 8000)[k % 4]), known, "C01", in_scope, 32)
        s = scripts[0]
        all_reqs = [r for sc in scripts for r in sc.reqs]
    if not all(status.values()) and not [v for v in res.violations if v["key"].startswith("oracle:")]:
        res.violation("coq:Properties_C01.v", "proof obligation no longer checks",
                      {"theorem_file": "Properties_C01.v", "error": coq_error_excerpt(out, "Properties_C01.v")}, no_input=True)
    ops = {}
    for r in all_reqs:
        ops[r[0]] = ops.get(r[0], 0) + 1
    res.coverage.update({
        "evaluations": st["n"], "distinct_nontrivial": st.get("classes", 0),
        "rule": "seeded history of type-constructor requests over built-ins, 8 client classes, 8 client expressions and every earlier "
                "answer: 35% exact repeats (any distance), 20% near misses differing in exactly one operand, prefix/extension sequences, "
                "qualifier sets 1..7, linkages C/C++/Java/Fortran/Cx x conventions ''/stdcall/fastcall/stdcal incl. explicit natural transfer and "
                "explicit false specification; distinct non-trivial = distinct identity classes returned by the implementation",
        "samples": [s.lines[i] for i in (len(s.lines) // 3, len(s.lines) // 2, len(s.lines) - 1)],
        "traces_validated_against_impl": st["n"],
        "input_distribution": {"requests_by_constructor": ops, "independent_histories": st.get("histories", 1)},
        "cmp_sites_in_source": len(f["cmp_sites"]),
    })
    res.assumptions += ["references passed to the factories outlive the Lexicon; a Sequence handed to get_product/get_sum by reference is not mutated afterwards",
                        "the association-list model is refined by the red-black tables (Unify.v, LexTables.v) for comparators that are total orders; "
                        "which comparator each call site resolves to is re-read from the source (GenCmp) on every run"]
