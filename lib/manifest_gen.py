#!/usr/bin/env python3
"""Regenerates MANIFEST.json from the table below (kept in one place so the
manifest stays valid while properties are added)."""
import json, os
HERE = os.path.dirname(os.path.dirname(os.path.abspath(__file__)))

CHECKS = {
 "C08": dict(
   technique="Coq proof (zipper model of CLRS insertion: invariants by induction on the ancestor path) + extracted-model/implementation correspondence on exhaustive small and long adversarial insertion sequences",
   text="Theorems in coq/Properties_C08.v hold for every insertion history and every total-preorder comparator: red-black colouring, equal black height, strict search order, find correctness, duplicates add nothing (owning), height <= 2 log2(n+1); the null-grandparent branch of fixup is proved unreachable. The model is hand-written and tied to include/ipr/utility by running the extracted model and the real tree (ASan+UBSan build) on the same sequences and diffing shapes, colours, sizes, returned elements and find results after every insertion.",
   note="Trusted: Coq kernel, extraction (ExtrOcamlBasic), harness/rb_driver.cxx, g++/ASan/UBSan. Modelled, not verified: pointer surgery (as a zipper); parent links are checked on the implementation by the driver and modelled in RBHeap.v.",
   ref="DESIGN.md §6 C08"),
 "C06": dict(
   technique="Coq proof by computation over tables regenerated from the C++ sources (clang AST: resolved visit overloads of every accept and default hook; g++-compiled reflection probe: category code and nearest abstract base of every interface class), lifted to quantified statements; exhaustive dynamic sweep of one node per implementation class",
   text="The domain is finite (159 leaf interface classes, 167 hooks, 158 accept instantiations) and is read off the current sources on every run, so the theorems of coq/Properties_C06.v (own category code; accept selects the class's own hook; every default hook is one call to the nearest abstract super-category; a sinks-only visitor gets exactly one call at the nearest sink; view<K> non-null iff K is the node's category; codes/classes/hooks in bijection) are re-checked against what the code says now. A driver then runs category/accept/view on a node of every implementation class and compares with the model's prediction extracted from the same tables.",
   note="Trusted: Coq kernel, the fact extractor (clang 14 AST + reflection probe compiled by g++), extraction, harness/zoo.h coverage (reported: 159/159 categories). Virtual dispatch itself is modelled by the tables, not verified.",
   ref="DESIGN.md §6 C06"),
 "C10": dict(
   technique="Coq proof (bit lemmas on N for any table of distinct words: decompose(union S) = S for every subset, set-operation laws, refusal) instantiated at tables regenerated from src/impl.cxx; exhaustive run of all 2^18 + 2^3 subsets on the implementation against the extracted model",
   text="Bits.v proves the inverse-pair law for every list of basic names (any order, repetitions), the set-operation laws for lor/land/lxor/implies and refusal of unknown names, for an arbitrary table of at most 32 distinct words; Properties_C10.v discharges the side conditions on the tables read from the current source (NoDup, length, constexpr) and checks every named accessor body against its documented word. The implementation is then run on all subsets, on seeded pairs, on every accessor and on reserved/near-miss/random unknown names and compared line by line with the extracted model.",
   note="Trusted: Coq kernel, extractor, extraction, c10_driver. Basic_specifier equality is pointer equality of logograms (as in the code); the harness obtains logograms through get_logogram.",
   ref="DESIGN.md §6 C10"),
 "C03": dict(
   technique="Coq proof (arena invariant by induction over allocation histories with lia; memory as a finite map and non-overlap of blocks; correctness of std::lower_bound over the regenerated, provably sorted reserved-word table; interning invariant for an arbitrary hash function) + extracted-model/implementation correspondence on word streams under ASan",
   text="ArenaProofs.v proves, for every interning history, every byte content and every hash function: blocks lie inside their pools and never overlap, the characters read back from any returned String are the bytes interned whatever is interned later, two requests return the same node iff their contents are equal, earlier answers never change, and the empty and reserved words map to constants without allocating. The binary search is proved correct for the table read from the current source, which is checked to be strictly sorted. The extracted model and the real string pool then intern the same streams (boundary lengths, all byte values, near misses of reserved words, pool roll-over, oversize) and are compared on identity classes and on the (pool, offset) placement of every new string.",
   note="Trusted: Coq kernel, extractor (known_words table), extraction, c03_driver (reads arena internals with #define private public), ASan. Modelled, not verified: operator new, std::map/forward_list buckets, std::hash (arbitrary function in the proofs), std::copy.",
   ref="DESIGN.md §6 C03"),
 "C01": dict(
   technique="Coq proof: request histories over finite-map tables (induction over histories; normal forms as a function), refinement of the red-black container to the finite map for any total-order comparator (Unify.v on top of the C08 proofs), total-order lemmas for every comparator shape; comparator call sites re-read from the clang AST; seeded differential runs of the extracted model against impl::Lexicon with an independent identity-partition oracle",
   text="c01_types_unified: for every history of type-constructor requests and every operand choice, two requests return the same node iff they stand for the same key after the documented collapses (default false specification, natural transfer by value, Warehouse copies, qualifier merging); answers never change later. LexTables.v shows each table shape (unary/binary/ternary by address, qualifier value, sequences element-wise, transfers by spelling) behaves like the finite map on the real red-black container for every injective address map. GenCheck/GenCmp re-derive from the current source which operator() each insert site resolves to and reject the (Node,Node) self-address overload. The correspondence replays 2.8k (quick) / 60k (thorough) requests with 35% repeats and 20% one-operand near misses on both model and implementation.",
   note="Trusted: Coq kernel, extractor (GenCmp), extraction, lex_driver. Modelled, not verified: the per-table trees are one association list at the spec layer (refinement proved generically, not per call site); operands are assumed well-typed and to outlive the Lexicon.",
   ref="DESIGN.md §6 C01"),
 "C04": dict(
   technique="Same Coq model and refinement as C01, plus invariants proved by induction over histories: one String per spelling, one Identifier per spelling (reserved words included), value equality = spelling equality; comparator call sites re-read from the AST; differential runs with an independent oracle",
   text="c04_names_and_atoms_unified is the unification theorem for names and atoms; c04_identifier_unique_per_spelling and c04_string_unique prove, for every reachable table, that two Identifier (String) nodes with the same spelling are the same node, where the names of the built-ins and symbolic constants are the reserved-word identifiers; c04_value_equality_is_spelling covers operator== on logogram-based values. Every reserved word is pushed through every route on the implementation and the model.",
   note="As C01. String identity relies on C03.",
   ref="DESIGN.md §6 C04"),
 "C11": dict(
   technique="Coq proof by induction over qualification sequences and histories (table invariant QInv; chain lemma) on the C01 model; exhaustive enumeration of all splittings of every qualifier subset on the implementation against the extracted model",
   text="c11_qualified_never_empty, c11_main_variant_unqualified (for every well-scoped history) and c11_qualification_order_irrelevant (any two non-empty sequences of non-empty sets with the same union, any state in between, end in the very same node). The check enumerates every presentation of every non-empty subset of {const,volatile,restrict} as 1..3 successive requests over 8 (quick) / 22 (thorough) base types with unrelated requests interleaved.",
   note="As C01.",
   ref="DESIGN.md §6 C11"),
 "C13": dict(
   technique="Coq proof by computation over tables regenerated from the source (builtin.def rows, reserved words, constant definitions, accessor bodies) against a hand-written table of documented spellings; state-independence of the spelling routes proved on the C01 model; exhaustive dynamic sweep on three Lexicon instances",
   text="Properties_C13.v: the 26 accessors return pairwise distinct rows, each spelled as documented and reserved; symbolic constants and linkages are defined, spelled and typed as documented; the tables are constexpr; every route from a spelling (string -> identifier -> as-type, linkage, label, decltype) yields the constant in every Lexicon state. The driver checks all of it on three Lexicon instances (two alive at once, one created after a destruction), including identity across instances.",
   note="Trusted: extractor tables; the Nullptr constant's own type is checked dynamically only.",
   ref="DESIGN.md §6 C13"),
 "C07": dict(
   technique="Coq proof by induction over declaration histories on a structural model of the scope (overload sets by name, entries by type, declaration sets), lookup tables refined by the C08/Unify results, comparator call sites re-read from the AST; seeded differential runs under ASan with an independent oracle computed from the history",
   text="Scope.v proves for every history of (name,type) declarations: the scope lists them in entry order and its type is the product of their types; lookup finds a name iff it was declared; selection by type yields the first declaration with that name and type; each declaration's master is that first one and its decl-set is exactly the declarations sharing name and type, in entry order; homogeneous scopes report position = index. GenCmp shows that, in the current source, the overload table and the entry tables are searched with key comparators (the defect fixed in 12f6b4a is exactly a violation of that obligation). 550 (quick) / 8000 (thorough) histories are run on the real scopes and on the extracted model.",
   note="Trusted: Coq kernel, extractor, extraction, scope_driver, ASan. Modelled: decl_factory farms and the intrusive chain as lists.",
   ref="DESIGN.md §6 C07"),
 "C02": dict(
   technique="Coq proof over a model of the factories regenerated from the source (constructor-argument order of every one-statement factory body and the accessor forwarding of the interface header, both re-translated from the clang AST on every run) against a hand-written documentation table; complete data-driven sweep of every factory member function under ASan+UBSan compared with the extracted model",
   text="Schema.doc_table documents, for all ~210 defined factory signatures, the accessor under which each operand must read back. Properties_C02.v proves on the regenerated tables: every factory of the current source has a row; every operand is documented under some accessor; wherever the translator could read the body (make(farm,args).with_type(t) / farm.make(args)) the slot each documented accessor resolves to (through the CURRENT header's forwarding) holds the documented operand, and therefore for EVERY argument tuple the built node reads back what the documentation says, absent Optionals reading absent. The sweep calls every factory with two fully distinguishable tuples, absent optionals, equal operands and seeded random tuples and compares every documented accessor (about 6000 values quick) and every modelled constructor slot with the implementation.",
   note="Trusted: Coq kernel, the AST translator (fails closed: unreadable bodies are 'opaque' and covered by the sweep only), extraction, fsweep driver (generated), ASan/UBSan. Modelled by hand: the constructor slot order of the implementation classes that have their own constructor (Schema.ctor_slots), and the documentation table itself (the specification). Builders reached through members (param, add_member, declare_*) are covered by C07/C12.",
   ref="DESIGN.md §6 C02"),
 "C05": dict(
   technique="Coq proof of the logical half over append-only construction histories (induction over the operation list); container-kind lemma by vm_compute over the standard containers and growth operations the current source uses (regenerated from the clang AST) for the physical half; long seeded histories over the complete factory list with every earlier node re-observed under ASan+UBSan",
   text="PARTIAL by nature (stated in the theorem name): Stability.v proves for every history h1 ++ h2 that a node created in h1 keeps its index, category, operands and typing, and that its member list after h2 is its list after h1 followed by exactly the additions h2 aims at that node; an untouched node is identical; every generative call yields an index distinct from all live ones. 'Keeps its address' and 'stays valid' are memory facts a Gallina model cannot exhibit: they rest on c05_object_stores_reference_stable_partial (every store holding node OBJECTS is a forward_list / deque grown by emplace_back / map, and the growth operations it calls keep references valid under the C++ standard's rules; a vector of objects or a deque insert fails it) and on ASan histories: 2.5k (thorough 124k) steps, each returned node remembered with its address and the reading of every accessor, all re-observed after every early step, 25 random ones after every later step, all of them every 1500 steps; products of destroyed Warehouses re-read; equal addresses among generative results reported.",
   note="Trusted: Coq kernel, extractor, history driver (generated dispatcher), ASan/UBSan, and the C++ standard's container invalidation rules as encoded in Stability.growth_keeps_references. Modelled: node identity as creation index. A declaration's decl-set and a container's member list are allowed to grow at their end (explicit additions).",
   ref="DESIGN.md §6 C05"),
 "C09": dict(
   technique="Coq proof: a prescription table (one typing rule per node category) checked by vm_compute against the body of every type() member function and the class-to-category resolution, both re-translated from the clang AST on every run; interpretation theorems over any heap of nodes; sweep of every factory, zoo of all categories and growing sequences under ASan compared with the rules and the extracted model",
   text="Typing.prescribed gives all 146 typed categories a rule (fixed constant, first operand, type of a designated sub-node, stored at construction, declaration type, product of members). Properties_C09.v proves on the regenerated tables that the type() body a node of each category runs reads exactly the prescribed rule (through the current header's accessor forwarding), that every class defining type() is accounted for, that every typed category is prescribed; and for every heap: kind-fixed types are independent of operands, borrowed types equal the designated sub-node's type and are refused when it is unset, cast/literal types are the first operand, constructed types are what was given, and the type of a sequence node after any addition is the product of its current members' types. Dynamically: type() of ~1000 factory results and 200 zoo nodes is judged by rule; scopes, parameter lists, base lists, enumerations and expression lists are grown and re-read after every addition, also through a reference obtained before the first addition.",
   note="Trusted: Coq kernel, AST translator incl. the walk that finds the class providing type() (fails closed), extraction, drivers, ASan. kind_fixed/cast_literal theorems hold by definition of the interpreter; their weight is in rules_match_source. Symbolic constants' types (void/bool/nullptr) are C13's.",
   ref="DESIGN.md §6 C09"),
 "C14": dict(
   technique="Coq proof over an outcome algebra (value / refused / undefined) with the access discipline of the current source regenerated from the clang AST (safeguards of every Sequence::get body; every pointer dereference in a const member function that is not under util::check, matched against an explicit non-null-by-construction list); exhaustive accessor x node sweep and index probes under ASan+UBSan",
   text="Properties_C14.v proves on the regenerated tables: every get(Index) of a Sequence implementation guards its index; no const member function dereferences an unchecked pointer outside the 15 listed non-null-by-construction sites; hence for the sequence implementations of today's source get never yields undefined behaviour and is refused at or beyond size(), for all slot states (filled or never filled) and all indices; unset Optional/ref/checked links are refused; iteration visits size() elements and agrees with positional access. Dynamically every interface accessor (208 names) is read on every factory result (fresh, links unset) and every zoo node; every sequence-valued result is iterated and read at size(), size()+1, size()+10^6, max/2, max; reference sequences with unfilled slots are built directly.",
   note="Trusted: Coq kernel, AST translator, drivers, ASan/UBSan (memory corruption they cannot see is out of reach). The allowed-dereference list is part of the statement. Genuine defect D15 (ref_sequence::get on an unfilled slot) was found by this check and repaired (fix commit f6b914c).",
   ref="DESIGN.md §6 C14"),
 "C16": dict(
   technique="Coq proof (finite-map lemmas by induction over binding sequences) + extracted-model/implementation correspondence with an independent oracle",
   text="Subst.v: an elementary substitution maps its parameter to its value and every other parameter to itself; a general substitution built from any sequence of bindings (rebinding included) yields, for every queried parameter, the latest binding or the parameter itself, and holds one binding per parameter. The driver builds elementary and general substitutions over the parameters of two mappings and queries parameters inside and outside the domain; results are compared with the extracted model and with the finite-map oracle.",
   note="Trusted: Coq kernel, extraction, subst_driver. std::map is modelled by an association list.",
   ref="DESIGN.md §6 C16"),
 "C15": dict(
   technique="Coq proofs about the denotation of the bodies of the inline derived operations, which are re-translated from the public headers (clang AST -> expression trees) on every run, under an arbitrary interpretation of the primitive accessors; exhaustive side-by-side evaluation on the zoo",
   text="193 inline operations are translated; Properties_C15.v proves, for ANY interpretation of the pure-virtual accessors (hence any node in any state): Sequence::empty/begin/end/position and the Iterator algebra (iteration from begin to end visits size() elements and agrees with positional access), Product/Sum/Expr_list/Scope/Parameter_list helpers, Udt::scope and members(), Block::body and try_block (true exactly when handlers are present), Template::parameters/result, Parameter::default_value, Type::linkage, and that ==/!= on Logogram, Linkage, Calling_convention, Basic_specifier/qualifier are identity of the underlying String/logogram (an equivalence); 87 named accessors are checked to be exactly their documented primitive. A changed body breaks the corresponding theorem; the driver then exhibits a node on which helper and definition differ.",
   note="Trusted: the AST-to-expression translator (fails closed: unknown shapes become CUnknown, which evaluates to an error value), Coq kernel. The denotation treats & and * as identity on objects and models only the two aggregates the interface defines (Iterator).",
   ref="DESIGN.md §6 C15"),
 "C12": dict(
   technique="Coq proof: well-foundedness by induction over construction histories (every new region is enclosed by an older one), per-constructor enclosure/ownership lemmas, reachability of a global root by strong induction; extracted-model/implementation correspondence on seeded nesting scripts under ASan with an independent oracle",
   text="Region.v proves for every construction history: each region's parent was created earlier, walking outward reaches a parentless (global) region in at most index+1 steps, only unit roots are global, every constructor encloses its region in the one it was given with the documented owner (class, union, enum, namespace, closure, block, mapping, lambda, handler body), a handler body is enclosed by a region binding exactly the exception parameter which is enclosed by the region enclosing the guarded block; member positions equal indices (Scope.v). Scripts of up to 200 (2500) operations, random and deeply nested, are run on the library and on the extracted model.",
   note="Trusted: Coq kernel, extraction, region_driver, ASan. Modelled: region identity as creation index; Requires/morphism/where regions have no owner in the library and in the model.",
   ref="DESIGN.md §6 C12"),
 "C19": dict(
   technique="Coq proof of allocation/release accounting (arena pool chain is a permutation of the pools allocated, by induction over allocation histories; a red-black container holds exactly the nodes it allocated, via the C08/Unify refinement; ledger theorem: no leak, no double free) + destructor facts re-read from the AST; ASan/UBSan/LeakSanitizer runs of build-print-destroy cycles — PARTIAL",
   text="Proved on the model: every pool ever allocated (oversize splices included) is on the chain the arena destructor walks, once; the nodes reachable from a container's root are exactly the allocated ones; with both destructors present the released cells are a duplicate-free permutation of the allocated cells. Properties_C19.v also checks on the current source that rb_tree::container and string::arena have user destructors (the container's calls destroy_node) and that every other store is a standard container. The driver builds, prints and destroys 12 (600) Lexicons in one ASan process and runs a recoverable LeakSanitizer check after each.",
   note="PARTIAL: 'no operation reads or writes outside live objects' is a runtime fact observed by ASan on the runs, not proved. Standard containers are trusted to release their elements.",
   ref="DESIGN.md §6 C19, §12"),
 "C20": dict(
   technique="Coq proof by computation over the table of all static-storage objects regenerated from the five TUs (all constexpr/const), plus a frame/interleaving theorem on the Lexicon model; ThreadSanitizer runs with per-thread Lexicons compared against sequential runs — PARTIAL",
   text="c20_no_mutable_statics: in the current source every namespace-scope, static-member and function-local static object is constexpr or const and none is thread_local (a function-local cache or counter added anywhere breaks this). c20_interleaving_irrelevant / c20_frame: on the model each Lexicon obtains exactly the answers it would obtain alone and operations on one Lexicon leave the others untouched; constants are never created by requests. 2..16 (32) threads with their own Lexicons build and print under TSan; traces equal the sequential ones.",
   note="PARTIAL: data-race freedom of the compiled code under every interleaving is observed (TSan), not proved.",
   ref="DESIGN.md §6 C20, §12"),
}

NOT_YET = {}

def main():
    props = [json.loads(l) for l in open(os.path.join(HERE, "properties.jsonl"))]
    checks = []
    na = []
    for p in props:
        pid = p["id"]
        if pid in CHECKS:
            c = CHECKS[pid]
            checks.append({
                "property_id": pid,
                "quick_cmd": "./check %s --tier quick" % pid,
                "thorough_cmd": "./check %s --tier thorough" % pid,
                "evidence_file": "/verif/evidence/%s.json" % pid,
                "replay_cmd_template": "./check %s --replay {path}" % pid,
                "engine": "coq+correspondence",
                "level_claimed": {"category": "proof", "text": c["text"], "design_ref": c["ref"]},
                "level_note": c["note"],
                "technique": c["technique"],
            })
        else:
            na.append({"property_id": pid, "reason": NOT_YET.get(pid, "check not built yet in this development (work in progress; see DESIGN.md §11 for the order of work)")})
    m = {
        "version": 1,
        "setup_cmd": "cd /verif && ./check --setup",
        "hooks": {"guard": "IPR_VERIF", "enable": "harness and library objects are compiled with -DIPR_VERIF by lib/common.py (no hook is currently needed)",
                  "baseline_off_cmd": "cmake --build /repo/_build && ctest --test-dir /repo/_build -j8 --timeout 900",
                  "source_commits": [], "add_only": True},
        "engines": [{"name": "coq+correspondence", "path": "/verif/check",
                     "serves_properties": sorted(CHECKS),
                     "kind_free_text": "Coq 8.16.1 proofs about Gallina models (coq/), facts regenerated from the C++ sources by extract/cxx_facts.py, extracted OCaml model vs C++ harness differential runs (harness/), Python oracles (lib/)"}],
        "checks": checks,
        "not_applicable": na,
        "notes": "See DESIGN.md. Known findings: known_findings.jsonl.",
    }
    json.dump(m, open(os.path.join(HERE, "MANIFEST.json"), "w"), indent=1)

if __name__ == "__main__":
    main()
