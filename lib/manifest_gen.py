#!/usr/bin/env python3
"""Regenerates MANIFEST.json from the table below (kept in one place so the
manifest stays valid while properties are added)."""
import json, os
HERE = os.path.dirname(os.path.dirname(os.path.abspath(__file__)))

CHECKS = {
 "C08": dict(
   technique="Coq proof (zipper model of CLRS insertion: invariants by induction on the ancestor path) + extracted-model/implementation correspondence on exhaustive small and long adversarial insertion sequences",
   text="Theorems in coq/Properties_C08.v hold for every insertion history and every total-preorder comparator: red-black colouring, equal black height, strict search order, find correctness, duplicates add nothing (owning), height <= 2 log2(n+1); the null-grandparent branch of fixup is proved unreachable. The model is hand-written and tied to include/ipr/utility by running the extracted model and the real tree (ASan+UBSan build) on the same sequences and diffing shapes, colours, sizes, returned elements and find results after every insertion.",
   note="Trusted: Coq kernel, extraction (ExtrOcamlBasic), harness/rb_driver.cxx, g++/ASan/UBSan. Modelled, not verified: pointer surgery (as a zipper); parent links are checked on the implementation by the driver and modelled in RBHeap.v.",
   ref="DESIGN.md §6 C08"),
 "C06": dict(
   technique="Coq proof by computation over tables regenerated from the C++ sources (clang AST: resolved visit overloads of every accept and default hook; g++-compiled reflection probe: category code and nearest abstract base of every interface class), lifted to quantified statements; exhaustive dynamic sweep of one node per implementation class",
   text="The domain is finite (159 leaf interface classes, 167 hooks, 158 accept instantiations) and is read off the current sources on every run, so the theorems of coq/Properties_C06.v (own category code; accept selects the class's own hook; every default hook is one call to the nearest abstract super-category; a sinks-only visitor gets exactly one call at the nearest sink; view<K> non-null iff K is the node's category; codes/classes/hooks in bijection) are re-checked against what the code says now. A driver then runs category/accept/view on a node of every implementation class and compares with the model's prediction extracted from the same tables.",
   note="Trusted: Coq kernel, the fact extractor (clang 14 AST + reflection probe compiled by g++), extraction, harness/zoo.h coverage (reported: 159/159 categories). Virtual dispatch itself is modelled by the tables, not verified.",
   ref="DESIGN.md §6 C06"),
 "C10": dict(
   technique="Coq proof (bit lemmas on N for any table of distinct words: decompose(union S) = S for every subset, set-operation laws, refusal) instantiated at tables regenerated from src/impl.cxx; exhaustive run of all 2^18 + 2^3 subsets on the implementation against the extracted model",
   text="Bits.v proves the inverse-pair law for every list of basic names (any order, repetitions), the set-operation laws for lor/land/lxor/implies and refusal of unknown names, for an arbitrary table of at most 32 distinct words; Properties_C10.v discharges the side conditions on the tables read from the current source (NoDup, length, constexpr) and checks every named accessor body against its documented word. The implementation is then run on all subsets, on seeded pairs, on every accessor and on reserved/near-miss/random unknown names and compared line by line with the extracted model.",
   note="Trusted: Coq kernel, extractor, extraction, c10_driver. Basic_specifier equality is pointer equality of logograms (as in the code); the harness obtains logograms through get_logogram.",
   ref="DESIGN.md §6 C10"),
 "C03": dict(
   technique="Coq proof (arena invariant by induction over allocation histories with lia; memory as a finite map and non-overlap of blocks; correctness of std::lower_bound over the regenerated, provably sorted reserved-word table; interning invariant for an arbitrary hash function) + extracted-model/implementation correspondence on word streams under ASan",
   text="ArenaProofs.v proves, for every interning history, every byte content and every hash function: blocks lie inside their pools and never overlap, the characters read back from any returned String are the bytes interned whatever is interned later, two requests return the same node iff their contents are equal, earlier answers never change, and the empty and reserved words map to constants without allocating. The binary search is proved correct for the table read from the current source, which is checked to be strictly sorted. The extracted model and the real string pool then intern the same streams (boundary lengths, all byte values, near misses of reserved words, pool roll-over, oversize) and are compared on identity classes and on the (pool, offset) placement of every new string.",
   note="Trusted: Coq kernel, extractor (known_words table), extraction, c03_driver (reads arena internals with #define private public), ASan. Modelled, not verified: operator new, std::map/forward_list buckets, std::hash (arbitrary function in the proofs), std::copy.",
   ref="DESIGN.md §6 C03"),
}

NOT_YET = {}

def main():
    props = [json.loads(l) for l in open(os.path.join(HERE, "properties.jsonl"))]
    checks = []
    na = []
    for p in props:
        pid = p["id"]
        if pid in CHECKS:
            c = CHECKS[pid]
            checks.append({
                "property_id": pid,
                "quick_cmd": "./check %s --tier quick" % pid,
                "thorough_cmd": "./check %s --tier thorough" % pid,
                "evidence_file": "/verif/evidence/%s.json" % pid,
                "replay_cmd_template": "./check %s --replay {path}" % pid,
                "engine": "coq+correspondence",
                "level_claimed": {"category": "proof", "text": c["text"], "design_ref": c["ref"]},
                "level_note": c["note"],
                "technique": c["technique"],
            })
        else:
            na.append({"property_id": pid, "reason": NOT_YET.get(pid, "check not built yet in this development (work in progress; see DESIGN.md §11 for the order of work)")})
    m = {
        "version": 1,
        "setup_cmd": "cd /verif && ./check --setup",
        "hooks": {"guard": "IPR_VERIF", "enable": "harness and library objects are compiled with -DIPR_VERIF by lib/common.py (no hook is currently needed)",
                  "baseline_off_cmd": "cmake --build /repo/_build && ctest --test-dir /repo/_build -j8 --timeout 900",
                  "source_commits": [], "add_only": True},
        "engines": [{"name": "coq+correspondence", "path": "/verif/check",
                     "serves_properties": sorted(CHECKS),
                     "kind_free_text": "Coq 8.16.1 proofs about Gallina models (coq/), facts regenerated from the C++ sources by extract/cxx_facts.py, extracted OCaml model vs C++ harness differential runs (harness/), Python oracles (lib/)"}],
        "checks": checks,
        "not_applicable": na,
        "notes": "See DESIGN.md. Known findings: known_findings.jsonl.",
    }
    json.dump(m, open(os.path.join(HERE, "MANIFEST.json"), "w"), indent=1)

if __name__ == "__main__":
    main()
