"""C20 — Lexicons are isolated: independent instances can be used from different threads (partial)."""
import re
from common import *
import facts as factsmod


def check(res):
    f = factsmod.get_facts()
    status, out = coq_obligations(res, ["Properties_C20.v"])
    exe = build_driver("threads_driver", "tsan")
    configs = [(2, 4), (4, 4), (8, 3), (16, 2)] if res.tier == "quick" else [(2, 200), (4, 200), (8, 150), (16, 100), (32, 30)]
    env = dict(os.environ, TSAN_OPTIONS="halt_on_error=0:report_signal_unsafe=0:second_deadlock_stack=1")
    keys = False
    total = 0
    samples = []
    for (t, r) in configs:
        p = run([exe, str(t), str(r), str(res.seed)], timeout=3600, env=env)
        last = p.stdout.strip().splitlines()[-1] if p.stdout.strip() else ""
        samples.append(last)
        m = re.search(r"runs=(\d+) mismatches=(\d+)", last)
        if m:
            total += int(m.group(1))
        if "WARNING: ThreadSanitizer" in p.stderr:
            keys = True
            where = re.findall(r"#\d+ (ipr::[^\n]*?) /repo/([^\s:]+):(\d+)", p.stderr)
            res.violation("oracle:data-race", "ThreadSanitizer reports a data race between threads that use different Lexicons",
                          {"threads": t, "rounds": r, "frames": ["%s (%s:%s)" % w for w in where[:8]], "tsan": p.stderr[:4000],
                           "rerun": "build/<hash>/tsan/threads_driver %d %d %d" % (t, r, res.seed)})
            break
        if p.returncode != 0 or not m:
            keys = True
            res.violation("crash", "threads driver failed (rc=%d)" % p.returncode, {"stderr": p.stderr[-3000:], "stdout": p.stdout[-500:]})
            break
        if int(m.group(2)) != 0:
            keys = True
            res.violation("oracle:result-differs", "a thread obtained results that differ from the same program run alone",
                          {"threads": t, "rounds": r, "stdout": p.stdout[-1500:], "rerun": "build/<hash>/tsan/threads_driver %d %d %d" % (t, r, res.seed)})
            break
    # Lexicons created and destroyed by one thread in one reused storage slot, populated by another, long-lived thread (ASan build)
    hexe = build_driver("threads_driver", "asan")
    hp = run([hexe, "handover", "8" if res.tier == "quick" else "200"], timeout=1800, env=SAN_ENV)
    hm = re.search(r"handover jobs=(\d+) done=(\d+) wrong=(\d+)", hp.stdout)
    if hp.returncode != 0 or not hm:
        keys = True
        res.violation("oracle:handover-crash", "a worker thread populating Lexicons that another thread creates and destroys in one reused storage slot ended in a sanitizer report / crash "
                      "(something of a destroyed Lexicon reached the next one)", {"stderr": hp.stderr[:3500], "rerun": "build/<hash>/asan/threads_driver handover 8"})
    elif hm.group(3) != "0" or hm.group(1) != hm.group(2):
        keys = True
        res.violation("oracle:handover", "a worker thread populating Lexicons handed over in one reused storage slot read back wrong spellings or nodes: " + hm.group(0),
                      {"stdout": hp.stdout[-500:], "rerun": "build/<hash>/asan/threads_driver handover 8"})
    if not all(status.values()) and not keys:
        bad = [s for s in f["statics"] if not (s["constexpr"] or s["const"]) or s["thread_local"] or s.get("mutable_members")]
        if bad:
            res.violation("table:mutable-static", "the source defines a mutable object of static storage duration: %s %s (%s)" %
                          (bad[0]["type"], bad[0]["name"], bad[0]["tu"]),
                          {"static_objects": bad[:5], "source": "extract/cxx_facts.py statics()"})
        else:
            res.violation("coq:Properties_C20.v", "proof obligation no longer checks", {"theorem_file": "Properties_C20.v", "error": coq_error_excerpt(out, "Properties_C20.v")}, no_input=True)
    res.coverage.update({
        "evaluations": total, "distinct_nontrivial": len(configs) * 3,
        "rule": "T threads (2..16, thorough ..32), each with its own Lexicon, build (300 seeded requests incl. shared reserved-word constants, "
                "declarations, 1-6 KB strings) and print a unit under ThreadSanitizer with random yields; several threads run the same program; "
                "each thread's trace (identity pattern + printed text) is compared with the same program run alone; then all threads at once ask their own "
                "Lexicon for specifiers(b) / qualifiers(q) of every basic name 150000 x rounds times, each in its own order, every answer compared with the named accessor",
        "samples": samples,
        "traces_validated_against_impl": total,
        "static_objects_in_source": len(f["statics"]),
        "proved_part": "no mutable static-storage object in the source (table); interleaving-independence of the model",
    })
    res.assumptions += ["PARTIAL: absence of data races under every scheduler interleaving is argued from 'no shared mutable state' and observed with TSan on the runs above, not proved of the compiled code",
                        "`mutable` data members are found by class NAME among the classes of namespace ipr (members and bases included); a class outside ipr with mutable members is not seen by the table"]
