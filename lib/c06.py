"""C06 — category code, accept(), visitor defaults and view<K>."""
from common import *
import facts as factsmod

SINKS = ["Node", "Expr", "Name", "Type", "Directive", "Stmt", "Decl"]


def parse(line):
    w = line.split()
    d = dict(x.split("=", 1) for x in w[1:])
    d["label"] = w[0]
    return d


def table_findings(f):
    """Python mirror of the Coq checkers, used only to name offending rows when a
    table obligation fails."""
    out = []
    cats = f["categories"]
    for name, r in f["reflect"].items():
        if not r["is_node"]:
            continue
        if r["code"] >= 0 and (r["code"] >= len(cats) or cats[r["code"]] != name):
            out.append(("own-code:" + name, "class %s is stamped with code %d (%s)" %
                        (name, r["code"], cats[r["code"]] if r["code"] < len(cats) else "?")))
        if name not in SINKS:
            h = f["visitor"].get(name)
            fw = f["visitor_forwards"].get(name)
            if h is None or fw is None:
                out.append(("default-hook:" + name, "no default hook defined for " + name))
            elif fw["targets"] != [r["nearest"]] or fw["stmts"] != 1:
                out.append(("default-hook:" + name, "Visitor::visit(const %s&) forwards to %s, nearest abstract super-category is %s" %
                            (name, fw["targets"], r["nearest"])))
    for a in f["accept"]:
        if a["mangled"] and a["targets"] != [a["iface"]]:
            out.append(("accept:" + a["iface"], "%s::accept resolves to visit(%s)" % (a["this"], a["targets"])))
    return out


def check(res):
    f = factsmod.get_facts()
    status, out = coq_obligations(res, ["Properties_C06.v"])
    coq_failed = not all(status.values())
    exe = build_driver("c06_driver", "plain")
    gen = build_gen_driver()
    p = run([exe], timeout=600)
    if p.returncode != 0:
        last = [l for l in p.stdout.splitlines() if " category=" in l][-1:]
        res.violation("crash", "c06 driver failed%s" % (" while inspecting the constant %s" % last[0] if last else ""),
                      {"stderr": p.stderr[-3000:], "last_constant_inspected": last, "rerun": "build/<hash>/plain/c06_driver"})
        return
    impl = [parse(l) for l in p.stdout.splitlines() if " category=" not in l]
    # the shared constants seen before main() (by an initializer of a translation unit linked before the library) and from main()
    early = {d["label"][8:]: d for d in impl if d["label"].startswith("premain:")}
    late = {d["label"][7:]: d for d in impl if d["label"].startswith("inmain:")}
    for k in late:
        a, b = early.get(k), late[k]
        if a is None or any(a[x] != b[x] for x in ("cat", "full", "sinks", "views")):
            res.violation("oracle:before-main:" + k, "the constant %s seen by the initializer of a namespace-scope object (before main) is %s; from main() it is %s" %
                          (k, {x: a[x] for x in ("cat", "full", "views")} if a else "missing", {x: b[x] for x in ("cat", "full", "views")}),
                          {"constant": k, "before_main": a, "in_main": b, "rerun": "build/<hash>/plain/c06_driver | grep ':%s '" % k})
            break
    model = {}
    for l in run([gen, "c06"], timeout=600, check=True).stdout.splitlines():
        d = parse(l)
        model[d["label"]] = d
    # after 60000 visits that ended in an exception, the nodes answer as they did before
    firsts = {}
    for d in impl:
        if not d["label"].startswith(("after-refusals:", "premain:", "inmain:")):
            firsts.setdefault(d["label"], d)
    for d in [x for x in impl if x["label"].startswith("after-refusals:")]:
        a = firsts.get(d["label"][15:].replace(" ", "_"))
        if a is not None and any(a[x] != d[x] for x in ("cat", "full", "sinks", "views")):
            res.violation("oracle:after-refusals", "after 60000 visits that a visitor refused with std::logic_error, node %s answers %s; before it answered %s" %
                          (d["label"][15:], {x: d[x] for x in ("cat", "full", "sinks", "views")}, {x: a[x] for x in ("cat", "full", "sinks", "views")}),
                          {"node": d["label"][15:], "before": a, "after": d, "rerun": "build/<hash>/plain/c06_driver | grep '%s'" % d["label"][15:]})
            break
    impl = [d for d in impl if not d["label"].startswith("after-refusals:")]
    refl = f["reflect"]
    leaves = [k for k, v in refl.items() if v["is_node"] and v["code"] >= 0]
    seen = {}
    nviews = 0
    oracle_keys = set()
    for d in impl:
        cat = d["cat"]
        seen.setdefault(cat, []).append(d["label"])
        nviews += len(leaves)
        near = refl.get(cat, {}).get("nearest", "?")
        sink = "Expr" if near == "Classic" else near
        errs = []
        if cat not in refl:
            errs.append(("category:" + cat, "node %s reports category %s which is not an interface class" % (d["label"], cat)))
        if d["full"] != cat:
            errs.append(("accept:" + cat, "accept on %s (category %s) ran hook(s) %s, expected exactly visit(const %s&) once" % (d["label"], cat, d["full"], cat)))
        if d["sinks"] != sink:
            errs.append(("default-hook:" + cat, "with only the seven sinks overridden, %s (category %s) reached %s, expected one call at %s" % (d["label"], cat, d["sinks"], sink)))
        if d["views"] != cat:
            errs.append(("view:" + cat, "view<K> on %s (category %s) is non-null for K in {%s}, expected exactly {%s}" % (d["label"], cat, d["views"], cat)))
        for k, what in errs:
            if k not in oracle_keys:
                oracle_keys.add(k)
                res.violation("oracle:" + k, what, {"node": d["label"], "observed": d, "rerun": "build/<hash>/plain/c06_driver | grep '^%s '" % d["label"]})
        m = model.get(cat)
        if m and not errs:
            for fld in ("full", "sinks", "views"):
                if fld == "full" and m[fld] == "-":
                    continue        # no implementation of this class is instantiated inside the library
                if m[fld] != d[fld]:
                    res.violation("diff:%s:%s" % (fld, cat), "model (generated tables) and implementation disagree on %s for %s" % (fld, cat),
                                  {"correspondence": "Visitor.v over coq/gen vs c06_driver", "impl": d, "model": m}, no_input=True)
    if coq_failed:
        named = table_findings(f)
        hit = False
        for k, what in named:
            if k in oracle_keys:
                hit = True      # already reported with a dynamic replay
            else:
                hit = True
                res.violation("table:" + k, what, {"table_row": k, "source": "extract/cxx_facts.py over the current tree"})
        if not hit:
            res.violation("coq:Properties_C06.v", "proof obligation over the generated tables no longer checks",
                          {"theorem_file": "Properties_C06.v", "error": coq_error_excerpt(out, "Properties_C06.v")}, no_input=True)
    missing = [k for k in leaves if k not in seen]
    res.coverage.update({
        "evaluations": len(impl) * 3 + nviews,
        "distinct_nontrivial": len(seen),
        "rule": "every node of the zoo (one or more per implementation class: factories, documented members, constants, impl::Comment/Annotation): "
                "category, accept with all hooks overridden, accept with only the sinks overridden, view<K> for every leaf K; the 34 constants shared by "
                "all Lexicons are inspected the same way from the initializer of a namespace-scope object linked before the library (before main) and from main(); "
                "distinct non-trivial = distinct categories exercised",
        "exhaustive": not missing,
        "samples": [impl[i] for i in (0, len(impl) // 2, len(impl) - 1)],
        "traces_validated_against_impl": len(impl),
        "generated_tables": {"categories": len(f["categories"]), "interfaces": len(refl), "hooks": len(f["visitor"]),
                             "accept_instances": len(f["accept"])},
        "zoo_nodes": len(impl), "leaf_categories": len(leaves), "categories_covered": len(seen),
        "categories_not_covered": missing,
        "implementation_classes_per_category_max": max(len(v) for v in seen.values()) if seen else 0,
    })
    if missing:
        res.notes.append("generator adequacy: no zoo node for categories %s" % missing)
    res.assumptions += ["g++ resolves the same overloads clang reports in its AST (cross-checked dynamically for every zoo node)",
                        "classes outside the zoo would have to be added to harness/zoo.h (coverage is reported)"]
