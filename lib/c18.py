"""C18 — printing terminates and leaves the stream and the printer as it found them."""
import random
import re
from common import *
import facts as factsmod
import progen


def parse_p(l):
    m = re.match(r"P (\S+) (\S+) outcome=(\S+) bytes=(\S+)(?: flags=(\w+)/(\w+) fill=(-?\d+)/(-?\d+) width=(-?\d+)/(-?\d+) prec=(-?\d+)/(-?\d+) indent=(-?\d+)/(-?\d+) newline=(\d)/(\d))?", l)
    return m


def check(res):
    status, out = coq_obligations(res, ["Properties_C18.v"])
    factsmod.get_facts()
    exe = build_driver("print_driver", "plain")     # child processes with a bounded stack; a sanitizer build would mask stack exhaustion
    keys = set()

    def viol(k, what, replay, no_input=False):
        if k not in keys and len(keys) < 12:
            keys.add(k)
            res.violation(k, what, replay, no_input=no_input)

    def judge(m, where, spelling=b"", rerun="", group=False):
        label, entry, outcome, hx = m.group(1), m.group(2), m.group(3), m.group(4)
        kl = "*" if group else label
        if outcome not in ("ok", "logic_error"):
            what = "does not terminate normally (stack exhausted by unbounded recursion)" if outcome in ("signal:11", "signal:6", "signal:7", "signal:14") else "ends with " + outcome
            viol("terminate:%s:%s" % (where, kl), "printing %s through %s %s" % (label, entry, what), {"node": label, "entry": entry, "outcome": outcome, "rerun": rerun})
            return
        if m.group(5) is None:
            return
        fl = (m.group(5), m.group(6)); fill = (m.group(7), m.group(8)); w = (m.group(9), m.group(10)); pr = (m.group(11), m.group(12))
        ind = (m.group(13), m.group(14))
        if fl[0] != fl[1] or fill[0] != fill[1] or w[0] != w[1] or pr[0] != pr[1]:
            viol("stream:%s:%s" % (where, kl), "printing %s through %s changes the stream's formatting state: flags %s -> %s, fill %s -> %s, width %s -> %s, precision %s -> %s" %
                 (label, entry, fl[0], fl[1], fill[0], fill[1], w[0], w[1], pr[0], pr[1]), {"node": label, "entry": entry, "rerun": rerun})
        if outcome == "ok" and ind[0] != ind[1]:
            viol("indent:%s:%s" % (where, kl), "after printing %s through %s the printer's indentation is %s, it started at %s" % (label, entry, ind[1], ind[0]),
                 {"node": label, "entry": entry, "rerun": rerun})
        if hx != "-":
            raw = bytes.fromhex(hx.replace("...", ""))
            bad = sorted(set(b for b in raw if b < 32 and b != 10 and b not in spelling))
            if bad:
                viol("control:%s:%s" % (where, kl), "printing %s through %s writes control byte(s) %s that occur in no spelling of the graph" % (label, entry, bad),
                     {"node": label, "entry": entry, "bytes": hx[:400], "rerun": rerun})

    # ---- 1. every node kind offered to every entry point
    p = run([exe, "zoo"], timeout=3600)
    zl = [l for l in p.stdout.splitlines() if l.startswith("P ")]
    outcomes = {}
    for l in zl:
        m = parse_p(l)
        if not m:
            continue
        outcomes[m.group(3)] = outcomes.get(m.group(3), 0) + 1
        if m.group(3) == "not-an-expression":
            continue
        judge(m, "zoo", rerun="build/<hash>/plain/print_driver zoo | grep '^P %s %s '" % (m.group(1), m.group(2)))
    # ---- 2. literals over all byte values: singly, in pairs, then a second located declaration into the same stream
    rnd = random.Random(res.seed)
    spell = [bytes([b]) for b in range(256)]
    spell += [bytes([a, b]) for a in (1, 2, 3, 0, 7, 10, 92) for b in range(256)]
    npairs = 1500 if res.tier == "quick" else 65536
    if npairs >= 65536:
        spell += [bytes([a, b]) for a in range(256) for b in range(256)]
    else:
        spell += [bytes([rnd.randrange(256), rnd.randrange(256)]) for _ in range(npairs)]
    spell += [bytes(rnd.randrange(256) for _ in range(rnd.randrange(3, 12))) for _ in range(300)]
    p2 = run([exe, "lit"], input="\n".join(s.hex() for s in spell) + "\n", timeout=7200)
    ll = [l for l in p2.stdout.splitlines() if l.startswith("P ")]
    seen = 0
    for l in ll:
        m = parse_p(l)
        if not m:
            continue
        seen += 1
        sp = bytes.fromhex(m.group(1)[4:]) if m.group(1).startswith("lit:") else b""
        judge(m, "literal", spelling=sp, rerun="echo %s | build/<hash>/plain/print_driver lit" % m.group(1)[4:], group=True)
        if m.group(3) == "ok" and m.group(4) != "-":
            raw = bytes.fromhex(m.group(4).replace("...", ""))
            # the two locations must be written in decimal: F9:10:20 before the literal, F17:64:8 after it
            if b"F9:10:20 " not in raw or b"F17:64:8 " not in raw:
                viol("decimal:%s" % ("after" if b"F9:10:20 " in raw else "before"),
                     "a declaration located at file 17, line 64, column 8 printed after the literal with spelling %s shows %s" %
                     (sp.hex(), re.findall(rb"F[0-9a-fx]+:[0-9a-fx]+:[0-9a-fx]+ ", raw)[-1:] or raw[-40:]),
                     {"spelling_hex": sp.hex(), "output": raw.decode("latin1")[:600], "rerun": "echo %s | build/<hash>/plain/print_driver lit" % sp.hex()})
    # the same spellings through the extracted model of the literal switch (LiteralModel.escape over the regenerated table)
    gexe = build_gen_driver()
    mo = run([gexe, "c18-escape"], input="\n".join((s_.hex() or "-") for s_ in spell) + "\n", timeout=3600).stdout.splitlines()
    impl_text = {}
    for l in ll:
        m = parse_p(l)
        if m and m.group(3) == "ok" and m.group(4) != "-" and m.group(1).startswith("lit:"):
            raw = bytes.fromhex(m.group(4).replace("...", ""))
            a, b = raw.find(b"v : int("), raw.rfind(b");F17")
            if a >= 0 and b > a:
                impl_text[m.group(1)[4:]] = raw[a + 8:b]
    model_compared = 0
    for s_, mline in zip(spell, mo):
        h = s_.hex()
        if h not in impl_text:
            continue
        model_compared += 1
        want = None if mline.strip() == "NONE" else (b"" if mline.strip() == "-" else bytes.fromhex(mline.strip()))
        if want != impl_text[h]:
            viol("literal-model", "the literal with spelling %s is written as %r, the model of the escaping switch (LiteralModel over GenPrinter.gen_pr_literal) says %r" %
                 (h, impl_text[h][:60], want if want is None else want[:60]), {"spelling_hex": h, "impl": impl_text[h].hex(), "model": mline.strip()},
                 no_input=True)
    # ---- 3. statement nesting: whole units with deeply nested statements; indentation and stream state after each
    progs = []
    for i in range(40 if res.tier == "quick" else 600):
        g = progen.Gen(rnd, 400)
        depth = rnd.choice([5, 20, 50])
        s = "(expr (lit int 31))"
        for d in range(depth):
            k = rnd.choice(["if", "ife", "while", "do", "switch", "for", "labeled", "block", "try", "forin"])
            if k == "if": s = "(if true %s)" % s
            elif k == "ife": s = "(ife true %s (break))" % s
            elif k in ("while", "do", "switch"): s = "(%s true %s)" % (k, s)
            elif k == "for": s = "(for true true true %s)" % s
            elif k == "labeled": s = "(labeled (id l%d int) %s)" % (d, s)
            elif k == "block": s = "(block %s (continue))" % s
            elif k == "try": s = "(try (%s) (catch e%d int (break)))" % (s, d)
            else: s = "(block (forin (var v%d int) true %s))" % (d, s)
        progs.append("(program (fun f%d void () (block %s)) (var after int))" % (i, s))
    progs += progen.deep_programs()          # 26..120 nested blocks, classes, namespaces: margins beyond 80 columns
    p3 = run([exe, "prog"], input="\n".join(progs) + "\n", timeout=7200)
    nest_ok = 0
    for l in p3.stdout.splitlines():
        m = re.match(r"G (\d+) nloc=(\d+) A=(\S+) .* state=(\S+)", l)
        if not m:
            mm = re.match(r"G (\d+) build-error=(.*)", l)
            if mm:
                viol("harness", "program builder: " + mm.group(2), {"program": progs[int(mm.group(1)) - 1][:2000]}, no_input=True)
            continue
        i = int(m.group(1))
        txt = b"" if m.group(3) == "-" else bytes.fromhex(m.group(3).replace("...", ""))
        ctl = sorted(set(x for x in txt if (x < 32 and x != 10) or x == 127))
        if ctl:
            at = next(j for j, x in enumerate(txt) if x in ctl)
            line_start = txt.rfind(b"\n", 0, at) + 1
            viol("control:nesting", "printing a unit with nested statements writes control byte(s) %s although no spelling contains one (offset %d, column %d of its line)" %
                 (["0x%02x" % x for x in ctl[:4]], at, at - line_start),
                 {"program": progs[i - 1][:5000], "output_hex_around": txt[max(0, at - 90):at + 20].hex(), "rerun": "echo '<program>' | build/<hash>/plain/print_driver prog"})
        if m.group(4) != "ok":
            viol("nesting:" + m.group(4).split("|")[1].split(":")[0], "printing a unit with nested statements: %s" % m.group(4), {"program": progs[i - 1][:5000], "rerun": "echo '<program>' | build/<hash>/plain/print_driver prog"})
        else:
            nest_ok += 1
    # ---- 3b. the numbers the printer writes itself (nesting levels, positions) at every width boundary up to 2^64 - 1: decimal digits only
    pn = run([exe, "num"], timeout=600)
    nnum = 0
    for l in pn.stdout.splitlines():
        m = re.match(r"N (\S+) (\d+) (\S+) state=(\S+)", l)
        if not m:
            continue
        nnum += 1
        txt = b"" if m.group(3) == "-" else bytes.fromhex(m.group(3).replace("...", ""))
        digits = re.findall(rb"\d+", txt)
        if m.group(4) != "ok" or m.group(2).encode() not in digits or any(x < 32 or x > 126 for x in txt):
            viol("numbers:" + m.group(1), "writing %s{%s} gives %r (state %s): the value does not appear in decimal, or other bytes than printable ones are written" %
                 (m.group(1), m.group(2), txt[:60], m.group(4)), {"value": m.group(2), "output_hex": m.group(3)[:200], "rerun": "build/<hash>/plain/print_driver num"})
    if pn.returncode != 0 or nnum == 0:
        viol("numbers:crash", "writing nesting levels and positions at the width boundaries aborted", {"stderr": pn.stderr[-2000:], "rerun": "build/<hash>/plain/print_driver num"})
    # ---- 4. every delimiter kind of an enclosure, alone and nested; every byte written must be printable or a newline
    dprogs = ["(program (var x int (encl %d (lit int 31))))" % k for k in range(5)] + \
             ["(program (var x int (encl %d (encl %d (add (lit int 31) (encl %d (id y int)))))))" % (a, b, c) for a in range(5) for b in range(5) for c in range(5)]
    p4 = run([exe, "prog"], input="\n".join(dprogs) + "\n", timeout=3600)
    for l in p4.stdout.splitlines():
        m = re.match(r"G (\d+) nloc=(\d+) A=(\S+) .* state=(\S+)", l)
        if not m:
            continue
        raw = b"" if m.group(3) == "-" else bytes.fromhex(m.group(3).replace("...", ""))
        bad = sorted(set(b for b in raw if b < 32 and b != 10))
        if bad:
            viol("control:enclosure", "printing %s writes control byte(s) %s although no spelling contains one" % (dprogs[int(m.group(1)) - 1], bad),
                 {"program": dprogs[int(m.group(1)) - 1], "output_hex": m.group(3)[:600], "rerun": "echo '<program>' | build/<hash>/plain/print_driver prog"})
        if m.group(4) != "ok":
            viol("enclosure:" + m.group(4)[:30], "printing an enclosure: %s" % m.group(4), {"program": dprogs[int(m.group(1)) - 1]})
    for l in p3.stdout.splitlines():
        mm = re.match(r"P prog(\d+) prog outcome=(signal:\d+|exit:\d+)", l)
        if mm:
            viol("terminate:program", "printing a generated unit did not finish: the child process ended with %s (signal 14 = its 20 s alarm, 11 = stack overflow)%s" %
                 (mm.group(2), "; the remaining programs were skipped after two such prints" if "skipped=" in p3.stdout else ""),
                 {"program": progs[int(mm.group(1)) - 1][:5000], "rerun": "echo '<program>' | build/<hash>/plain/print_driver prog"})
    if len([l for l in p3.stdout.splitlines() if l.startswith("G ")]) != len(progs) and "terminate:program" not in keys:
        viol("terminate:nesting", "printing a deeply nested statement did not finish", {"stderr": p3.stderr[-1500:]})
    if not all(status.values()) and not keys:
        res.violation("coq:Properties_C18.v", "proof obligation no longer checks", {"theorem_file": "Properties_C18.v", "error": coq_error_excerpt(out, "Properties_C18.v")}, no_input=True)
    res.coverage.update({
        "evaluations": len(zl) + len(ll) + len(progs), "distinct_nontrivial": len(zl) + len(set(spell)) + len(progs),
        "rule": "(1) every node of the zoo (>= 1 per category) offered to xpr_decl, xpr_stmt, xpr_expr and, for types, xpr_type, with locations off and "
                "on, each in a child process with a 16 MiB stack and a 20 s alarm: outcome must be completion or std::logic_error; stream flags, fill, "
                "width, precision, Printer::indent() compared before/after; output scanned for control bytes; (2) a located declaration initialised "
                "with a literal whose spelling runs over all 256 single bytes, all pairs led by 0,1,2,3,7,10,92, random pairs (thorough: all 65536) and "
                "random strings, followed by a second located declaration written to the same stream, whose file/line/column must read F17:64:8; "
                "(3) units with statements nested to depth 5/20/50 over every statement kind; (4) enclosures of all 5 delimiter kinds, alone and in "
                "all 125 three-deep nestings, scanned for control bytes",
        "samples": [zl[0][:200] if zl else "", "lit 01", progs[0][:200]],
        "traces_validated_against_impl": len(zl) + seen + nest_ok,
        "input_distribution": {"literals_compared_with_model": model_compared, "zoo_attempts": len(zl), "zoo_outcomes": outcomes, "literal_spellings": len(spell), "nesting_programs": len(progs),
                               "enclosure_programs": len(dprogs)},
    })
