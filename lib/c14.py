"""C14 — missing or out-of-range data raises a logic error, never undefined behaviour."""
import re
from common import *
import fsweep

CASES = ["ref_sequence-filled", "obj_sequence", "empty_sequence", "singleton_ref", "decl_set", "enumerators", "parameters", "handlers",
         "ref_sequence-unfilled", "ref_sequence-half-filled", "warehouse-unfilled-walk", "warehouse-unfilled-product",
         "warehouse-unfilled-sum", "expr_list-unfilled", "unattached-parameter", "fundecl-states"]


def scan(d, where, keys, res, replay):
    """outcomes of every accessor of one dump: values, refusals (E), anything else is a violation"""
    vals = refusals = probes = 0
    for a, v in d.items():
        if a.endswith(".probe"):
            probes += 1
            parts = v.split(":")
            fwd_refused = any(p.startswith("WALK-E") for p in parts)
            if any(p.startswith(("COUNT", "DISAGREE", "WALK-X", "WALK2-X", "WALK3-", "ACCEPTED", "X(")) for p in parts) or \
                    (any(p.startswith("WALK2-E") for p in parts) and not fwd_refused) or \
                    any(p not in ("E",) and not p.startswith(("n", "WALK-E", "WALK2-E")) for p in parts[1:]):
                k = "probe:%s:%s" % (where, a)
                if k not in keys and len(keys) < 12:
                    keys.add(k)
                    res.violation(k, "%s: positional access / iteration of %s misbehaves: %s (expected n<size> followed by E for each index at or beyond size())" %
                                  (where, a[:-6], v), dict(replay, accessor=a, observed=v))
            continue
        if v.startswith("X(") or "X(" in v:
            k = "exception:%s:%s" % (where, a)
            if k not in keys and len(keys) < 12:
                keys.add(k)
                res.violation(k, "%s: accessor %s() raised an exception that is not a std::logic_error: %s" % (where, a, v), dict(replay, accessor=a, observed=v))
        elif v == "E":
            refusals += 1
        else:
            vals += 1
    return vals, refusals, probes


def check(res):
    status, out = coq_obligations(res, ["Properties_C14.v"])
    keys = set()
    tot = [0, 0, 0]
    # ---- 1. every accessor of every freshly built node (links unset) of every factory
    P = fsweep.load_plan()
    calls = fsweep.tuples(P["plan"], res.seed, res.tier)
    recs, crashes, lines = fsweep.run_sweep(calls)
    for idx, err in crashes[:4]:
        k = "crash:" + lines[idx].split()[0]
        keys.add(k)
        res.violation(k, "reading the accessors of the node built by %s ends in a sanitizer report / crash" % lines[idx].split()[0],
                      {"call": lines[idx], "stderr": err[-3000:], "rerun": "echo '%s' | build/<hash>/asan/fsweep_driver" % lines[idx]})
    for i, r in enumerate(recs):
        if not r or "dump" not in r:
            continue
        if r["raw"].startswith("X("):
            k = "exception:" + r["entry"]["key"]
            if k not in keys:
                keys.add(k)
                res.violation(k, "%s raised %s" % (r["entry"]["key"], r["raw"][:200]), {"call": lines[i]})
            continue
        v = scan(r["dump"], r["entry"]["key"], keys, res, {"call": lines[i], "arguments": r["args"], "rerun": "echo '%s' | build/<hash>/asan/fsweep_driver" % lines[i]})
        tot = [a + b for a, b in zip(tot, v)]
    # ---- 2. every accessor of every node of the zoo (built-up states)
    zexe = build_driver("zoo_dump_driver", "asan", parts=8)
    zp = run([zexe], env=SAN_ENV, timeout=600)
    zoo_lines = [l for l in zp.stdout.splitlines() if l.startswith("Z ")]
    if zp.returncode != 0:
        keys.add("crash:zoo")
        res.violation("crash:zoo", "reading every accessor of the zoo nodes ends in a sanitizer report / crash", {"stderr": zp.stderr[-3000:], "rerun": "build/<hash>/asan/zoo_dump_driver"})
    for l in zoo_lines:
        m = re.match(r"Z (\S+) :: (.*)$", l)
        v = scan(fsweep.parse_dump(m.group(2)), "zoo:" + m.group(1), keys, res, {"zoo_label": m.group(1), "rerun": "build/<hash>/asan/zoo_dump_driver | grep '^Z %s '" % m.group(1)})
        tot = [a + b for a, b in zip(tot, v)]
    # ---- 3. sequence implementations, including slots sized in advance and never filled
    cexe = build_driver("c14_driver", "asan")
    couts, ccr = run_cases(cexe, CASES, env=SAN_ENV)
    for idx, err in ccr:
        k = "crash:seq:" + CASES[idx]
        keys.add(k)
        res.violation(k, "sequence case %s: the process ended (sanitizer report, std::terminate or crash) instead of a refusal" % CASES[idx],
                      {"case": CASES[idx], "stderr": err[:3000], "rerun": "echo %s | build/<hash>/asan/c14_driver" % CASES[idx]})
    accesses = 0
    for c, o in zip(CASES, couts):
        if o is None:
            continue
        body = o.split(" :: ", 1)[1]
        for seg in re.split(r"(?=size=)", body):
            m = re.match(r"size=(\d+)(.*)", seg)
            if not m:
                if "X(" in seg:
                    keys.add("exception:seq:" + c)
                    res.violation("exception:seq:" + c, "sequence case %s: %s" % (c, seg[:200]), {"case": c, "observed": o})
                continue
            n = int(m.group(1))
            for g in re.finditer(r"get\((\d+|max)\)=(\S+)", m.group(2)):
                accesses += 1
                i = 10 ** 30 if g.group(1) == "max" else int(g.group(1))
                outc = g.group(2)
                bad = (i >= n and outc != "E") or (outc not in ("ok", "E"))
                if bad:
                    k = "seq:%s:get" % c
                    if k not in keys:
                        keys.add(k)
                        res.violation(k, "sequence case %s: get(%s) on a sequence of size %d gives %s" % (c, g.group(1), n, outc), {"case": c, "observed": o})
            w = re.search(r"walk=(\S+)", m.group(2))
            if w and not (w.group(1) == "ok:%d" % n or w.group(1) == "E"):
                k = "seq:%s:walk" % c
                if k not in keys:
                    keys.add(k)
                    res.violation(k, "sequence case %s: iteration gives %s on a sequence of size %d" % (c, w.group(1), n), {"case": c, "observed": o})
    if not all(status.values()) and not keys:
        res.violation("coq:Properties_C14.v", "proof obligation no longer checks", {"theorem_file": "Properties_C14.v", "error": coq_error_excerpt(out, "Properties_C14.v")}, no_input=True)
    res.coverage.update({
        "evaluations": len(calls) + len(zoo_lines) + len(CASES), "distinct_nontrivial": len(set(lines)) + len(zoo_lines) + len(CASES),
        "rule": "under ASan+UBSan (no recovery): EVERY parameterless const accessor of the interface (names regenerated from the headers) is read on the "
                "freshly built result of every factory call of the sweep (links not yet set) and on every node of the zoo (built-up states); each outcome must "
                "be a value or a std::logic_error; every sequence-valued result is iterated (count = size(), *it agrees with position(i)) and read at size(), "
                "size()+1, size()+10^6, max/2 and max; the sequence implementations are also built directly, including reference sequences whose slots were "
                "sized in advance and never filled",
        "samples": lines[:1] + zoo_lines[:1] + CASES[-3:],
        "traces_validated_against_impl": sum(1 for r in recs if r and "dump" in r) + len(zoo_lines) + sum(1 for o in couts if o),
        "input_distribution": {"accessor_reads_returning_a_value": tot[0], "accessor_reads_refused": tot[1], "sequences_probed": tot[2],
                               "direct_sequence_accesses": accesses, "sequence_cases": CASES},
    })
