"""C05 — node identity is stable: nodes never move, never silently change, never alias."""
import random
import re
from common import *
import fsweep

KINDS = ["enum", "mapping", "class", "block", "xlist", "namespace", "module", "templates"]
# generative constructors that are documented to unify (the property's two exceptions) or that are accessors of
# unified nodes in disguise
MAY_UNIFY = {"make_literal", "make_template_id"}


def history(plan, rnd, nsteps, dense_until):
    """one construction history: factory calls over the whole factory list, containers that keep growing, temporary
    warehouses; every remembered node is re-observed after every step at first, then sampled, with full checks"""
    lines = []
    ncont = 0
    added = []
    for k in KINDS:                      # one container of each kind up front, so that growth starts early
        lines.append("C " + k); ncont += 1; added.append(0)
    lines.append("S 1 1100000")          # an early word with a pool of its own: re-observed through the whole history
    lines.append("S 1 2500000")
    lines.append("CHECK all")
    hot = list(range(ncont))             # containers that receive most additions
    last_call = None
    for s in range(nsteps):
        r = rnd.random()
        if r < 0.50:
            if last_call and rnd.random() < 0.15:
                lines.append(last_call)              # the very same call again, immediately: generative constructors must answer with a new node
            else:
                e = rnd.choice(plan)
                ix = [(-1 if (t in fsweep.OPT and rnd.random() < 0.3) else rnd.randrange(0, 48)) for t in e["sorts"]]
                last_call = "%s %s" % (e["key"], " ".join(map(str, ix)))
                lines.append(last_call)
        elif r < 0.93:
            c = rnd.choice(hot) if rnd.random() < 0.9 else rnd.randrange(ncont)
            lines.append("M %d" % c); added[c] += 1
        elif r < 0.96:
            lines.append("C " + rnd.choice(KINDS)); ncont += 1; added.append(0)
        elif r < 0.985:
            lines.append("W %d" % rnd.randrange(1, 9))
        else:
            # a burst of long fresh words: the string arena rolls over to a new pool every MiB
            if rnd.random() < 0.25:
                # a word larger than one pool of the string arena (1 MiB): it gets a pool of its own
                lines.append("S 1 %d" % rnd.choice([1048569, 1048577, 1100000, 2500000, 100009, 70013, 200015, 524299]))
            else:
                lines.append("S %d %d" % (rnd.choice([20, 60]), rnd.choice([700, 5000, 17000])))
        if s < dense_until:
            lines.append("CHECK all")
        else:
            lines.append("CHECK 25 %d" % rnd.randrange(1, 2 ** 31))
            if s % 1500 == 1499:
                lines.append("CHECK all")
    lines.append("CHECK all")
    return lines, added


def check(res):
    status, out = coq_obligations(res, ["Properties_C05.v"])
    P = fsweep.load_plan()
    plan = P["plan"]
    rnd = random.Random(res.seed)
    exe = build_driver("fsweep_driver", "asan", parts=12)
    model = build_gen_driver()
    keys = set()
    runs = [(2500, 250)] if res.tier == "quick" else [(4000, 400), (60000, 300), (60000, 0)]
    tot = {"steps": 0, "nodes": 0, "members": 0, "checks": 0, "reobservations": 0, "duplicates": 0}
    biggest = 0
    dup_kinds = {}
    for nsteps, dense in runs:
        lines, added = history(plan, rnd, nsteps, dense)
        p = run([exe, "--history"], input="\n".join(lines) + "\n", env=SAN_ENV, timeout=7200)
        outl = p.stdout.splitlines()
        if p.returncode != 0 or not any(l.startswith("SUMMARY") for l in outl):
            keys.add("crash")
            # shrink: shortest prefix that still dies
            lo, hi = 1, len(lines)
            while lo < hi and hi - lo > max(4, len(lines) // 200):
                mid = (lo + hi) // 2
                q = run([exe, "--history"], input="\n".join(lines[:mid]) + "\n", env=SAN_ENV, timeout=7200)
                if q.returncode != 0:
                    hi = mid
                else:
                    lo = mid + 1
            res.violation("crash", "re-observing earlier nodes ends in a sanitizer report / crash (stale or moved storage)",
                          {"history_prefix_lines": hi, "history_tail": lines[max(0, hi - 12):hi], "stderr": p.stderr[:3000],
                           "rerun": "build/<hash>/asan/fsweep_driver --history < history (seed %d, %d steps)" % (res.seed, nsteps)})
            continue
        for l in outl:
            if l.startswith(("CHANGED", "MOVED")):
                m = re.match(r"(\w+) step=(\d+) node=(\d+) made-by=(.*?)\(([^()]*)\)(?: before=|$)", l)
                k = "%s:%s" % (m.group(1).lower(), m.group(4)) if m else l[:40]
                if k not in keys and len(keys) < 10:
                    keys.add(k)
                    step = int(m.group(2)) if m else len(lines)
                    res.violation(k, "a node made by %s(%s) %s when re-observed at step %s" %
                                  (m.group(4), m.group(5), "has a different address" if l.startswith("MOVED") else "reads differently", m.group(2)) if m else l[:200],
                                  {"report": l[:3000], "history_up_to_the_step": lines[:step][-60:], "steps_before": step,
                                   "rerun": "build/<hash>/asan/fsweep_driver --history  (history regenerated from seed %d)" % res.seed})
            elif l.startswith(("HARNESS-ERROR", "UNKNOWN")):
                if "harness" not in keys:
                    keys.add("harness")
                    res.violation("harness", "the history driver could not perform an operation", {"report": l[:500]}, no_input=True)
            elif l.startswith("DUP "):
                k1, a1, k2, a2 = l[4:].split("|")
                n1 = k1.split("::")[-1].split("(")[0]
                n2 = k2.split("::")[-1].split("(")[0]
                gen1 = (n1.startswith("make_") and n1 not in MAY_UNIFY) or k1.startswith(("C-", "M-"))
                gen2 = (n2.startswith("make_") and n2 not in MAY_UNIFY) or k2.startswith(("C-", "M-"))
                dup_kinds[n1] = dup_kinds.get(n1, 0) + 1
                if gen1 and gen2:
                    k = "alias:%s" % n2
                    if k not in keys and len(keys) < 10:
                        keys.add(k)
                        res.violation(k, "two calls of generative constructors returned the same node: %s(%s) and %s(%s)" % (k1, a1, k2, a2),
                                      {"first": "%s %s" % (k1, a1), "second": "%s %s" % (k2, a2)})
            elif l.startswith("SUMMARY"):
                for kk, vv in re.findall(r"(\w+)=(\d+)", l):
                    if kk in tot:
                        tot[kk] += int(vv)
        # the containers hold exactly what was added, in the model and in the library
        conts = [re.match(r"CONT (\d+) (\S+) added=(\d+) holds=(\d+)", l) for l in outl if l.startswith("CONT")]
        toks = ["m"] * len(conts)
        nxt = len(conts)
        skeleton = []
        for l in lines:
            if l.startswith("M "):
                skeleton.append(int(l.split()[1]) % max(1, len(conts)))
        # containers are created in order; only the first len(KINDS) exist before additions in the skeleton, others later: replay in order
        toks = []
        created = 0
        member_id = 100000
        for l in lines:
            if l.startswith("C "):
                toks.append("m"); created += 1
            elif l.startswith("M ") and created:
                toks.append("a%d:%d" % (int(l.split()[1]) % created, 0))
        mo = run([model, "c05"], input=" ".join(toks) + "\n", timeout=3600).stdout.strip().split(",")
        for m in conts:
            i, kind, a, holds = int(m.group(1)), m.group(2), int(m.group(3)), int(m.group(4))
            biggest = max(biggest, holds)
            want = int(mo[i]) if i < len(mo) and mo[i] != "" else -1
            if holds != a or want != a:
                k = "members:" + kind
                if k not in keys:
                    keys.add(k)
                    res.violation(k, "container %d (%s) received %d additions, holds %d members, the model says %d" % (i, kind, a, holds, want),
                                  {"container": i, "kind": kind, "added": a, "holds": holds, "model": want}, no_input=(holds == a))
    if not all(status.values()) and not keys:
        res.violation("coq:Properties_C05.v", "proof obligation no longer checks", {"theorem_file": "Properties_C05.v", "error": coq_error_excerpt(out, "Properties_C05.v")}, no_input=True)
    res.coverage.update({
        "evaluations": tot["steps"], "distinct_nontrivial": tot["nodes"],
        "rule": "seeded construction histories under ASan+UBSan (1.5% of the steps intern a burst of 20-60 fresh words of 0.7-17 KB, so that the string arena rolls over several pools): 50% calls of a factory drawn from the complete regenerated factory list with random "
                "operands, 43% member additions aimed mostly at a few long-lived containers (enumerators, parameters, bases and fields, handlers and "
                "statements, expression-list elements, namespace variables, module units) so that every backing store grows through many blocks, 3% new "
                "containers, 4% products built from a temporary Warehouse that is destroyed at once; every returned node is remembered with its address and "
                "the reading of EVERY accessor; all remembered nodes are re-observed after each of the first steps, then 25 random ones after every step and "
                "all of them every 1500 steps and at the end; equal addresses among generative results are reported",
        "samples": ["C enum", "M 0", "W 3", "CHECK all"],
        "traces_validated_against_impl": tot["reobservations"],
        "input_distribution": dict(tot, largest_container=biggest, histories=len(runs), duplicate_addresses_by_constructor=dict(sorted(dup_kinds.items(), key=lambda t: -t[1])[:12])),
    })
