"""C16 — substitutions behave as finite maps from parameters to expressions."""
import random
import re
from common import *


NP = 48          # parameters: 0..15 level 1, 16..31 level 2, 32..47 level 1 again (a sibling list)


def value(rnd):
    # a fresh expression, or (1 in 4) a parameter: renaming p -> q, identity p -> p; or (1 in 8) a variable, first declaration or redeclaration
    r = rnd.random()
    if r < 0.125:
        return 64 + NP + rnd.randrange(8)
    return rnd.randrange(64) if r < 0.78 else 64 + rnd.randrange(NP)


def gen_cases(tier, seed):
    rnd = random.Random(seed)
    cases = []
    allq = " ".join(map(str, range(NP)))
    for p in range(0, NP, 3):
        cases.append("elem %d %d ? %s" % (p, p % 64, allq))
    for p in range(0, NP, 5):
        cases.append("elem %d %d ? %s" % (p, 64 + (p + 1) % NP, allq))        # renaming to the next parameter
        cases.append("elem %d %d ? %s" % ((p + 1) % NP, 64 + (p + 1) % NP, allq))  # then the identity binding of that parameter
    n = 300 if tier == "quick" else 5000
    for i in range(n):
        if i % 4 == 3:
            p = rnd.randrange(NP)
            cases.append("elem %d %d ? %s" % (p, rnd.choice([value(rnd), 64 + p]), allq))
            continue
        dom = rnd.sample(range(NP), rnd.choice([1, 2, 3, 8, 16, 30]))
        if i % 7 == 5:
            # a copy of a substitution is a substitution of its own: it keeps the bindings it was copied with, whatever the
            # original receives afterwards (rebinding of the copied parameters included)
            b1 = ["%d:%d" % (rnd.choice(dom), value(rnd)) for _ in range(rnd.choice([1, 2, 5, 12]))]
            b2 = ["%d:%d" % (rnd.choice(dom), value(rnd)) for _ in range(rnd.choice([1, 2, 5]))]
            if rnd.random() < 0.6:
                b2.insert(0, "%s:%d" % (b1[-1].split(":")[0], value(rnd)))     # rebinding the most recent one
            cases.append("%s %s %s ? %s" % (rnd.choice(["copy", "copyc"]), ",".join(b1), ",".join(b2), allq))
            continue
        ln = rnd.choice([0, 1, 2, 5, 20, 100])
        bs = ["%d:%d" % (rnd.choice(dom), value(rnd)) for _ in range(ln)]
        qs = list(range(NP)) if i % 3 == 0 else [rnd.randrange(NP) for _ in range(10)]
        cases.append("gen %s ? %s" % (",".join(bs) or "-", " ".join(map(str, qs))))
    return cases


def val(v):
    return "v%d" % v if v < 64 else ("p%d" % (v - 64) if v < 64 + NP else "d%d" % (v - 64 - NP))


def expected(case):
    w = case.split()
    qs = [int(x) for x in w[w.index("?") + 1:]]
    if w[0] == "elem":
        p, v = int(w[1]), int(w[2])
        return " ".join(val(v) if q == p else "p%d" % q for q in qs)
    m = {}
    if w[0] in ("copy", "copyc"):
        w = ["gen", w[1]] + w[3:]
    if w[1] != "-":
        for b in w[1].split(","):
            p, v = b.split(":")
            m[int(p)] = int(v)
    return " ".join(val(m[q]) if q in m else "p%d" % q for q in qs)


def check(res):
    status, out = coq_obligations(res, ["Properties_C16.v"])
    exe = build_driver("subst_driver", "asan")
    model = build_model_driver()
    cases = gen_cases(res.tier, res.seed)
    outs, crashes = run_cases(exe, cases, env=SAN_ENV)
    for idx, err in crashes[:3]:
        res.violation("crash", "subst driver aborted", {"case": cases[idx][:1000], "stderr": err})
    def for_model(c):
        w = c.split()
        return " ".join(["gen", w[1]] + w[3:]) if w[0] in ("copy", "copyc") else c
    ml = run([model, "subst"], input="\n".join(for_model(c) for c in cases) + "\n", timeout=600).stdout.splitlines()
    keys = set()
    nd = 0
    for i, (c, o) in enumerate(zip(cases, outs)):
        if o is None or o == "n/a":
            continue
        want = expected(c)
        if o != want:
            kind = c.split()[0]
            # which query fails first
            qs = c.split()[c.split().index("?") + 1:]
            j = next(k for k, (a, b) in enumerate(zip(o.split(), want.split())) if a != b)
            inside = want.split()[j].startswith("v")
            key = "%s:%s-domain" % (kind, "in" if inside else "outside")
            if key not in keys:
                keys.add(key)
                res.violation("oracle:" + key, "applying a %s substitution to parameter %s (%s its domain) yields %s, expected %s" %
                              ("elementary" if kind == "elem" else "general" if kind == "gen" else "copied general", qs[j], "inside" if inside else "outside", o.split()[j], want.split()[j]),
                              {"case": c[:800], "observed": o[:400], "expected": want[:400], "rerun": "echo '<case>' | subst_driver"})
        elif i < len(ml) and re.sub(r"v(\d+)", lambda m_: val(int(m_.group(1))), ml[i]) != o:
            nd += 1
            if nd <= 3:
                res.violation("diff", "model (Subst.v) and implementation disagree", {"case": c[:800], "impl": o[:300], "model": ml[i][:300]}, no_input=True)
    if not all(status.values()) and not keys:
        res.violation("coq:Properties_C16.v", "proof obligation no longer checks", {"theorem_file": "Properties_C16.v", "error": coq_error_excerpt(out, "Properties_C16.v")}, no_input=True)
    res.coverage.update({
        "evaluations": sum(len(c.split()) - c.split().index("?") - 1 for c in cases),
        "distinct_nontrivial": len(set(cases)),
        "rule": "one Lexicon for the whole run (so that caches would show); elementary substitutions (fresh values, renamings, identity bindings, the same "
                "binding requested again) queried on every parameter of three parameter lists, two of which share level and positions; "
                "general substitutions with 0..100 bindings over domains of 1..30 parameters incl. rebinding, queried on all or 10 random parameters; "
                "copies (assignment and copy construction) of general substitutions, queried after the original received further bindings",
        "samples": [cases[0][:160], cases[len(cases) // 2][:160]],
        "traces_validated_against_impl": min(len(ml), len(outs)),
    })
