"""Shared machinery for the unification properties (C01, C04, C11, C13):
request scripts, the implementation-only oracle, and the model/implementation diff."""
import random
from common import *
import facts as factsmod

BUILTINS = ["void", "bool", "char", "schar", "uchar", "wchar_t", "char8_t", "char16_t", "char32_t", "short",
            "ushort", "int", "uint", "long", "ulong", "long_long", "ulong_long", "float", "double",
            "long_double", "ellipsis", "typename", "class", "union", "enum", "namespace"]
BUILTIN_SPELLING = {"void": "void", "bool": "bool", "char": "char", "schar": "signed char", "uchar": "unsigned char",
                    "wchar_t": "wchar_t", "char8_t": "char8_t", "char16_t": "char16_t", "char32_t": "char32_t",
                    "short": "short", "ushort": "unsigned short", "int": "int", "uint": "unsigned int",
                    "long": "long", "ulong": "unsigned long", "long_long": "long long",
                    "ulong_long": "unsigned long long", "float": "float", "double": "double",
                    "long_double": "long double", "ellipsis": "...", "typename": "typename", "class": "class",
                    "union": "union", "enum": "enum", "namespace": "namespace"}
SYMCONST = {"false": "false", "true": "true", "nullptr": "nullptr", "default": "default", "delete": "delete"}


def hexw(w):
    if isinstance(w, str):
        w = w.encode("latin-1")
    return "x:" + (w.hex() if w else "-")


class Script:
    """Builds a well-typed request script and remembers, per line, the request."""

    def __init__(self):
        self.lines = []       # text
        self.reqs = []        # (op, args...) with operand tokens
        self.kind = []        # static kind of the answer, for well-typed generation

    def add(self, kind, op, *args):
        self.lines.append(" ".join([op] + [str(a) for a in args]))
        # "^%k": the String of line k's spelling as owned by ANOTHER Lexicon; for the oracle and the model it is the same operand
        self.reqs.append((op,) + tuple(str(a).lstrip("^") for a in args))
        self.kind.append(kind)
        return "%%%d" % (len(self.lines) - 1)

    def text(self):
        return "\n".join(self.lines) + "\n"

    def model_text(self):
        import re
        return re.sub(r"\^+(?=[%$@])", "", self.text())


# ---------------------------------------------------------------------------
# the oracle: evaluates the unification property on the implementation's trace
# ---------------------------------------------------------------------------
class Oracle:
    """Each answer is an identity class (#line) printed by the implementation.  The
    oracle computes, from the request and the *implementation's own* classes of the
    operands, the key the property says the request stands for, and demands
    same key <=> same class."""

    def __init__(self, known):
        self.known = set(known)
        self.by_key = {}        # key -> (class, line)
        self.key_of_class = {}  # class -> key (first)
        self.value = {}         # class -> value info (for strings, logograms, linkages, conventions, transfers)
        self.const_class = {}   # constant name -> class
        self.errors = []

    def cls(self, answers, tok):
        if tok.startswith("%"):
            return answers[int(tok[1:])]
        return tok          # $const / @ext tokens are their own class names until seen via `const`

    def run(self, script, answers, scope=None):
        """answers[i] = '#k' | 'refused:..' | 'value:..' | 'bad:..'"""
        for i, (req, ans) in enumerate(zip(script.reqs, answers)):
            self.check_line(i, req, ans, answers, scope)
        return self.errors

    def resolve(self, answers, tok):
        """canonical class of an operand: constants are mapped through `const` lines when seen"""
        if tok.startswith("%"):
            return answers[int(tok[1:])]
        if tok.startswith("$"):
            return self.const_class.get(tok[1:], tok)
        return tok

    def word_of_string(self, c):
        v = self.value.get(c)
        return v[1] if v and v[0] == "string" else None

    def check_line(self, i, req, ans, answers, scope):
        op = req[0]
        a = [self.resolve(answers, t) if (t[:1] in "%$@") else t for t in req[1:]]
        key = None
        expect_refused = False
        val = None
        if op == "const":
            name = req[1]
            if ans.startswith("#"):
                old = self.const_class.get(name)
                if old is not None and old != ans:
                    self.err(i, "constant:" + name, "constant %s has two identities" % name, req, ans)
                self.const_class.setdefault(name, ans)
                # constants carry values
                if name in ("c_link", "cxx_link"):
                    self.value[ans] = ("linkage", b"C" if name == "c_link" else b"C++")
                elif name == "natural_cc":
                    self.value[ans] = ("cc", b"")
                elif name == "natural":
                    self.value[ans] = ("transfer", (b"C++", b""))
                elif name == "empty_string":
                    self.value[ans] = ("string", b"")
                elif name.startswith("nameof:"):
                    self.value[ans] = ("identifier", BUILTIN_SPELLING[name[7:]].encode())
                elif name.startswith("symname:"):
                    self.value[ans] = ("identifier", SYMCONST[name[8:]].encode())
            return
        if ans.startswith("bad:"):
            self.err(i, "script", "harness could not run the request: " + ans, req, ans)
            return
        if op in ("pointer", "reference", "rvalue_reference", "conversion", "ctor_name", "dtor_name", "suffix",
                  "guide_name"):
            key = (op, a[0])
        elif op in ("array", "forall", "ptr_to_member", "tor", "symbol", "template_id"):
            key = (op, a[0], a[1])
        elif op == "qualified":
            q = int(a[0])
            if q == 0:
                expect_refused = True
            else:
                inner = self.key_of_class.get(a[1])
                if inner and inner[0] == "qualified":
                    key = ("qualified", q | inner[1], inner[2])
                else:
                    key = ("qualified", q, a[1])
        elif op == "function":
            e = a[2] if len(a) > 2 and a[2] != "-" else self.const_class.get("false", "$false")
            x = None
            if len(a) > 3 and a[3] != "-":
                v = self.value.get(a[3])
                x = v[1] if v and v[0] == "transfer" else ("?", a[3])
                if x == (b"C++", b""):
                    x = None
            key = ("function", a[0], a[1], e, x)
        elif op in ("product", "productw", "sum", "sumw"):
            toks = req[1][1:-1].split(",") if len(req[1]) > 2 else []
            key = (op.rstrip("w"), tuple(self.resolve(answers, t) for t in toks))
        elif op == "as_type":
            x = None
            if len(a) > 1 and a[1] != "-":
                v = self.value.get(a[1])
                x = v[1] if v and v[0] == "transfer" else ("?", a[1])
                if x == (b"C++", b""):
                    x = None
            key = ("as_type", a[0], x)
        elif op == "as_type_id":
            v = self.value.get(a[0])
            w = v[1] if v and v[0] == "identifier" else None
            hit = [b for b, s in BUILTIN_SPELLING.items() if w is not None and s.encode() == w]
            if hit:
                key = ("const", hit[0])
            else:
                key = ("as_type_id", a[0])
        elif op in ("transfer", "transfer_l", "transfer_c"):
            lw = self.value.get(a[0], (None, None))[1] if op != "transfer_c" else b"C++"
            cw = (self.value.get(a[1] if op == "transfer" else a[0], (None, None))[1]) if op != "transfer_l" else b""
            if op == "transfer" and lw == b"C++":
                key = ("xfer_c", cw)
            elif op == "transfer" and cw == b"":
                key = ("xfer_l", lw)
            elif op == "transfer":
                key = ("xfer", lw, cw)
            elif op == "transfer_l":
                key = ("xfer_l", lw)
            else:
                key = ("xfer_c", cw)
            val = ("transfer", (lw, cw))
        elif op == "string":
            w = bytes.fromhex(req[1][2:]) if req[1] != "x:-" else b""
            key = ("string", w)
            val = ("string", w)
        elif op in ("identifier", "identifier_w", "operator", "logogram"):
            if op == "identifier_w":
                w = bytes.fromhex(req[1][2:]) if req[1] != "x:-" else b""
            else:
                w = self.word_of_string(a[0])
            kind = "identifier" if op.startswith("identifier") else op
            key = (kind, w)
            if kind in ("identifier", "logogram") and w is not None and w.decode("latin-1") in self.known:
                key = ("word", w)       # reserved words are one constant, both Identifier and Logogram
            if kind == "logogram" and w == b"":
                key = ("invisible_logo",)
            val = (kind, w)
        elif op == "label":
            v = self.value.get(a[0])
            if v and v[0] == "identifier" and v[1] == b"default":
                key = ("const", "default")
            else:
                key = ("symbol", a[0], self.const_class.get("void", "$void"))
        elif op == "this":
            key = ("symbol", ("word", b"this"), a[0])
            wc = self.by_key.get(("word", b"this"))
            if wc:
                key = ("symbol", wc[0], a[0])
        elif op == "literal":
            key = ("literal", a[0], a[1])
        elif op in ("linkage", "linkage_w"):
            w = self.word_of_string(a[0]) if op == "linkage" else (bytes.fromhex(req[1][2:]) if req[1] != "x:-" else b"")
            if w == b"C":
                key = ("const", "c_link")
            elif w == b"C++":
                key = ("const", "cxx_link")
            else:
                key = ("linkage", w)
            val = ("linkage", w)
        elif op == "convention":
            w = self.word_of_string(a[0])
            key = ("convention", w)
            val = ("cc", w)
        elif op == "decltype_null":
            key = ("const", "nulltype")
        elif op in ("q_main", "q_quals", "is_qualified", "xfer_eq", "link_eq", "cc_eq", "name_of", "string_of", "builtin"):
            self.observe(i, op, req, a, ans, answers)
            return
        else:
            return
        if expect_refused:
            if not ans.startswith("refused:"):
                self.err(i, "refusal:" + op, "an empty qualifier set was accepted", req, ans)
            return
        if not ans.startswith("#"):
            self.err(i, "refused:" + op, "request was refused: " + ans, req, ans)
            return
        if val is not None:
            self.value.setdefault(ans, val)
        if key is None:
            return
        if key[0] == "const":
            want = self.const_class.get(key[1])
            if want is not None and want != ans:
                self.err(i, "route:" + op, "%s should denote the constant %s (class %s) but returned a look-alike (class %s)" %
                         (" ".join(req), key[1], want, ans), req, ans)
            return
        if key[0] == "word":
            # the reserved word constant is also reachable as the name of a built-in or symbolic constant
            for cname, c in self.const_class.items():
                v = self.value.get(c)
                if (cname.startswith("nameof:") or cname.startswith("symname:")) and v and v[1] == key[1] and c != ans:
                    self.err(i, "identifier-unique:" + op, "spelling %r has two Identifier nodes: %s (this request) and the name of constant %s (%s)" %
                             (key[1], ans, cname, c), req, ans)
                    return
        old = self.by_key.get(key)
        if old is None:
            other = self.key_of_class.get(ans)
            if other is not None and other != key:
                self.err(i, "merged:" + op, "different requests share one node: %r and %r (class %s)" % (other, key, ans), req, ans)
            self.by_key[key] = (ans, i)
            self.key_of_class.setdefault(ans, key)
        elif old[0] != ans:
            self.err(i, "split:" + op, "the same request was answered with two different nodes: line %d gave %s, line %d gave %s" %
                     (old[1], old[0], i, ans), req, ans, extra={"first_line": old[1]})

    def observe(self, i, op, req, a, ans, answers):
        if op == "q_main":
            k = self.key_of_class.get(ans)
            if k and k[0] == "qualified":
                self.err(i, "normal-form:main_variant", "the main variant of a qualified type is itself qualified", req, ans)
        elif op == "q_quals":
            k = self.key_of_class.get(a[0])
            if k and k[0] == "qualified" and ans != "value:%d" % k[1]:
                self.err(i, "normal-form:qualifiers", "qualifiers() = %s, expected the union %d" % (ans, k[1]), req, ans)
        elif op in ("xfer_eq", "link_eq", "cc_eq"):
            va, vb = self.value.get(a[0]), self.value.get(a[1])
            if va and vb and None not in (va[1], vb[1]):
                want = "value:%d" % int(va[1] == vb[1])
                if ans != want:
                    self.err(i, "value-equality:" + op, "operator== says %s for spellings %r and %r" % (ans, va[1], vb[1]), req, ans)

    def err(self, i, key, what, req, ans, extra=None):
        self.errors.append({"line": i, "key": key, "what": what, "request": " ".join(req), "answer": ans, **(extra or {})})


def parse_answers(out):
    ans = []
    for l in out.splitlines():
        w = l.split(" = ", 1)
        ans.append(w[1] if len(w) == 2 else "bad:unparsable")
    return ans


def minimal_prefix(script, line, first_line=None):
    """lines needed to reproduce an error at `line`: its operands' transitive closure"""
    need = set()

    def visit(k):
        if k in need:
            return
        need.add(k)
        for t in script.reqs[k][1:]:
            toks = [t]
            if t.startswith("["):
                toks = t[1:-1].split(",")
            for u in toks:
                if u.startswith("%"):
                    visit(int(u[1:]))
    visit(line)
    if first_line is not None:
        visit(first_line)
    return sorted(need)


def run_script(res, script, known, pid, scope_keys=None, variant="plain", label=""):
    """Runs one script on the implementation and on the extracted model; records violations.
    scope_keys: predicate on oracle error keys that belong to this property."""
    exe = build_driver("lex_driver", variant)
    gen = build_gen_driver()
    text = script.text()
    env = SAN_ENV if variant != "plain" else None
    pi = run([exe], input=text, timeout=400, env=env)     # a script runs in about a second; a hang is a violation
    ia = parse_answers(pi.stdout)
    if pi.returncode != 0 or len(ia) != len(script.lines):
        idx = min(len(ia), len(script.lines) - 1)
        res.violation("crash", "lexicon driver %s at request %d" % ("did not finish (endless loop)" if pi.returncode == 124 else "aborted", idx),
                      {"request": script.lines[idx], "stderr": pi.stderr[-3000:], "script_lines": script.lines[:idx + 1][-40:]})
        return {"n": 0, "oracle_errors": 0, "diffs": 0}
    orc = Oracle(known)
    errs = orc.run(script, ia)
    mine = [e for e in errs if scope_keys is None or scope_keys(e["key"])]
    seen = set()
    for e in mine:
        if e["key"] in seen or len(seen) >= 10:
            continue
        seen.add(e["key"])
        need = minimal_prefix(script, e["line"], e.get("first_line"))
        res.violation("oracle:" + e["key"], e["what"],
                      {"failing_request": e["request"], "answer": e["answer"],
                       "minimal_script": [script.lines[k] for k in need], "original_line_numbers": need,
                       "rerun": "printf '<script>' | build/<hash>/plain/lex_driver  (operands %k refer to original line numbers)"})
    pm = run([gen, "lex"], input=script.model_text(), timeout=3600)
    ma = parse_answers(pm.stdout)
    ndiff = 0
    bad_lines = {e["line"] for e in errs}
    if len(ma) != len(ia):
        res.violation("diff:lines", "model answered %d requests, implementation %d" % (len(ma), len(ia)),
                      {"stderr": pm.stderr[-1500:]}, no_input=True)
    else:
        # compare partitions line by line; lines the oracle already blames are skipped, as are
        # their consequences (a disagreement can only be counted once per key)
        for i, (x, y) in enumerate(zip(ia, ma)):
            if x != y:
                ndiff += 1
        if ndiff and not errs:
            i = next(i for i, (x, y) in enumerate(zip(ia, ma)) if x != y)
            need = minimal_prefix(script, i)
            res.violation("diff:%s" % script.reqs[i][0], "model (Lexicon.v) and implementation disagree although the property's oracle is satisfied",
                          {"correspondence": "Lexicon.v (extracted) vs impl::Lexicon", "request": script.lines[i], "impl": ia[i], "model": ma[i],
                           "minimal_script": [script.lines[k] for k in need]}, no_input=True)
    return {"n": len(script.lines), "oracle_errors": len(mine), "diffs": ndiff, "answers": ia,
            "classes": len(set(x for x in ia if x.startswith("#")))}


def run_histories(res, make, known, pid, scope_keys, nchunks):
    """thorough tier: several independent seeded histories (a fresh Lexicon each) instead of one long one — the extracted
    model compares nodes structurally and its cost grows with the cube of the history length; they run side by side"""
    import concurrent.futures as cf
    scripts = [make(k) for k in range(nchunks)]
    with cf.ThreadPoolExecutor(max_workers=NCPU) as ex:
        sts = list(ex.map(lambda sc: run_script(res, sc, known, pid, scope_keys), scripts))
    # the same key reported by several histories counts once
    seen, kept = set(), []
    for v in res.violations:
        if v["key"] in seen:
            continue
        seen.add(v["key"]); kept.append(v)
    res.violations[:] = kept
    tot = {"n": sum(s["n"] for s in sts), "oracle_errors": sum(s["oracle_errors"] for s in sts), "diffs": sum(s["diffs"] for s in sts),
           "classes": sum(s.get("classes", 0) for s in sts), "histories": nchunks}
    return scripts, tot
