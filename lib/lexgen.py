"""Request-script generators for C01 / C04 / C11 / C13."""
import itertools
import random
from lexcommon import *


def preamble(s):
    for b in BUILTINS:
        s.add("type", "const", b)
    for c in SYMCONST:
        s.add("expr", "const", c)
    for c in ("nulltype",):
        s.add("type", "const", c)
    s.add("linkage", "const", "c_link"); s.add("linkage", "const", "cxx_link")
    s.add("transfer", "const", "natural"); s.add("cc", "const", "natural_cc")
    s.add("string", "const", "empty_string")
    for b in BUILTINS:
        s.add("identifier", "const", "nameof:" + b)
    for c in SYMCONST:
        s.add("identifier", "const", "symname:" + c)


class Pools:
    def __init__(self, s, rnd):
        self.s, self.rnd = s, rnd
        self.types = ["$" + b for b in BUILTINS] + ["@t%d" % i for i in range(8)]
        self.exprs = ["@e%d" % i for i in range(8)] + ["$false", "$true"]
        self.products, self.sums, self.transfers = [], [], ["$natural"]
        self.linkages, self.ccs = ["$c_link", "$cxx_link"], ["$natural_cc"]
        self.strings, self.identifiers, self.names = ["$empty_string"], [], []

    def pick(self, l):
        return self.rnd.choice(l)


def setup_transfers(s, p):
    for w in ("C", "C++", "Java", "Fortran", "Cx"):
        st = s.add("string", "string", hexw(w)); p.strings.append(st)
        p.linkages.append(s.add("linkage", "linkage", st))
        p.linkages.append(s.add("linkage", "linkage_w", hexw(w)))
    for w in ("", "stdcall", "fastcall", "stdcal"):
        st = s.add("string", "string", hexw(w)); p.strings.append(st)
        p.ccs.append(s.add("cc", "convention", st))
    for l in p.linkages:
        for c in p.ccs:
            p.transfers.append(s.add("transfer", "transfer", l, c))
    for l in p.linkages[:6]:
        p.transfers.append(s.add("transfer", "transfer_l", l))
    for c in p.ccs:
        p.transfers.append(s.add("transfer", "transfer_c", c))
    # the same requests with COPIES of the linkage / convention values (static storage, stack, heap: addresses far below and far
    # above the interned originals): transfers are unified by the VALUE of their operands
    for rep in range(2):
        for i, l in enumerate(p.linkages):
            for j, c in enumerate(p.ccs):
                s.add("transfer", "transfer", "^" * (1 + (i + j + rep) % 3) + l, "^" * (1 + (i + 2 * j + rep) % 3) + c if (i + j) % 2 else c)
        for i, l in enumerate(p.linkages[:6]):
            s.add("transfer", "transfer_l", "^" * (1 + (i + rep) % 3) + l)
        for i, c in enumerate(p.ccs):
            s.add("transfer", "transfer_c", "^" * (1 + (i + rep) % 3) + c)
    # value equality on every pair of a sample
    samp = p.transfers[:14]
    for a in samp:
        for b in samp[:7]:
            s.add("value", "xfer_eq", a, b)
    for a in p.linkages:
        for b in p.linkages[:5]:
            s.add("value", "link_eq", a, b)
    for a in p.ccs:
        for b in p.ccs:
            s.add("value", "cc_eq", a, b)


def gen_c01(tier, seed, n=None):
    rnd = random.Random(seed)
    s = Script()
    preamble(s)
    p = Pools(s, rnd)
    setup_transfers(s, p)
    n = n or (2500 if tier == "quick" else 6000)
    type_lines = []
    # a qualified type built by ANOTHER Lexicon as operand: the answer is this Lexicon's own node for the merged qualifiers, also when
    # the request adds nothing to what the operand already carries
    for b in ("$int", "$char", "$double"):
        for q in (1, 3, 7):
            own = s.add("type", "qualified", q, b); p.types.append(own)
            for q2 in sorted({q, q & 1 or q, 2, 4}):
                s.add("type", "qualified", q2, "^" + own)
                s.add("type", "qualified", q | q2, b)

    def seq():
        ln = rnd.choice([0, 1, 1, 2, 2, 3, 4, 6])
        base = [p.pick(p.types) for _ in range(ln)]
        return "[" + ",".join(base) + "]"

    def fresh():
        op = rnd.choice(["pointer", "reference", "rvalue_reference", "array", "qualified", "function", "function",
                         "product", "productw", "sum", "sumw", "forall", "ptr_to_member", "tor", "as_type", "as_type"])
        if op in ("pointer", "reference", "rvalue_reference"):
            return ("type", op, p.pick(p.types))
        if op == "array":
            return ("type", op, p.pick(p.types), p.pick(p.exprs))
        if op == "qualified":
            return ("type", op, rnd.randrange(1, 8), ("^" if rnd.random() < 0.25 else "") + p.pick(p.types))
        if op == "function":
            if not p.products:
                return ("product", "productw", seq())
            e = rnd.choice(["-", "-", "$false", "$true", p.pick(p.exprs)])
            x = rnd.choice(["-", "-", "$natural", p.pick(p.transfers), p.pick(p.transfers)])
            return ("type", op, p.pick(p.products), p.pick(p.types), e, x)
        if op in ("product", "productw"):
            return ("product", op, seq())
        if op in ("sum", "sumw"):
            return ("sum", op, seq())
        if op == "forall":
            if not p.products:
                return ("product", "product", seq())
            return ("type", op, p.pick(p.products), p.pick(p.types))
        if op == "ptr_to_member":
            return ("type", op, p.pick(p.types), p.pick(p.types))
        if op == "tor":
            if not p.products or not p.sums:
                return ("sum", "sumw", seq())
            return ("type", op, p.pick(p.products), p.pick(p.sums))
        if op == "as_type":
            return ("type", op, p.pick(p.exprs), rnd.choice(["-", "-", "$natural", p.pick(p.transfers)]))

    def near_miss(req):
        """change exactly one operand of an earlier request to another of the same sort"""
        req = list(req)
        idx = [k for k in range(2, len(req)) if str(req[k])[:1] in "%$@"]
        if not idx:
            return tuple(req)
        k = rnd.choice(idx)
        tok = str(req[k])
        if tok in p.products:
            req[k] = p.pick(p.products)
        elif tok in p.sums:
            req[k] = p.pick(p.sums)
        elif tok in p.transfers:
            req[k] = p.pick(p.transfers)
        elif tok in p.exprs:
            req[k] = p.pick(p.exprs)
        else:
            req[k] = p.pick(p.types)
        return tuple(req)
    issued = []
    for i in range(n):
        r = rnd.random()
        if issued and r < 0.35:
            req = rnd.choice(issued)                     # exact repeat, possibly far back
        elif issued and r < 0.55:
            req = near_miss(rnd.choice(issued))
        elif issued and r < 0.60 and any(q[1] in ("product", "productw") for q in issued):
            # sequence that is a proper prefix / one-element extension of an earlier one
            q = rnd.choice([q for q in issued if q[1] in ("product", "productw", "sum", "sumw")])
            toks = q[2][1:-1].split(",") if len(q[2]) > 2 else []
            toks = toks[:-1] if (toks and rnd.random() < 0.5) else toks + [p.pick(p.types)]
            req = (q[0], rnd.choice(["product", "productw"]) if q[1].startswith("product") else rnd.choice(["sum", "sumw"]),
                   "[" + ",".join(toks) + "]")
        else:
            req = fresh()
        issued.append(req)
        tok = s.add(req[0], *req[1:])
        if req[0] == "product":
            p.products.append(tok); p.types.append(tok)
        elif req[0] == "sum":
            p.sums.append(tok); p.types.append(tok)
        elif req[0] == "type":
            p.types.append(tok)
        if len(p.types) > 400:
            del p.types[34:34 + 50]
    return s


def gen_c04(tier, seed, known, n=None):
    rnd = random.Random(seed)
    s = Script()
    preamble(s)
    p = Pools(s, rnd)
    setup_transfers(s, p)
    spellings = list(known) + [w + "x" for w in known[:20]] + [w[:-1] for w in known if len(w) > 1][:20] + \
        ["+", "-", "()", "[]", "new[]", "x", "y", "value", "T", "operator", "", "a\0b", "\xff\xfe"]
    for i in range(40):
        spellings.append("".join(rnd.choice("abcxyz_") for _ in range(rnd.randrange(1, 6))))
    # long spellings (string literals, generated names): 2^16 and more characters, pairs that differ only near the end
    spellings += ["x" * 65535, "x" * 65536, "x" * 65537, "y" * 70000 + "a", "y" * 70000 + "b", "q" * 131072 + "tail", "q" * 131072]
    n = n or (2500 if tier == "quick" else 6000)
    issued = []
    xlists = ["@l%d" % i for i in range(8)]
    templates = ["@m%d" % i for i in range(4)]
    # every reserved word through every route first
    for w in known:
        st = s.add("string", "string", hexw(w)); p.strings.append(st)
        idn = s.add("identifier", "identifier", st); p.identifiers.append(idn); p.names.append(idn)
        s.add("identifier", "identifier_w", hexw(w))
        s.add("string", "string_of", idn)
        s.add("logogram", "logogram", st)
        s.add("type", "as_type_id", idn)
        s.add("expr", "label", idn)
    for i in range(n):
        r = rnd.random()
        if issued and r < 0.4:
            req = rnd.choice(issued)
        else:
            op = rnd.choice(["string", "string", "identifier", "identifier", "identifier_w", "operator", "suffix", "conversion",
                             "ctor_name", "dtor_name", "guide_name", "template_id", "logogram", "symbol", "symbol", "label",
                             "this", "literal", "literal", "linkage", "convention", "as_type_id"])
            if op == "string":
                req = ("string", op, hexw(rnd.choice(spellings)))
            elif op in ("identifier", "operator", "logogram", "linkage", "convention"):
                kind = {"identifier": "identifier", "operator": "name", "logogram": "logogram", "linkage": "linkage", "convention": "cc"}[op]
                # one time in five the String operand is the equally spelled String of ANOTHER Lexicon (the factories take any ipr::String)
                req = (kind, op, ("^" if rnd.random() < 0.2 else "") + p.pick(p.strings))
            elif op == "identifier_w":
                req = ("identifier", op, hexw(rnd.choice(spellings)))
            elif op == "suffix":
                req = ("name", op, p.pick(p.identifiers)) if p.identifiers else ("string", "string", hexw("q"))
            elif op in ("conversion", "ctor_name", "dtor_name"):
                req = ("name", op, p.pick(p.types))
            elif op == "guide_name":
                req = ("name", op, p.pick(templates))
            elif op == "template_id":
                req = ("name", op, p.pick(p.exprs), p.pick(xlists))
            elif op == "symbol":
                req = ("expr", op, p.pick(p.names) if p.names else "$nameof:int", p.pick(p.types))
            elif op == "label":
                req = ("expr", op, p.pick(p.identifiers)) if p.identifiers else ("string", "string", hexw("q"))
            elif op == "this":
                req = ("expr", op, p.pick(p.types))
            elif op == "literal":
                req = ("expr", op, p.pick(p.types), ("^" if rnd.random() < 0.2 else "") + p.pick(p.strings))
            elif op == "as_type_id":
                req = ("type", op, p.pick(p.identifiers)) if p.identifiers else ("string", "string", hexw("q"))
        issued.append(req)
        tok = s.add(req[0], *req[1:])
        k = req[0]
        if k == "string":
            p.strings.append(tok)
        elif k == "identifier":
            p.identifiers.append(tok); p.names.append(tok)
        elif k == "name":
            p.names.append(tok)
        elif k == "type":
            p.types.append(tok)
        elif k == "expr":
            p.exprs.append(tok)
    # one Identifier per spelling: the names of built-ins and symbolic constants
    for b in BUILTINS:
        s.add("identifier", "identifier_w", hexw(BUILTIN_SPELLING[b]))
        s.add("identifier", "name_of", "$" + b)
    for c in SYMCONST:
        s.add("identifier", "identifier_w", hexw(c))
    return s


def splittings(Q):
    """every way of presenting qualifier set Q as 1..3 successive non-empty requests whose union is Q"""
    out = set()
    subs = [m for m in range(1, 8) if m & ~Q == 0]
    for n in (1, 2, 3):
        for combo in itertools.product(subs, repeat=n):
            u = 0
            for c in combo:
                u |= c
            if u == Q:
                out.add(combo)
    return sorted(out)


def gen_c11(tier, seed):
    rnd = random.Random(seed)
    s = Script()
    preamble(s)
    base = ["$int", "$char", "@t0", "@t1"]
    base.append(s.add("type", "pointer", "$int"))
    base.append(s.add("type", "reference", "@t2"))
    base.append(s.add("type", "array", "$int", "@e0"))
    pw = s.add("product", "productw", "[$int,$bool]")
    base.append(s.add("type", "function", pw, "$void"))
    if tier != "quick":
        base += ["$" + b for b in BUILTINS[3:12]] + ["@t%d" % i for i in range(3, 8)]
    s.add("type", "qualified", 0, "$int")                       # refusal
    for t in base:
        s.add("type", "qualified", 0, t)
        results = {}
        for Q in range(1, 8):
            for combo in splittings(Q):
                cur = t
                for q in combo:
                    if rnd.random() < 0.3:                      # unrelated requests in between
                        s.add("type", "pointer", rnd.choice(base))
                        s.add("type", "qualified", rnd.randrange(1, 8), rnd.choice(["$long", "$double", "@t7"]))
                    # one time in four the (possibly already qualified) operand is the equally built type of ANOTHER Lexicon
                    cur = s.add("type", "qualified", q, ("^" if rnd.random() < 0.25 else "") + cur)
                if rnd.random() < 0.25:
                    s.add("type", "qualified", 0, cur)           # the empty set is refused on an already qualified operand too
                s.add("type", "q_main", cur)
                s.add("value", "q_quals", cur)
                s.add("value", "is_qualified", cur)
    return s
