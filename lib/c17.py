"""C17 — printed text depends only on graph structure and printer options."""
import os
import random
import re
from common import *
import facts as factsmod
import progen

LOC = rb"F\d+:\d+(?::\d+)? "


def run_programs(exe, progs, env=None):
    outs, crashes = run_cases(exe, progs, env=env, args=["prog"]) if False else (None, None)
    p = run([exe, "prog"], input="\n".join(progs) + "\n", env=env, timeout=7200)
    return p


def check(res):
    status, out = coq_obligations(res, ["Properties_C17.v"])
    f = factsmod.get_facts()
    exe = build_driver("print_driver", "asan")
    rnd = random.Random(res.seed)
    n = 150 if res.tier == "quick" else 4000
    sizes = [1, 3, 8, 20, 60, 150, 300]
    progs, forms = [], {}
    for i in range(n):
        p, fm = progen.program(rnd, sizes[i % len(sizes)])
        progs.append(p)
        for k, v in fm.items():
            forms[k] = forms.get(k, 0) + v
    ndeep0 = len(progs)
    progs += progen.deep_programs()          # margins beyond 80 columns: what the layout helpers write there
    n = len(progs)
    p = run([exe, "prog"], input="\n".join(progs) + "\n", env=SAN_ENV, timeout=7200)
    keys = set()
    got = {}
    for l in p.stdout.splitlines():
        m = re.match(r"G (\d+) nloc=(\d+) A=(\S+) A2=(\S+) Aloc=(\S+) B=(\S+) Bloc=(\S+) A3=(\S+) state=(\S+)", l)
        if m:
            got[int(m.group(1))] = m.groups()
        else:
            mm = re.match(r"G (\d+) build-error=(.*)", l)
            if mm:
                got[int(mm.group(1))] = ("build-error", mm.group(2))
    refused = compared = located = 0
    bytes_total = 0

    def viol(k, what, i, extra):
        if k not in keys and len(keys) < 10:
            keys.add(k)
            res.violation(k, what, dict({"program": progs[i - 1][:6000], "program_number": i, "seed": res.seed,
                                        "rerun": "echo '<program>' | build/<hash>/asan/print_driver prog"}, **extra))
    for i in range(1, n + 1):
        g = got.get(i)
        if g is None:
            viol("crash", "printing program %d ended in a crash / sanitizer report" % i, i, {"stderr": p.stderr[-2500:]})
            continue
        if g[0] == "build-error":
            if "harness" not in keys:
                keys.add("harness")
                res.violation("harness", "the program builder rejected a generated program: %s" % g[1], {"program": progs[i - 1][:3000]}, no_input=True)
            continue
        _, nloc, A, A2, Al, B, Bl, A3, st = g
        hexb = lambda h: b"" if h == "-" else bytes.fromhex(h.replace("...", ""))
        a, a2, al, b, bl, a3 = map(hexb, (A, A2, Al, B, Bl, A3))
        compared += 1
        bytes_total += len(a)
        if "logic_error" in st:
            refused += 1
        stray = sorted(set(x for x in a if (x < 32 and x != 10) or x == 127))
        if stray and i > ndeep0:              # the deep programs spell every name and literal with letters and digits
            viol("stray-bytes", "the printed unit holds byte(s) %s that belong to no spelling or token of the program (first at offset %d)" %
                 (["0x%02x" % x for x in stray[:4]], next(j for j, x in enumerate(a) if x in stray)), i, {"printed_hex_around": a[max(0, next(j for j, x in enumerate(a) if x in stray) - 60):][:140].hex()})
        if a != a2 or a != a3:
            viol("reprint", "printing the same unit again with a fresh printer gives different text", i,
                 {"first": a[:1500].decode("latin1"), "second": (a2 if a != a2 else a3)[:1500].decode("latin1")})
        if a != b:
            d = next((j for j in range(min(len(a), len(b))) if a[j] != b[j]), min(len(a), len(b)))
            viol("address", "the same program built in another order amid unrelated allocations prints differently (first difference at byte %d)" % d, i,
                 {"built_in_order": a[max(0, d - 200):d + 200].decode("latin1"), "built_reordered": b[max(0, d - 200):d + 200].decode("latin1")})
        if al != bl:
            viol("address+loc", "with locations on, the reordered build prints differently", i, {})
        if re.search(LOC, a) and not re.search(LOC, re.sub(LOC, b"", al) if False else b""):
            pass
        stripped = re.sub(LOC, b"", al)
        if stripped != a:
            viol("locations-only-when", "with location printing on, the text differs from the location-free text by more than location prefixes", i,
                 {"without": a[:1200].decode("latin1"), "with": al[:1200].decode("latin1")})
        toks = set(re.findall(LOC, al))
        located += len(toks)
        if len(toks) != int(nloc) and "logic_error" not in st:
            viol("locations-when", "%s statements carry a location, %d distinct locations appear when location printing is on" % (nloc, len(toks)), i,
                 {"with": al[:2000].decode("latin1")})
        if "stream-state" in st or "indent" in st:
            viol("state", "printing a whole unit left the stream or the printer changed: %s" % st, i, {})
    # one graph printed by several threads at once (own Printer and stream each), under ThreadSanitizer: a print reads, never writes
    texe = build_driver("threads_driver", "tsan")
    tenv = dict(os.environ, TSAN_OPTIONS="halt_on_error=0:report_signal_unsafe=0")
    tp = run([texe, "shared", "4" if res.tier == "quick" else "12", "3" if res.tier == "quick" else "40"], timeout=3600, env=tenv)
    tm = re.search(r"shared-graph threads=(\d+) rounds=(\d+) bytes=(\d+) runs=(\d+) mismatches=(\d+)", tp.stdout)
    if "WARNING: ThreadSanitizer" in tp.stderr:
        keys.add("shared-graph:race")
        where = re.findall(r"#\d+ (ipr::[^\n]*?) /\S+/([^\s:/]+):(\d+)", tp.stderr)
        res.violation("shared-graph:race", "printing ONE graph from several threads (each with its own Printer and stream) is a data race: a print writes into the graph it reads",
                      {"frames": ["%s (%s:%s)" % w for w in where[:8]], "tsan": tp.stderr[:3000], "rerun": "build/<hash>/tsan/threads_driver shared 4 3"})
    elif tp.returncode != 0 or not tm:
        keys.add("shared-graph:crash")
        res.violation("shared-graph:crash", "printing one graph from several threads at once crashed", {"stderr": tp.stderr[-2500:], "stdout": tp.stdout[-500:], "rerun": "build/<hash>/tsan/threads_driver shared 4 3"})
    elif int(tm.group(5)):
        keys.add("shared-graph:text")
        res.violation("shared-graph:text", "a thread printing a graph that other threads print at the same time obtained a different text", {"stdout": tp.stdout[-800:], "rerun": "build/<hash>/tsan/threads_driver shared 4 3"})
    if not all(status.values()) and not keys:
        res.violation("coq:Properties_C17.v", "proof obligation no longer checks", {"theorem_file": "Properties_C17.v", "error": coq_error_excerpt(out, "Properties_C17.v")}, no_input=True)
    with_handler = sorted(set(h["static"] for h in f["printer"]["handlers"] if h["class"].startswith(("xpr", "operator<<")) and h["static"] in f["categories"]))
    printed = sorted(set(progen.CATEGORY[k] for k in forms if k in progen.CATEGORY) | set(c for k in forms for c in progen.IMPLIED.get(k, [])))
    res.coverage.update({
        "evaluations": n * 6, "distinct_nontrivial": len(set(progs)),
        "rule": "seeded programs of the printable fragment (sizes 1..300 nodes: variables, fields, bit-fields, aliases, functions with mappings and blocks, "
                "classes with bases, unions, enums, namespaces, every classic expression kind with random nesting, all statement kinds incl. try/catch, "
                "literals over arbitrary bytes, compound types) are built twice: (A) in order, (B) operands right-to-left amid unrelated allocations "
                "(phantoms, types, identifiers, literals, undeclared classes, throw-away units); A is printed three times with fresh printers and once "
                "with locations, B once without and once with locations; compared byte for byte",
        "samples": [progs[0][:300], progs[min(len(progs) - 1, 9)][:300]],
        "traces_validated_against_impl": compared,
        "input_distribution": {"programs": n, "bytes_printed_per_variant": bytes_total, "programs_refused_by_printer": refused,
                               "distinct_locations_checked": located, "forms_used": dict(sorted(forms.items(), key=lambda t: -t[1])[:40]),
                               "categories_printed": len(printed), "categories_with_a_printer_handler": len(with_handler),
                               "handler_categories_never_generated": sorted(set(with_handler) - set(printed))},
    })
