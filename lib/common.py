"""Shared orchestration for the ipr verification checks.

Everything here rebuilds from /repo's *current working tree*: the C++ library
objects, the clang fact extraction and the Coq files generated from it are
cached under /verif/build/<hash of /repo/include + /repo/src>, so an edit to
the sources invalidates them.
"""
import concurrent.futures as cf
import fcntl
import hashlib
import json
import os
import re
import shutil
import subprocess
import sys
import time

VERIF = os.path.dirname(os.path.dirname(os.path.abspath(__file__)))
REPO = os.environ.get("IPR_REPO", "/repo")
COQ = os.path.join(VERIF, "coq")
HARNESS = os.path.join(VERIF, "harness")
BUILD = os.path.join(VERIF, "build")
EVIDENCE = os.path.join(VERIF, "evidence")
REPLAYS = os.path.join(VERIF, "replays")
GUARD = "IPR_VERIF"
CXX = os.environ.get("CXX", "g++")
LIB_TUS = ["impl", "interface", "io", "traversal", "utility"]
STD = "-std=c++20"

VARIANTS = {
    "plain": ["-O1", "-g0"],
    "asan": ["-O1", "-g", "-fsanitize=address,undefined", "-fno-sanitize-recover=all",
             "-fno-omit-frame-pointer"],
    "tsan": ["-O1", "-g", "-fsanitize=thread"],
}


def log(*a):
    print(*a, file=sys.stderr, flush=True)


# no single run of a driver or model may take longer than this (seconds); ./check raises it for the thorough tier.
# A run that does not finish is a finding (the quick runs take seconds to a few minutes), not something to wait an hour for.
TIME_CAP = 900


def run(cmd, timeout=None, cwd=None, env=None, input=None, check=False):
    timeout = min(timeout or TIME_CAP, TIME_CAP)
    try:
        p = subprocess.run(cmd, cwd=cwd, env=env, input=input, timeout=timeout,
                           stdout=subprocess.PIPE, stderr=subprocess.PIPE, text=True)
    except subprocess.TimeoutExpired as e:
        # a run that does not finish is reported like a crash (exit status 124), with what it printed so far
        def txt(b):
            return b.decode("utf-8", "replace") if isinstance(b, (bytes, bytearray)) else (b or "")
        p = subprocess.CompletedProcess(cmd, 124, txt(e.stdout), txt(e.stderr) + "\nTIMEOUT: no result after %s s (the process was killed)" % timeout)
    if check and p.returncode != 0:
        raise RuntimeError("command failed (%d): %s\n%s\n%s" %
                           (p.returncode, " ".join(cmd), p.stdout[-4000:], p.stderr[-4000:]))
    return p


# --------------------------------------------------------------------------
# source hash / build directories
# --------------------------------------------------------------------------
def _files(root):
    out = []
    for d, _, fs in os.walk(root):
        for f in fs:
            out.append(os.path.join(d, f))
    return sorted(out)


_hash_cache = {}


def repo_hash():
    if "h" in _hash_cache:
        return _hash_cache["h"]
    h = hashlib.sha256()
    for sub in ("include", "src"):
        for f in _files(os.path.join(REPO, sub)):
            h.update(f.encode())
            with open(f, "rb") as fh:
                h.update(fh.read())
    _hash_cache["h"] = h.hexdigest()[:16]
    return _hash_cache["h"]


def extractor_hash():
    h = hashlib.sha256()
    for f in _files(os.path.join(VERIF, "extract")):
        if f.endswith(".py"):
            h.update(open(f, "rb").read())
    return h.hexdigest()[:8]


def build_dir():
    d = os.path.join(BUILD, repo_hash())
    os.makedirs(d, exist_ok=True)
    return d


class Lock:
    def __init__(self, name):
        os.makedirs(BUILD, exist_ok=True)
        self.path = os.path.join(BUILD, name + ".lock")

    def __enter__(self):
        self.fh = open(self.path, "w")
        fcntl.flock(self.fh, fcntl.LOCK_EX)
        return self

    def __exit__(self, *a):
        fcntl.flock(self.fh, fcntl.LOCK_UN)
        self.fh.close()


def prune_builds(keep=3):
    """removes old per-tree build directories; keeps the current one, the most recent one that was built from a clean
    (committed) /repo tree, and the `keep` most recently used others"""
    if not os.path.isdir(BUILD):
        return
    cur = build_dir()
    try:
        clean = subprocess.run(["git", "-C", REPO, "status", "--porcelain", "--untracked-files=no"], stdout=subprocess.PIPE, text=True).stdout.strip() == ""
        if clean and os.path.isdir(cur):
            open(os.path.join(cur, ".clean"), "w").write(str(time.time()))
    except Exception:
        pass
    ds = [os.path.join(BUILD, d) for d in os.listdir(BUILD)
          if os.path.isdir(os.path.join(BUILD, d)) and re.fullmatch(r"[0-9a-f]{16}", d)]
    ds.sort(key=lambda p: os.path.getmtime(p), reverse=True)
    cleans = sorted([d for d in ds if os.path.exists(os.path.join(d, ".clean"))], key=lambda d: os.path.getmtime(os.path.join(d, ".clean")), reverse=True)
    protected = {cur} | set(cleans[:1])
    for d in ds[keep:]:
        if d not in protected:
            shutil.rmtree(d, ignore_errors=True)


# --------------------------------------------------------------------------
# C++ builds
# --------------------------------------------------------------------------
# A second build configuration of library and harness (e.g. ["NDEBUG"]: what the project's Release / RelWithDebInfo builds define).
# Objects and drivers of a configuration live in their own directories.
CONFIG_DEFS = []
CONFIG_MIXED = False        # True: only the LIBRARY is compiled with CONFIG_DEFS, the client (harness) without — a release library used by a debug client


def variant_dir(variant, driver=False):
    return variant + ("".join("-" + x.lower() for x in CONFIG_DEFS) if CONFIG_DEFS else "") + ("-mixed" if (driver and CONFIG_MIXED and CONFIG_DEFS) else "")


def _compile(src, obj, flags):
    if os.path.exists(obj) and os.path.getmtime(obj) >= os.path.getmtime(src):
        return None
    cmd = [CXX, STD, "-I", os.path.join(REPO, "include"), "-D" + GUARD,
           "-Wno-overloaded-virtual", "-w"] + flags + ["-D" + x for x in CONFIG_DEFS] + ["-c", src, "-o", obj]
    p = run(cmd, timeout=900)
    if p.returncode != 0:
        return "compile failed: %s\n%s" % (" ".join(cmd), p.stderr[-6000:])
    return None


def build_lib(variant="plain"):
    """Compile the five library TUs of the current /repo tree. Returns list of objects."""
    d = os.path.join(build_dir(), variant_dir(variant))
    with Lock("lib-" + variant_dir(variant)):
        os.makedirs(d, exist_ok=True)
        stamp = os.path.join(d, "lib.ok")
        objs = [os.path.join(d, t + ".o") for t in LIB_TUS]
        if os.path.exists(stamp) and all(os.path.exists(o) for o in objs):
            return objs
        t0 = time.time()
        with cf.ThreadPoolExecutor(max_workers=8) as ex:
            futs = [ex.submit(_compile, os.path.join(REPO, "src", t + ".cxx"),
                              os.path.join(d, t + ".o"), VARIANTS[variant]) for t in LIB_TUS]
            errs = [f.result() for f in futs]
        errs = [e for e in errs if e]
        if errs:
            raise BuildError("\n".join(errs))
        open(stamp, "w").write("ok")
        log("[build] lib/%s in %.1fs" % (variant, time.time() - t0))
        return objs


class BuildError(Exception):
    pass


NCPU = os.cpu_count() or 4


def build_driver(name, variant="plain", with_lib=True, extra=(), srcs=None, defines=(), parts=0):
    """Compile harness/<name>.cxx against the current /repo and link it."""
    d = os.path.join(build_dir(), variant_dir(variant, driver=True))
    os.makedirs(d, exist_ok=True)
    exe = os.path.join(d, name)
    objs = build_lib(variant) if with_lib else []
    with Lock("drv-%s-%s" % (name, variant_dir(variant, driver=True))):
        srcs = srcs or [os.path.join(HARNESS, name + ".cxx")]
        deps = list(srcs) + [f for f in _files(HARNESS) if f.endswith((".h", ".inc", ".def"))] + \
            _files(os.path.join(build_dir(), "gen"))
        newest = max(os.path.getmtime(s) for s in deps)
        if os.path.exists(exe) and os.path.getmtime(exe) >= newest:
            return exe
        t0 = time.time()
        base = [CXX, "-std=c++20", "-I", os.path.join(REPO, "include"), "-I", HARNESS,
                "-I", os.path.join(build_dir(), "gen"),
                "-D" + GUARD, "-w"] + ["-D" + x for x in defines] + ([] if CONFIG_MIXED else ["-D" + x for x in CONFIG_DEFS]) + VARIANTS[variant] + list(extra)
        part_objs = []
        if parts:
            # the generated dispatcher is split into translation units compiled in parallel
            import concurrent.futures as cf
            psrc = os.path.join(HARNESS, name + "_part.cxx")

            def one(k):
                o = os.path.join(d, "%s_part%d.o" % (name, k))
                q = run(base + ["-DPART=%d" % k, "-DNPARTS=%d" % parts, "-c", psrc, "-o", o], timeout=1200)
                if q.returncode != 0:
                    raise BuildError("driver part build failed: %s\n%s" % (psrc, q.stderr[-8000:]))
                return o
            with cf.ThreadPoolExecutor(max_workers=min(parts, NCPU)) as ex:
                part_objs = list(ex.map(one, range(parts)))
        cmd = base + ["-DNPARTS=%d" % parts] + srcs + part_objs + objs + ["-o", exe, "-lpthread"]
        p = run(cmd, timeout=1200)
        if p.returncode != 0:
            raise BuildError("driver build failed: %s\n%s" % (" ".join(cmd), p.stderr[-8000:]))
        log("[build] %s/%s in %.1fs" % (variant, name, time.time() - t0))
        return exe


# --------------------------------------------------------------------------
# Coq
# --------------------------------------------------------------------------
def coq_project_files():
    fs = []
    with open(os.path.join(COQ, "_CoqProject")) as fh:
        for l in fh:
            l = l.strip()
            if l.endswith(".v"):
                fs.append(l)
    return fs


def coq_setup():
    with Lock("coq"):
        if not os.path.exists(os.path.join(COQ, "Makefile")) or \
                os.path.getmtime(os.path.join(COQ, "Makefile")) < os.path.getmtime(os.path.join(COQ, "_CoqProject")):
            run(["coq_makefile", "-f", "_CoqProject", "-o", "Makefile"], cwd=COQ, check=True)


def coq_make(targets, timeout=1500):
    """make the given .vo targets (full .vo build). Returns (ok, log)."""
    coq_setup()
    with Lock("coq"):
        t0 = time.time()
        p = run(["make", "-k", "-j16"] + list(targets), cwd=COQ, timeout=timeout)
        out = p.stdout + p.stderr
        logd = os.path.join(COQ, "logs")
        os.makedirs(logd, exist_ok=True)
        # keep the compile output of each Properties file (Print Assumptions)
        for t in targets:
            base = t[:-3]
            if "COQC %s.v" % base in out:
                with open(os.path.join(logd, base.replace("/", "_") + ".log"), "w") as fh:
                    fh.write(out)
        log("[coq] make %s: rc=%d in %.1fs" % (" ".join(targets), p.returncode, time.time() - t0))
        return p.returncode == 0, out


def theorem_names(vfile):
    names = []
    with open(os.path.join(COQ, vfile)) as fh:
        for l in fh:
            m = re.match(r"\s*(Theorem|Corollary|Example|Lemma)\s+([A-Za-z0-9_']+)", l)
            if m:
                names.append(m.group(2))
    return names


def assumptions_of(vfile):
    """Parse the saved compile log of a Properties file: list of axioms reported by
    Print Assumptions (empty list = all closed under the global context)."""
    p = os.path.join(COQ, "logs", vfile[:-2].replace("/", "_") + ".log")
    if not os.path.exists(p):
        return None
    txt = open(p).read()
    closed = txt.count("Closed under the global context")
    axioms = []
    for m in re.finditer(r"Axioms:\n((?:.+\n)+?)(?=\S|\Z)", txt):
        axioms.append(m.group(1).strip())
    return {"closed": closed, "axioms": axioms}


FORBIDDEN = re.compile(r"\b(Admitted|admit|Axiom|Parameter|Conjecture|Unset Guard Checking|"
                       r"bypass_check|Admit Obligations|type-in-type|impredicative-set)\b")


def scan_forbidden():
    bad = []
    for root in (COQ,):
        for f in _files(root):
            if not f.endswith(".v"):
                continue
            for i, l in enumerate(open(f), 1):
                s = re.sub(r"\(\*.*?\*\)", "", l)
                s = re.sub(r'"[^"]*"', '""', s)          # string literals (generated tables contain class names)
                if FORBIDDEN.search(s):
                    bad.append("%s:%d: %s" % (f, i, l.strip()))
    return bad


# --------------------------------------------------------------------------
# OCaml extracted model
# --------------------------------------------------------------------------
def build_model_driver():
    """Build the extracted model + OCaml driver. Returns path of executable."""
    with Lock("ocaml"):
        d = os.path.join(BUILD, "ocaml")
        os.makedirs(d, exist_ok=True)
        exe = os.path.join(d, "model_driver")
        ml = os.path.join(COQ, "extracted", "model.ml")
        drv = os.path.join(HARNESS, "driver.ml")
        ok, out = coq_make_nolock(["Extract.vo"])
        if not ok or not os.path.exists(ml):
            raise BuildError("extraction failed:\n" + out[-4000:])
        if os.path.exists(exe) and os.path.getmtime(exe) >= max(os.path.getmtime(ml), os.path.getmtime(drv)):
            return exe
        for f in ("model.ml", "model.mli"):
            shutil.copy(os.path.join(COQ, "extracted", f), d)
        shutil.copy(drv, d)
        p = run(["ocamlfind", "ocamlopt", "-O3", "-w", "-a", "-package", "str", "-linkpkg",
                 "model.mli", "model.ml", "driver.ml", "-o", exe], cwd=d, timeout=600)
        if p.returncode != 0:
            p = run(["ocamlfind", "ocamlopt", "-w", "-a", "-package", "str", "-linkpkg",
                     "model.mli", "model.ml", "driver.ml", "-o", exe], cwd=d, timeout=600)
        if p.returncode != 0:
            raise BuildError("ocaml build failed:\n" + p.stderr[-4000:])
        return exe


def coq_make_nolock(targets, timeout=1500):
    coq_setup()
    with Lock("coq"):
        p = run(["make", "-k", "-j16"] + list(targets), cwd=COQ, timeout=timeout)
        return p.returncode == 0, p.stdout + p.stderr


# --------------------------------------------------------------------------
# evidence / findings / violations
# --------------------------------------------------------------------------
def load_known_findings():
    p = os.path.join(VERIF, "known_findings.txt")
    out = []
    if os.path.exists(p):
        for l in open(p):
            l = l.strip()
            if l.startswith("{"):
                out.append(json.loads(l))
    return out


class Result:
    """Accumulates what one check run saw."""

    def __init__(self, pid, tier, seed):
        self.pid, self.tier, self.seed = pid, tier, seed
        self.t0 = time.time()
        self.violations = []      # (key, what, replay dict)
        self.known_hits = []
        self.coverage = {}
        self.assumptions = []
        self.notes = []

    def violation(self, key, what, replay, no_input=False):
        self.violations.append({"key": key, "what": what, "replay": replay, "no_input": no_input})

    def finish(self, level="proof"):
        os.makedirs(EVIDENCE, exist_ok=True)
        os.makedirs(REPLAYS, exist_ok=True)
        known = [k for k in load_known_findings() if k.get("property") == self.pid]
        open_known = [k for k in known if k.get("status") == "open"]
        new = []
        for v in self.violations:
            hit = None
            for k in open_known:
                if re.search(k["matcher"], v["key"]):
                    hit = k
                    break
            if hit:
                if hit["key"] not in [h["key"] for h in self.known_hits]:
                    self.known_hits.append(hit)
            else:
                new.append(v)
        for k in self.known_hits:
            print("KNOWN-FINDING: property=%s %s" % (self.pid, k["what"]))
        lines = []
        for i, v in enumerate(new):
            h = hashlib.sha256(json.dumps(v, sort_keys=True, default=str).encode()).hexdigest()[:10]
            path = os.path.join(REPLAYS, "%s-%s.json" % (self.pid, h))
            with open(path, "w") as fh:
                json.dump({"property": self.pid, "tier": self.tier, "seed": self.seed,
                           "key": v["key"], "what": v["what"], "replay": v["replay"]}, fh, indent=1, default=str)
            lines.append("VIOLATION property=%s replay=%s%s" %
                         (self.pid, path, " no-failing-input-found" if v["no_input"] else ""))
            if i >= 9:
                break
        cov = dict(self.coverage)
        cov.setdefault("trusted_base", [])
        ev = {
            "property_id": self.pid, "tier": self.tier, "seed": self.seed, "level": level,
            "coverage": cov,
            "assumptions": self.assumptions,
            "wall_s": round(time.time() - self.t0, 2),
            "violations": len(new),
            "known_findings_matched": [k["key"] for k in self.known_hits],
            "notes": self.notes,
        }
        with open(os.path.join(EVIDENCE, self.pid + ".json"), "w") as fh:
            json.dump(ev, fh, indent=1, default=str)
        for l in lines:
            print(l)
        sys.stdout.flush()
        return 1 if new else 0


TRUSTED_BASE = [
    "Coq 8.16.1 kernel incl. vm_compute (no native_compute)",
    "extract/cxx_facts.py + clang 14 JSON AST (fact extraction)",
    "Coq extraction with ExtrOcamlBasic only; ocamlopt 4.13.1; harness/driver.ml",
    "C++ harness drivers, g++ 12.2, libstdc++, sanitizer runtimes",
]


def coq_obligations(res, vfiles, extra_targets=()):
    """Compile the Properties files; record obligations/discharged. Returns dict file->ok."""
    targets = [v[:-2] + ".vo" for v in vfiles] + list(extra_targets)
    ok, out = coq_make(targets)
    status = {}
    obligations = 0
    discharged = 0
    assum = []
    for v in vfiles:
        names = theorem_names(v)
        obligations += len(names)
        vo = os.path.join(COQ, v[:-2] + ".vo")
        src = os.path.join(COQ, v)
        good = os.path.exists(vo) and os.path.getmtime(vo) >= os.path.getmtime(src) and \
            not re.search(r"Error[\s\S]{0,400}" + re.escape(v), out) and \
            not re.search(re.escape(v) + r"[\s\S]{0,200}Error", out)
        status[v] = good
        if good:
            discharged += len(names)
            a = assumptions_of(v)
            if a is not None:
                assum.append("%s: Print Assumptions: %d closed under the global context; axioms: %s" %
                             (v, a["closed"], a["axioms"] or "none"))
    res.coverage["obligations"] = res.coverage.get("obligations", 0) + obligations
    res.coverage["discharged"] = res.coverage.get("discharged", 0) + discharged
    res.coverage["checker_cmd"] = "make -C /verif/coq -k -j16 " + " ".join(targets)
    res.coverage.setdefault("trusted_base", []).extend(TRUSTED_BASE + assum)
    res.coverage["coq_files"] = list(vfiles)
    bad = scan_forbidden()
    if bad:
        res.notes.append("forbidden constructs: " + "; ".join(bad[:5]))
    return status, out


def coq_error_excerpt(out, vfile):
    m = re.search(r'File "\./' + re.escape(vfile) + r'", line (\d+)[\s\S]{0,1500}', out)
    return m.group(0)[:1500] if m else out[-1500:]


def run_cases(exe, lines, args=(), env=None, timeout=7200, max_crashes=8):
    """Feed one case per line to a driver that prints one line per case.  If the
    driver dies (sanitizer report, crash), the case it died on is recorded and the
    remaining cases are run in a fresh process.  Returns (outputs, crashes) where
    outputs[i] is the output line or None, crashes = [(index, stderr_tail)]."""
    outs = [None] * len(lines)
    crashes = []
    start = 0
    while start < len(lines):
        p = run([exe] + list(args), input="\n".join(lines[start:]) + "\n", timeout=timeout, env=env)
        got = p.stdout.splitlines()
        for i, l in enumerate(got[:len(lines) - start]):
            outs[start + i] = l
        if p.returncode == 0 and len(got) >= len(lines) - start:
            break
        bad = start + min(len(got), len(lines) - start - 1)
        outs[bad] = None
        crashes.append((bad, "rc=%d " % p.returncode + p.stderr[-3000:]))
        start = bad + 1
        if len(crashes) >= max_crashes or p.returncode == 124:      # after a hang, do not wait for further ones
            break
    return outs, crashes


SAN_ENV = dict(os.environ, ASAN_OPTIONS="detect_leaks=0:abort_on_error=0:allocator_may_return_null=1",
               UBSAN_OPTIONS="print_stacktrace=1:halt_on_error=1")


def build_gen_driver():
    """Extract the model applied to the generated tables (coq/gen) and build its driver."""
    ok, out = coq_make_nolock(["ExtractGen.vo"])
    ml = os.path.join(COQ, "extracted", "genmodel.ml")
    if not ok or not os.path.exists(ml):
        raise BuildError("gen extraction failed:\n" + out[-4000:])
    with Lock("ocaml-gen"):
        d = os.path.join(build_dir(), "ocaml-gen")
        os.makedirs(d, exist_ok=True)
        exe = os.path.join(d, "gen_driver")
        drv = os.path.join(HARNESS, "gen_driver.ml")
        if os.path.exists(exe) and os.path.getmtime(exe) >= max(os.path.getmtime(ml), os.path.getmtime(drv)):
            return exe
        for f in ("genmodel.ml", "genmodel.mli"):
            shutil.copy(os.path.join(COQ, "extracted", f), d)
        shutil.copy(drv, d)
        p = run(["ocamlfind", "ocamlopt", "-w", "-a", "genmodel.mli", "genmodel.ml", "gen_driver.ml", "-o", exe],
                cwd=d, timeout=600)
        if p.returncode != 0:
            raise BuildError("ocaml gen build failed:\n" + p.stderr[-4000:])
        return exe
