"""C07 — scopes, overload sets and declaration sets are mutually consistent."""
import random
import re
from common import *
import facts as factsmod

PLAIN_KINDS = ["var", "field", "bitfield", "typedecl", "alias"]


def gen_cases(tier, seed):
    rnd = random.Random(seed)
    cases = []
    cases.append("het -")
    n_het = 400 if tier == "quick" else 6000
    for c in range(n_het):
        nn = rnd.choice([1, 2, 3, 5, 8, 10])
        nt = rnd.choice([1, 2, 3, 5])
        ln = rnd.choice([1, 2, 3, 5, 8, 13, 21, 40] + ([120, 400] if tier != "quick" else [60]))
        kind_of = {}
        items = []
        for i in range(ln):
            n = rnd.randrange(nn)
            cls = rnd.choice([0, 0, 0, 1, 2])
            j = rnd.randrange(nt)
            t = cls * 16 + j
            if cls == 2 and rnd.random() < 0.25:
                n = rnd.choice([10, 11])          # a template named by a template-id whose template-name is name 8 / 9
            if (n, t) not in kind_of:
                kind_of[(n, t)] = rnd.choice(PLAIN_KINDS) if cls == 0 else ("fundecl" if cls == 1 else rnd.choice(["ptemplate", "stemplate"]))
            items.append("%s:%d:%d" % (kind_of[(n, t)], n, t))
            if rnd.random() < 0.08:
                # a declaration attempt that is refused (alias of an initializer without a type): under a name used elsewhere or not at all
                items.append("refused:%d:0" % rnd.randrange(10))
        if c % 5 == 0:
            items.insert(0, "refused:%d:0" % rnd.randrange(10))
        cases.append("het " + ",".join(items))
    n_hom = 150 if tier == "quick" else 2000
    for c in range(n_hom):
        what = rnd.choice(["param", "enum", "base"])
        ln = rnd.choice([0, 1, 2, 3, 7, 20, 50, 33, 65, 90, 130, 300])     # long lists too: past 16, 32, 64, 128, 256 members
        items = ["%d:%d" % (rnd.randrange(10) if rnd.random() < 0.8 else 0, rnd.randrange(6)) for _ in range(ln)]
        cases.append("hom %s %s" % (what, ",".join(items) if items else "-"))
    return cases


def kv(line):
    return dict(x.split("=", 1) for x in line.split())


def oracle_het(case, d):
    errs = []
    a = case.split()[1]
    items = [] if a == "-" else [x.split(":") for x in a.split(",")]
    nref = sum(1 for x in items if x[0] == "refused")
    items = [x for x in items if x[0] != "refused"]
    if d.get("refusals", "0/0") != "%d/%d" % (nref, nref):
        errs.append(("refusal", "an alias whose initializer has no type was accepted: refused/attempted = " + d.get("refusals", "?")))
    h = [(int(n), int(t)) for _, n, t in items]
    n = len(h)
    want_idx = ",".join(map(str, range(n))) or "-"
    if d["elements"] != want_idx:
        errs.append(("elements", "the scope does not list its declarations in entry order: " + d["elements"][:120]))
    if d["types"] != (",".join(str(t) for _, t in h) or "-"):
        errs.append(("type", "the scope's type is not the product of its declarations' types in order"))
    if d["sizes"] != "%d/%d/%d" % (n, n, n):
        errs.append(("size", "size() disagree: " + d["sizes"]))
    if d["names"] != (",".join(str(x) for x, _ in h) or "-") or d["dtypes"] != (",".join(str(t) for _, t in h) or "-"):
        errs.append(("name-type", "a declaration does not report the name/type it was entered with"))
    groups = {}
    for i, k in enumerate(h):
        groups.setdefault(k, []).append(i)
    want_master = ",".join(str(groups[k][0]) for k in h) or "-"
    want_sets = ",".join("+".join(map(str, groups[k])) for k in h) or "-"
    if d["master"] != want_master:
        errs.append(("master", "master() is not the first declaration with the same name and type: got %s want %s" % (d["master"][:80], want_master[:80])))
    if d["declset"] != want_sets:
        errs.append(("declset", "decl_set() is not the declarations sharing name and type in entry order: got %s want %s" % (d["declset"][:80], want_sets[:80])))
    names = {x for x, _ in h}
    want_lookup = "".join("1" if i in names else "0" for i in range(10))
    if d["lookup"] != want_lookup:
        errs.append(("lookup", "looking a name up yields an overload set exactly when it was declared: got %s want %s" % (d["lookup"], want_lookup)))
    codes = [c for j in range(6) for c in (j, 16 + j, 32 + j)]
    sel = []
    for nm in range(10):
        if nm in names:
            for c in codes:
                if (nm, c) in groups:
                    sel.append("%d:%d:%d" % (nm, c, groups[(nm, c)][0]))
    if d["select"] != (";".join(sel) or "-"):
        errs.append(("select", "selecting by type does not yield the first declaration with that name and type"))
    return errs


def oracle_hom(case, d):
    errs = []
    _, what, a = case.split()
    items = [] if a == "-" else [tuple(map(int, x.split(":"))) for x in a.split(",")]
    n = len(items)
    idx = ",".join(map(str, range(n))) or "-"
    for f, what_ in (("elements", "members are not listed in entry order"), ("pos", "position() is not the index"),
                     ("master", "a member is not its own master"), ("declset", "a member's declaration set is not the singleton of itself")):
        if d[f] != idx:
            errs.append((f, what_ + ": " + d[f][:80]))
    if int(d["size"]) != n:
        errs.append(("size", "size() = %s for %d members" % (d["size"], n)))
    if d["home"] != ("1" * n or "-"):
        errs.append(("home", "a member does not report its home region"))
    if what in ("param", "enum") and "probes" in d:
        # looked up right before and right after each declaration: found before iff the name was already declared, found after always
        seen, want = set(), ""
        for nm, _ in items:
            want += ("1" if nm in seen else "0") + "1"
            seen.add(nm)
        if d["probes"] != (want or "-"):
            errs.append(("lookup-interleaved", "looking a name up right before / right after its declaration: got %s, expected %s" % (d["probes"][:60], want[:60])))
    # name lookup followed by selection by type: the FIRST member entered under that name, when its type is the one asked for
    # (enumerators all have the enumeration's type; a base subobject is named by its type)
    want_by = []
    for nm, t in items:
        if what == "base":
            want_by.append(str(next(i for i, (_, t2) in enumerate(items) if t2 == t)))
        else:
            first = next(i for i, (n2, _) in enumerate(items) if n2 == nm)
            want_by.append(str(first) if what == "enum" or items[first][1] == t else "notype")
    if "byname" in d and d["byname"] != (",".join(want_by) or "-"):
        got = d["byname"].split(",")
        j = next((i for i, (a, b) in enumerate(zip(got, want_by)) if a != b), 0)
        errs.append(("lookup-first", "in a %s list of %d members, looking up the name of member %d and selecting by its type yields %s; the first member entered "
                                     "with that name is %s" % (what, n, j, got[j] if j < len(got) else "?", want_by[j])))
    if what != "enum" and d["types"] != (",".join(str(t) for _, t in items) or "-"):
        errs.append(("type", "the type of the list is not the product of its members' types"))
    return errs


def check(res):
    f = factsmod.get_facts()
    status, out = coq_obligations(res, ["Properties_C07.v"])
    exe = build_driver("scope_driver", "asan")
    model = build_model_driver()
    cases = gen_cases(res.tier, res.seed)
    outs, crashes = run_cases(exe, cases, env=SAN_ENV)
    for idx, err in crashes[:3]:
        res.violation("crash", "scope driver aborted (sanitizer report or crash)", {"case": cases[idx][:2000], "stderr": err})
    def for_model(c):            # refused attempts declare nothing: the model never sees them
        w = c.split()
        if w[0] != "het" or w[1] == "-":
            return c
        keep = [x for x in w[1].split(",") if not x.startswith("refused:")]
        return "het " + (",".join(keep) or "-")
    pm = run([model, "scope"], input="\n".join(for_model(c) for c in cases) + "\n", timeout=3600)
    ml = pm.stdout.splitlines()
    keys = set()
    ndiff = 0
    lens = {}
    for i, (c, o) in enumerate(zip(cases, outs)):
        if o is None:
            continue
        if o.startswith("error="):
            res.violation("harness", "scope driver could not run a case: " + o, {"case": c[:500]}, no_input=True)
            continue
        d = kv(o)
        errs = oracle_het(c, d) if c.startswith("het") else oracle_hom(c, d)
        ln = 0 if c.split()[-1] == "-" else c.count(",") + 1
        lens[ln] = lens.get(ln, 0) + 1
        for k, what in errs:
            key = ("het:" if c.startswith("het") else "hom:") + k
            if key not in keys and len(keys) < 10:
                keys.add(key)
                res.violation("oracle:" + key, what, {"case": c[:1500], "observed": {x: y[:300] for x, y in d.items()},
                                                      "rerun": "echo '<case>' | build/<hash>/asan/scope_driver"})
        # the interleaved lookups ("probes") are judged by the oracle only; the extracted model does not produce them
        if not errs and i < len(ml) and ml[i] != re.sub(r" (probes|refusals)=\S+", "", o):
            ndiff += 1
            if ndiff <= 3:
                res.violation("diff", "model (Scope.v) and implementation disagree although the oracle is satisfied",
                              {"correspondence": "Scope.v (extracted) vs impl::Scope", "case": c[:1500], "impl": o[:600], "model": ml[i][:600]}, no_input=True)
    if not all(status.values()) and not keys:
        res.violation("coq:Properties_C07.v", "proof obligation no longer checks",
                      {"theorem_file": "Properties_C07.v", "error": coq_error_excerpt(out, "Properties_C07.v")}, no_input=True)
    res.coverage.update({
        "evaluations": len(cases), "distinct_nontrivial": len(set(c for c in cases if "," in c)),
        "rule": "seeded declaration histories (1..400 declarations over 1..10 names x 1..5 types in three type classes; all eight make_* kinds, "
                "kind fixed per name-type pair; heavy repetition), then every observer on every declaration, every name of the pool (declared or "
                "not) and every type code; parameter lists / enumerations / base lists of 0..50 members with repeated names, looked up by name "
                "and type. non-trivial = at least two declarations; distinct = distinct case lines",
        "samples": [cases[1][:200], cases[len(cases) // 2][:200], cases[-1][:200]],
        "traces_validated_against_impl": min(len(ml), len(outs)),
        "input_distribution": {"length_histogram": {str(k): v for k, v in sorted(lens.items())}},
    })
    res.assumptions += ["each (name, type) pair is used by one declaration kind (as the property states)",
                        "the two lookup tables are modelled as association lists; their red-black implementation is covered by C08 + Unify.v"]
