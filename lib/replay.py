"""Generic replay: re-runs the concrete input recorded in a replay file against the CURRENT /repo tree and prints what
the implementation (and, where there is one, the extracted model) answers now.  Used by `./check Cxx --replay FILE`
before the whole check is run again."""
import json
import os
from common import *

DRIVERS = {
    # property -> (driver, variant, argv, name of the replay field holding one input line / a list of lines)
    "C01": ("lex_driver", "plain", [], ["minimal_script", "script_lines"]),
    "C04": ("lex_driver", "plain", [], ["minimal_script", "script_lines"]),
    "C11": ("lex_driver", "plain", [], ["minimal_script", "script_lines"]),
    "C13": ("lex_driver", "plain", [], ["minimal_script", "script_lines"]),
    "C02": ("fsweep_driver", "asan", [], ["call"]),
    "C09": ("fsweep_driver", "asan", [], ["call"]),
    "C14": ("fsweep_driver", "asan", [], ["call"]),
    "C07": ("scope_driver", "asan", [], ["case"]),
    "C12": ("region_driver", "asan", [], ["script"]),
    "C16": ("subst_driver", "asan", [], ["case"]),
    "C17": ("print_driver", "asan", ["prog"], ["program"]),
    "C18": ("print_driver", "plain", ["prog"], ["program"]),
}


def replay(res, rep):
    pid = rep.get("property") or res.pid
    body = rep.get("replay", {})
    print("replay of %s: %s" % (rep.get("key"), (rep.get("what") or "")[:300]))
    if pid not in DRIVERS:
        print("(no single-input driver for this property; the recorded input is shown and the whole check is run)")
        print(json.dumps(body, indent=1)[:3000])
        return
    name, variant, argv, fields = DRIVERS[pid]
    text = None
    for f in fields:
        v = body.get(f)
        if isinstance(v, list) and v:
            text = "\n".join(map(str, v))
            break
        if isinstance(v, str) and v:
            text = v
            break
    if text is None and pid in ("C02", "C09", "C14") and body.get("factory") and body.get("indices") is not None:
        text = "%s %s" % (body["factory"], " ".join(map(str, body["indices"])))
    if text is None:
        print("(the replay names no concrete input: %s)" % ", ".join(body.keys()))
        print(json.dumps(body, indent=1)[:3000])
        return
    parts = 12 if name == "fsweep_driver" else 0
    exe = build_driver(name, variant, parts=parts)
    p = run([exe] + argv, input=text + "\n", env=SAN_ENV if variant != "plain" else None, timeout=600)
    print("--- input")
    print(text[:3000])
    print("--- implementation, current tree (exit %d)" % p.returncode)
    print(p.stdout[:6000])
    if p.stderr.strip():
        print("--- stderr")
        print(p.stderr[-3000:])
