"""C04 — names and atoms are unified; a spelling has a single Identifier everywhere."""
from lexcommon import *
import lexgen

NAME_OPS = ("string", "identifier", "identifier_w", "operator", "suffix", "conversion", "ctor_name", "dtor_name", "guide_name",
            "template_id", "logogram", "symbol", "label", "this", "literal", "linkage", "linkage_w", "convention", "as_type_id")


def in_scope(key):
    k = key.split(":")
    if k[0] in ("identifier-unique", "value-equality", "constant", "script"):
        return True
    return k[0] in ("split", "merged", "refused") and len(k) > 1 and k[1] in NAME_OPS


def check(res):
    f = factsmod.get_facts()
    status, out = coq_obligations(res, ["Properties_C04.v"])
    known = f["words"]["known_words"]["rows"]
    if res.tier == "quick":
        s = lexgen.gen_c04(res.tier, res.seed, known)
        st = run_script(res, s, known, "C04", in_scope)
        all_reqs = s.reqs
    else:
        scripts, st = run_histories(res, lambda k: lexgen.gen_c04(res.tier, res.seed * 1000 + k, known, n=(2500, 4000, 6000, 8000)[k % 4]), known, "C04", in_scope, 32)
        s = scripts[0]
        all_reqs = [r for sc in scripts for r in sc.reqs]
    if not all(status.values()) and not [v for v in res.violations if v["key"].startswith("oracle:")]:
        res.violation("coq:Properties_C04.v", "proof obligation no longer checks",
                      {"theorem_file": "Properties_C04.v", "error": coq_error_excerpt(out, "Properties_C04.v")}, no_input=True)
    ops = {}
    for r in all_reqs:
        ops[r[0]] = ops.get(r[0], 0) + 1
    res.coverage.update({
        "evaluations": st["n"], "distinct_nontrivial": st.get("classes", 0),
        "rule": "every reserved word through every route (string, identifier by String and by view, logogram, as-type, label); then a seeded "
                "history of name/atom requests over spellings = reserved words, their one-byte extensions and prefixes, operators, words with NUL "
                "and high bytes, random short words; 40% exact repeats; symbols sharing a name with different types and vice versa; value equality "
                "on pairs of linkages/conventions/transfers; finally get_identifier of every built-in and symbolic-constant spelling against the "
                "constant's own name.  distinct non-trivial = identity classes returned by the implementation",
        "samples": [s.lines[i] for i in (len(s.lines) // 3, len(s.lines) // 2, len(s.lines) - 1)],
        "traces_validated_against_impl": st["n"],
        "input_distribution": {"requests_by_constructor": ops, "reserved_words": len(known), "independent_histories": st.get("histories", 1)},
    })
    res.assumptions += ["String identity = content identity (C03)", "operands are well-typed (enforced by the C++ static types; the script generator tracks sorts)"]
