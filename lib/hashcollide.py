"""Words with equal std::hash codes (libstdc++ 64-bit _Hash_bytes, the unkeyed Murmur-style hash behind
std::hash<std::u8string_view>), built by inverting the hash.  The string pool slots words by that hash code, so what it
does INSIDE one slot (compare the characters? all of them? the lengths?) shows only on such words; chance never produces them.
Every pair handed out is confirmed with the standard library's own std::hash by a probe compiled with the tree's compiler:
when the hash differs from the one inverted here, no collision words are produced and the evidence says so."""
import os
import random
from common import *

M = 0xc6a4a7935bd1e995
MASK = (1 << 64) - 1
SEED = 0xc70f6907
MINV = pow(M, -1, 1 << 64)


def _mix(v):
    return v ^ (v >> 47)          # its own inverse on 64 bits (47 * 2 > 64)


def hash_bytes(b):
    n = len(b)
    h = SEED ^ ((n * M) & MASK)
    al = n & ~7
    for i in range(0, al, 8):
        d = int.from_bytes(b[i:i + 8], "little")
        d = (_mix((d * M) & MASK) * M) & MASK
        h = ((h ^ d) * M) & MASK
    if n & 7:
        d = int.from_bytes(b[al:], "little")
        h = ((h ^ d) * M) & MASK
    h = (_mix(h) * M) & MASK
    return _mix(h)


def extend_to(prefix, target):
    """prefix (a multiple of 8 bytes) + 8 computed bytes whose hash code is `target`"""
    assert len(prefix) % 8 == 0
    n = len(prefix) + 8
    h = SEED ^ ((n * M) & MASK)
    for i in range(0, len(prefix), 8):
        d = int.from_bytes(prefix[i:i + 8], "little")
        d = (_mix((d * M) & MASK) * M) & MASK
        h = ((h ^ d) * M) & MASK
    x = _mix((_mix(target) * MINV) & MASK)            # state before the final mixing
    d = ((x * MINV) & MASK) ^ h
    load = (_mix((d * MINV) & MASK) * MINV) & MASK
    w = prefix + load.to_bytes(8, "little")
    assert hash_bytes(w) == target
    return w


def families(rnd, nfam):
    """families of distinct words with one hash code: a base word, words of other lengths, a word the base is a strict
    prefix of, a word that is a strict prefix of another member, equal-length members"""
    out = []
    for k in range(nfam):
        ln = rnd.choice([3, 8, 8, 11, 16, 24])
        base = bytes(rnd.choice(b"abcdefghijklmnopqrstuvwxyz_0123456789") for _ in range(ln))
        t = hash_bytes(base)
        fam = [base]
        pad = base + b"_" * ((-len(base)) % 8)                      # base is a strict prefix of this member
        fam.append(extend_to(pad, t))
        fam.append(extend_to(fam[1], t))                            # ... which is a strict prefix of this one
        for j in range(2):
            fam.append(extend_to(bytes(rnd.randrange(1, 256) for _ in range(8 * rnd.choice([0, 1, 2]))), t))
        e = extend_to(bytes(rnd.randrange(1, 256) for _ in range(max(0, (len(base) - 8)) & ~7)), t)
        fam.append(e)                                               # about the length of the base
        fam = list(dict.fromkeys(fam))
        rnd.shuffle(fam) if k % 2 else None
        out.append(fam)
    return out


PROBE = r'''
#include <string_view>
#include <functional>
#include <iostream>
#include <string>
#include <vector>
int main() {
   std::string l;
   while (std::getline(std::cin, l)) {
      std::vector<char8_t> v;
      for (size_t i = 0; i + 1 < l.size(); i += 2) v.push_back(char8_t(std::stoi(l.substr(i, 2), nullptr, 16)));
      std::cout << std::hash<std::u8string_view>{}(std::u8string_view(v.data(), v.size())) << "\n";
   }
}
'''


def confirmed_families(seed, nfam):
    """(families, note): families confirmed with std::hash itself, or [] and the reason"""
    rnd = random.Random(seed * 7919 + 13)
    fams = families(rnd, nfam)
    d = os.path.join(build_dir(), "hashprobe")
    os.makedirs(d, exist_ok=True)
    exe = os.path.join(d, "hash_probe")
    if not os.path.exists(exe):
        src = os.path.join(d, "hash_probe.cxx")
        open(src, "w").write(PROBE)
        p = run([CXX, "-std=c++20", "-O1", src, "-o", exe], timeout=300)
        if p.returncode != 0:
            return [], "hash probe does not build: " + p.stderr[-300:]
    words = [w for f in fams for w in f]
    p = run([exe], input="\n".join(w.hex() for w in words) + "\n", timeout=120)
    got = p.stdout.split()
    if len(got) != len(words) or any(int(g) != hash_bytes(w) for g, w in zip(got, words)):
        return [], "std::hash<std::u8string_view> of this standard library is not the hash inverted by hashcollide.py: no equal-hash words generated"
    return fams, "%d families of %d..%d distinct words with equal std::hash codes (confirmed with std::hash)" % (
        len(fams), min(map(len, fams)), max(map(len, fams)))
