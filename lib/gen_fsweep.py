"""Generates the factory-sweep harness code from the factory signatures and accessor
names read from the current source (facts.json).

For every defined factory member function one dispatcher case is generated:
    key == "<class>::<name>(<sorts>)"  ->  build the arguments from the index vector read from
    stdin (operand pools, enumerator values, absent Optionals for negative indices), print their
    names, call the factory, dump every accessor of the result.
The operand choice is therefore data: lib/c02.py decides which tuples are swept."""
import os

# sort -> (C++ expression over index variable I, pool size or None)
POOL = {
    "E": ("*w.exprs[U(I, 12)]", 12), "T": ("*w.types[U(I, 12)]", 12), "R": ("*w.regs[U(I, 12)]", 12),
    "I": ("*w.ids[U(I, 12)]", 12), "N": ("*w.ids[U(I, 12)]", 12), "S": ("*w.strs[U(I, 12)]", 12),
    "TK": ("*w.tokens[U(I, 6)]", 6), "P": ("*w.prods[U(I, 6)]", 6), "U": ("*w.sums[U(I, 6)]", 6),
    "XL": ("*w.xlists[U(I, 6)]", 6), "A": ("*w.attributes[U(I, 6)]", 6), "X": ("*w.transfers[U(I, 6)]", 6),
    "As": ("*w.attr_seqs[U(I, 6)]", 6), "D": ("*w.decls[U(I, 11)]", 11), "LK": ("*w.linkages[U(I, 6)]", 6),
    "CC": ("*w.ccs[U(I, 6)]", 6), "NC": ("*w.named_caps[U(I, 6)]", 6), "SR": ("*w.scope_refs[U(I, 6)]", 6),
    "SC": ("*w.scopes[U(I, 6)]", 6), "L": ("*w.literals[U(I, 6)]", 6), "EN": ("*w.enclosures[U(I, 6)]", 6),
    "PA": ("*w.params[U(I, 6)]", 6), "SU": ("*w.substs[U(I, 6)]", 6), "CO": ("*w.constructions[U(I, 6)]", 6),
    "TM": ("*w.templates[U(I, 6)]", 6), "B": ("*w.blocks[U(I, 6)]", 6), "IN": ("*w.initializers[U(I, 6)]", 6),
    "SP": ("*w.species[U(I, 6)]", 6), "Ts": ("*w.type_seqs[U(I, 6)]", 6), "Tw": ("*w.houses[U(I, 6)]", 6),
    "w": ("scratch_word(w.words[U(I, 12)])", 12),      # every spelling goes through ONE reused token buffer, as in a lexer
}
VALUE = {
    "q": "ipr::Qualifiers(U(I, 7) + 1)", "lvl": "ipr::Mapping_level{ std::size_t(U(I, 9) + 1) }", "bm": "ipr::Binding_mode(U(I, 3))",
    "ph": "ipr::Phases(1 << U(I, 11))", "dm": "ipr::Using_declaration::Designator::Mode(U(I, 3))",
    "cc": "ipr::Category_code(60 + U(I, 40))", "dl": "ipr::Delimiter(U(I, 5))", "rf": "ipr::cxx_form::Reference_flavor(U(I, 2))",
    "ek": "ipr::Enum::Kind(U(I, 2))", "tv": "ipr::TokenValue(U(I, 50) + 3)", "tc": "ipr::TokenCategory(U(I, 8) + 1)",
}
OPTIONAL = {
    "T?": "(I < 0 ? ipr::Optional<ipr::Type>{ } : ipr::Optional<ipr::Type>{ w.types[U(I, 12)] })",
    "S?": "(I < 0 ? ipr::Optional<ipr::String>{ } : ipr::Optional<ipr::String>{ w.strs[U(I, 12)] })",
    "XL?": "(I < 0 ? ipr::Optional<ipr::Expr_list>{ } : ipr::Optional<ipr::Expr_list>{ w.xlists[U(I, 6)] })",
}
NPARTS = 12
SKIP_NAMES = {"specifiers", "qualifiers", "decompose", "make_asm_expr", "make_static_assert_expr"}
OWNER = {"form_factory": "(*w.greg)", "attr_factory": "w.attrs", "capture_spec_factory": "w.caps"}


def arg_expr(sort, j):
    I = "ix.at(%d)" % j
    for tbl in (POOL, VALUE, OPTIONAL):
        if sort in tbl:
            e = tbl[sort][0] if tbl is POOL else tbl[sort]
            return _subst(e, I)
    return None


def _subst(e, I):
    # replace the standalone placeholder I (not inside identifiers)
    import re
    return re.sub(r"\bI\b", I, e)


def _write(path, txt):
    if not os.path.exists(path) or open(path).read() != txt:
        with open(path, "w") as fh:
            fh.write(txt)


def generate(facts, outdir):
    os.makedirs(outdir, exist_ok=True)
    acc = sorted(n for n in facts["accessor_names"] if n not in ("get", "is_valid", "indent", "needs_newline", "padding"))
    lexicon_only = {n for n, v in facts["accessor_names"].items() if v["classes"] == ["Lexicon"]}
    acc = [n for n in acc if n not in lexicon_only]
    _write(os.path.join(outdir, "accessors.def"), "".join("ACC(%s)\n" % n for n in acc))
    cases = []
    plan = []
    skipped = []
    for f in facts["factories"]:
        if not f["defined"]:
            skipped.append((f["class"], f["name"], "declared but not defined"))
            continue
        if f["name"] in SKIP_NAMES or (f["class"] == "Lexicon" and not f["params"]):
            continue
        sorts = [p["sort"] for p in f["params"]]
        args = [arg_expr(s, j) for j, s in enumerate(sorts)]
        if any(a is None for a in args):
            skipped.append((f["class"], f["name"], "operand sort not in the pools: %s" % [s for s, a in zip(sorts, args) if a is None]))
            continue
        owner = OWNER.get(f["class"], "w.lex")
        qual = "" if f["class"] in OWNER else "ipr::impl::%s::" % f["class"]
        key = "%s::%s(%s)" % (f["class"], f["name"], ",".join(sorts))
        body = "   if (key == \"%s\") {\n" % key
        for j, a in enumerate(args):
            body += "      auto&& a%d = %s;\n" % (j, a)
        body += "      std::string an = %s;\n" % (" + \";\" + ".join("show(a%d)" % j for j in range(len(args))) or "std::string(\"-\")")
        body += "      SWEEP(key.c_str(), an, %s.%s%s(%s))\n" % (owner, qual, f["name"], ", ".join("a%d" % j for j in range(len(args))))
        body += "      return true;\n   }\n"
        cases.append(body)
        plan.append({"key": key, "class": f["class"], "name": f["name"], "sorts": sorts,
                     "sizes": [POOL[s][1] if s in POOL else None for s in sorts],
                     "ret": f["ret"], "result": f["result"], "shape": f["shape"]})
    for k in range(NPARTS):
        _write(os.path.join(outdir, "fsweep_calls_%d.inc" % k), "".join(c for i, c in enumerate(cases) if i % NPARTS == k))
    return plan, skipped
