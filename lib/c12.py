"""C12 — regions form a tree rooted at the global region; owners and positions are right."""
import random
from common import *

HET = {"unit", "sub", "class_body", "union", "namespace", "closure", "block", "handler_body", "where", "module"}


def gen_script(rnd, nops, deep=False):
    ops = ["unit"]
    regions = [("unit", True)]          # (kind, heterogeneous?)
    blocks, mappings, enums, classes, modules = [], [], [], [], []
    for i in range(nops):
        kinds = ["sub", "class", "union", "namespace", "closure", "enum", "block", "handler", "mapping", "lambda", "requires",
                 "morphism", "where", "param", "enumerator", "base", "unit", "module", "munit"]
        w = [6, 5, 2, 3, 2, 3, 8, 6, 4, 3, 2, 2, 2, 4, 3, 3, 1, 1, 1]
        k = rnd.choices(kinds, w)[0]
        idx = len(ops)
        # nest deeply: prefer the most recently created region
        def pick_region(het_only=False):
            cands = [j for j, (_, h) in enumerate(regions) if h or not het_only]
            if deep and rnd.random() < 0.85:
                return cands[-1]
            return rnd.choice(cands)
        if k == "unit" or k == "module":
            ops.append(k); regions.append((k, True))
            if k == "module":
                modules.append(idx)
        elif k == "munit":
            if not modules:
                continue
            ops.append("munit %d" % rnd.choice(modules)); regions.append(("unit", True))
        elif k == "sub":
            ops.append("sub %d" % pick_region(True)); regions.append(("sub", True))
        elif k == "class":
            ops.append("class %d" % pick_region()); regions.append(("class_body", True)); regions.append(("bases", False)); classes.append(idx)
        elif k in ("union", "namespace", "closure"):
            ops.append("%s %d" % (k, pick_region())); regions.append((k, True))
        elif k == "enum":
            ops.append("%s %d" % (rnd.choice(["enum", "lenum"]), pick_region())); regions.append(("enum", False)); enums.append(idx)
        elif k == "block":
            ops.append("block %d" % pick_region()); regions.append(("block", True)); blocks.append(idx)
        elif k == "handler":
            if not blocks:
                continue
            ops.append("handler %d" % rnd.choice(blocks)); regions.append(("eh", False)); regions.append(("handler_body", True))
        elif k in ("mapping", "lambda", "requires", "morphism"):
            ops.append("%s %d" % (k, pick_region())); regions.append((k, False))
            if k == "mapping":
                mappings.append(idx)
        elif k == "where":
            ops.append("where %d" % pick_region()); regions.append(("where", True))
        elif k == "param":
            if not mappings:
                continue
            ops.append("param %d" % rnd.choice(mappings))
        elif k == "enumerator":
            if not enums:
                continue
            ops.append("enumerator %d" % rnd.choice(enums))
        elif k == "base":
            if not classes:
                continue
            ops.append("base %d" % rnd.choice(classes))
    return ";".join(ops)


def oracle(script, out):
    """C12 evaluated on the implementation's own output"""
    errs = []
    ops = script.split(";")
    toks = out.split()
    regs = [t.split(":") for t in toks if t.startswith("r") and t[1:2].isdigit()]
    mem = [t for t in toks if not (t.startswith("r") and t[1:2].isdigit())]
    # expected creation parents / owners from the script
    want = []      # (parent, owner, binds)
    block_region = {}
    for i, o in enumerate(ops):
        w = o.split()
        k = w[0]
        a = int(w[1]) if len(w) > 1 else None
        n = len(want)
        if k in ("unit", "module", "munit"):
            want.append((None, "%d.0" % i, "-"))
        elif k in ("sub", "requires", "morphism", "where"):
            want.append((a, "-", "-"))
        elif k == "class":
            want.append((a, "%d.0" % i, "-")); want.append((a, "%d.0" % i, "-"))
        elif k in ("union", "namespace", "closure", "enum", "lenum", "block", "mapping", "lambda"):
            want.append((a, "%d.0" % i, "-"))
            if k == "block":
                block_region[i] = n
        elif k == "handler":
            outer = want[block_region[a]][0]
            want.append((outer, "-", "%d.2" % i)); want.append((n, "%d.1" % i, "-"))
    if len(regs) != len(want):
        return [("count", "the script creates %d regions, the driver saw %d" % (len(want), len(regs)))]
    for i, (r, (p, o, b)) in enumerate(zip(regs, want)):
        _, parent, owner, glob, depth, root, bind = r
        kind_op = None
        if (parent == "-") != (p is None) or (p is not None and parent != str(p)):
            errs.append(("enclosing", "region %d is enclosed by %s, it was created in region %s" % (i, parent, p)))
        if owner != o:
            errs.append(("owner", "region %d names owner %s, expected %s" % (i, owner, o)))
        if (glob == "1") != (p is None):
            errs.append(("global", "region %d reports global=%s but %s" % (i, glob, "is a unit's root" if p is None else "has an enclosing region")))
        if root in ("?", "stuck"):
            errs.append(("reaches-global", "walking outward from region %d does not reach a global region (%s)" % (i, root)))
        else:
            d = 0; cur = i
            while want[cur][0] is not None:
                cur = want[cur][0]; d += 1
            if int(depth) != d or int(root) != cur:
                errs.append(("reaches-global", "walking outward from region %d takes %s steps to %s, expected %d steps to %d" % (i, depth, root, d, cur)))
        if bind != b:
            errs.append(("handler", "region %d binds %s, expected %s" % (i, bind, b)))
    for m in mem:
        f = dict(x.split("=") for x in m.split(":")[1:])
        if "pos" in f and f["pos"] != f["want"]:
            errs.append(("position", "%s reports position %s, its index is %s" % (m.split(":")[0], f["pos"], f["want"])))
        for k, v in f.items():
            if k.endswith("_ok") or k in ("unnamed", "typed_namespace", "region_is_ns_region", "listed"):
                if v != "1":
                    errs.append(("member:" + k, "%s: %s does not hold" % (m.split(":")[0], k)))
        if "level" in f and f["level"] != "1":
            errs.append(("level", "%s reports level %s, its list was created at level 1" % (m.split(":")[0], f["level"])))
    return errs


def check(res):
    status, out = coq_obligations(res, ["Properties_C12.v"])
    exe = build_driver("region_driver", "asan")
    model = build_model_driver()
    rnd = random.Random(res.seed)
    scripts = ["unit", "unit;block 0;handler 1;handler 1", "unit;class 0;base 1;base 1;mapping 1;param 4;param 4;param 4",
               "unit;lenum 0;enumerator 1;enumerator 1;enum 0;enumerator 4"]
    n = 300 if res.tier == "quick" else 4000
    for i in range(n):
        deep = (i % 3 == 0)
        scripts.append(gen_script(rnd, rnd.choice([5, 20, 60, 200] + ([2500] if res.tier != "quick" and i % 50 == 0 else [])), deep))
    outs, crashes = run_cases(exe, scripts, env=SAN_ENV)
    for idx, err in crashes[:3]:
        res.violation("crash", "region driver aborted (sanitizer report or crash)", {"script": scripts[idx][:2000], "stderr": err})
    ml = run([model, "region"], input="\n".join(sc.replace("lenum", "enum") for sc in scripts) + "\n", timeout=3600).stdout.splitlines()
    keys = set()
    nd = 0
    depths = {}
    nregions = 0
    for i, (sc, o) in enumerate(zip(scripts, outs)):
        if o is None:
            continue
        errs = oracle(sc, o)
        for t in o.split():
            if t.startswith("r") and t[1:2].isdigit():
                d = int(t.split(":")[4]); depths[d] = depths.get(d, 0) + 1; nregions += 1
        for k, what in errs:
            if k not in keys and len(keys) < 10:
                keys.add(k)
                res.violation("oracle:" + k, what, {"script": sc[:3000], "observed": o[:3000], "rerun": "echo '<script>' | build/<hash>/asan/region_driver"})
        if not errs and i < len(ml):
            impl_regions = " ".join(t for t in o.split() if t.startswith("r") and t[1:2].isdigit())
            if impl_regions != ml[i].strip() and not (impl_regions == "" and ml[i].strip() == "-"):
                nd += 1
                if nd <= 3:
                    res.violation("diff", "model (Region.v) and implementation disagree", {"script": sc[:2000], "impl": impl_regions[:1500], "model": ml[i][:1500]}, no_input=True)
    # nesting levels at every width boundary up to 2^64 - 1
    fexe = build_driver("fsweep_driver", "asan", parts=12)
    pl = run([fexe], input="N:levels\n", env=SAN_ENV, timeout=600)
    import re as _re
    ml_ = _re.search(r"levels=(\d+) bad=(\d+) first_bad=(\d+)", pl.stdout)
    if not ml_ or pl.returncode != 0:
        keys.add("crash:levels")
        res.violation("crash:levels", "creating parameter lists at large nesting levels aborted", {"stdout": pl.stdout[-500:], "stderr": pl.stderr[-1500:]})
    elif ml_.group(2) != "0":
        keys.add("oracle:level")
        res.violation("oracle:level", "a parameter list (or its parameter) created at nesting level %s reports another level (%s of %s levels tried read back wrong)" %
                      (ml_.group(3), ml_.group(2), ml_.group(1)), {"observed": pl.stdout.strip(), "rerun": "echo N:levels | build/<hash>/asan/fsweep_driver"})
    # positions in ONE long parameter list / base list / enumeration (past 2^12 and 2^16 members)
    import fsweep
    ll_lines, ll_bad = fsweep.long_lists(res, "", res.tier)
    for l, o, d in ll_bad[:2]:
        k = "oracle:position:long-" + l.split()[1]
        if k not in keys and d.get("bad_position") != "0":
            keys.add(k)
            res.violation(k, "in a %s list of %s members, position() of the member entered at index %s is not %s (%s of the sampled members report a wrong position)" %
                          (l.split()[1], d.get("n"), d.get("first"), d.get("first"), d.get("bad_position")),
                          {"case": l, "observed": o, "rerun": "echo '%s' | build/<hash>/asan/c09_driver" % l})
    if not all(status.values()) and not keys:
        res.violation("coq:Properties_C12.v", "proof obligation no longer checks", {"theorem_file": "Properties_C12.v", "error": coq_error_excerpt(out, "Properties_C12.v")}, no_input=True)
    res.coverage.update({
        "evaluations": len(scripts), "distinct_nontrivial": len(set(scripts)),
        "rule": "seeded construction scripts of 5..200 (thorough: ..2500) operations over all region-opening constructs (units, module units, "
                "sub-regions, classes with base lists, unions, namespaces, closures, enums, blocks, handlers, mappings, lambdas, requires, "
                "function morphisms, where) in random or deeply nested order, plus parameters/enumerators/bases; every region's enclosing(), "
                "owner(), global(), outward walk and handler binding are read back",
        "samples": [scripts[1], scripts[10][:300]],
        "traces_validated_against_impl": min(len(ml), len(outs)),
        "input_distribution": {"regions_created": nregions, "max_depth": max(depths) if depths else 0,
                               "depth_histogram": {str(k): v for k, v in sorted(depths.items())[:25]}},
    })
