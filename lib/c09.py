"""C09 — every node has the type its kind prescribes; sequence types track their members."""
import random
import re
from common import *
import fsweep

CONST = {"Void": "$void", "Bool": "$bool", "Typename": "$typename", "Class": "$class", "Union": "$union",
         "Enum": "$enum", "Namespace": "$namespace"}


def load_rules():
    exe = build_gen_driver()
    rules, source = {}, {}
    for l in run([exe, "c09-rules"], timeout=600).stdout.splitlines():
        m = re.match(r"(\S+) (\S+) (\S+) \| (\S+) (\S+)", l)
        if m:
            rules[m.group(1)] = (m.group(2), m.group(3))
            source[m.group(1)] = (m.group(4), m.group(5))
    return rules, source


def alias_names(acc):
    """names under which the interface may offer the designated sub-node"""
    return {"target": ["target", "second", "operand"], "body": ["body", "second"], "main": ["main", "first"],
            "expr": ["expr", "operand"], "stmt": ["stmt", "second"], "expression": ["expression"], "instance": ["instance"]}.get(acc, [acc])


def judge(cat, rule, d):
    """the prescription evaluated on one dump; returns None if it holds or does not apply, else (want, got)"""
    kind, arg = rule
    got = d.get("type")
    if got is None:
        return None
    if kind == "Fixed":
        want = CONST.get(arg, "?" + arg)
        return None if got == want else (want, got)
    if kind == "FirstOperand":
        want = d.get("first")
        return None if got == want else (want, got)
    if kind == "Borrow":
        for a in alias_names(arg):
            if a + ".type" in d:
                want = d[a + ".type"]
                return None if got == want else ("type of %s() = %s" % (a, want), got)
        # the designated sub-node is not set (or absent): the type must be refused
        return None if got == "E" else ("refused (no %s)" % arg, got)
    if kind == "Members":
        want = "Product" + d.get("elements.types", "?")
        return None if got == want else (want, got)
    return None          # Stored / DeclType: judged against the construction (doc table) in the sweep


def check(res):
    status, out = coq_obligations(res, ["Properties_C09.v"])
    rules, source = load_rules()
    keys = set()
    seen_cats = {}
    # ---- 1. the factory sweep: type() of every factory result
    P = fsweep.load_plan()
    calls = fsweep.tuples(P["plan"], res.seed, res.tier)
    recs, crashes, lines = fsweep.run_sweep(calls)
    for idx, err in crashes[:3]:
        res.violation("crash", "factory sweep aborted (sanitizer report or crash)", {"call": lines[idx], "stderr": err[-3000:]})
    exp = fsweep.model_expect(recs)
    judged = constructed = 0
    for i, r in enumerate(recs):
        if not r or "dump" not in r:
            continue
        d = r["dump"]
        cat = d.get("category")
        if cat is None:
            continue
        seen_cats[cat] = seen_cats.get(cat, 0) + 1
        rule = rules.get(cat)
        if rule is None:
            if "type" in d:
                k = "unprescribed:" + cat
                if k not in keys:
                    keys.add(k)
                    res.violation(k, "nodes of category %s have a type() but Typing.prescribed has no rule for them" % cat, {"call": lines[i]}, no_input=True)
            continue
        bad = judge(cat, rule, d)
        judged += 1
        if bad:
            k = "rule:%s:%s" % (cat, rule[0])
            if k not in keys and len(keys) < 12:
                keys.add(k)
                res.violation(k, "%s built by %s(%s): type() is %s, its kind prescribes %s" % (cat, r["entry"]["key"], ", ".join(r["args"]), bad[1], bad[0]),
                              {"factory": r["entry"]["key"], "indices": r["ix"], "arguments": r["args"], "rule": rule, "observed": bad[1], "prescribed": bad[0],
                               "full_dump": r["raw"], "rerun": "echo '%s' | build/<hash>/asan/fsweep_driver" % lines[i]})
        doc = exp.get(i, (None, None, ""))[0]
        if doc and "type" in doc and rule[0] in ("Stored", "DeclType"):
            constructed += 1
            want = doc["type"][0]
            if d.get("type") != want:
                k = "constructed:%s" % r["entry"]["key"]
                if k not in keys and len(keys) < 12:
                    keys.add(k)
                    res.violation(k, "%s(%s): type() is %s, the node was given %s at construction" % (r["entry"]["key"], ", ".join(r["args"]), d.get("type"), want),
                                  {"factory": r["entry"]["key"], "indices": r["ix"], "arguments": r["args"], "observed": d.get("type"), "given": want,
                                   "rerun": "echo '%s' | build/<hash>/asan/fsweep_driver" % lines[i]})
    # ---- 1b. the same calls again, every result re-read at the end: a type given at construction stays what it was given
    changed, crashed, err = fsweep.reobserve(calls)
    for kind, fkey, fargs, before, after in changed:
        b, a = fsweep.parse_dump(before), fsweep.parse_dump(after)
        if b.get("type") != a.get("type"):
            k = "type-changed-later:" + fkey
            if k not in keys and len(keys) < 12:
                keys.add(k)
                res.violation(k, "the node built by %s(%s) reported type %s when it was built and reports %s after later factory calls" % (fkey, fargs, b.get("type"), a.get("type")),
                              {"factory": fkey, "arguments": fargs, "type_at_construction": b.get("type"), "type_later": a.get("type"),
                               "rerun": "the sweep's call list piped to build/<hash>/asan/fsweep_driver --history, followed by CHECK all"})
    # ---- 2. the zoo: one or more nodes of every category, in built-up states (loops with bodies, handlers, declarations)
    zexe = build_driver("zoo_dump_driver", "asan", parts=8)
    zp = run([zexe], env=SAN_ENV, timeout=600)
    zoo_lines = [l for l in zp.stdout.splitlines() if l.startswith("Z ")]
    if zp.returncode != 0:
        res.violation("crash:zoo", "zoo dump aborted (sanitizer report or crash)", {"stderr": zp.stderr[-3000:]})
    zjudged = 0
    for l in zoo_lines:
        m = re.match(r"Z (\S+) :: (.*)$", l)
        d = fsweep.parse_dump(m.group(2))
        cat = d.get("category")
        if cat is None or cat not in rules:
            continue
        seen_cats[cat] = seen_cats.get(cat, 0) + 1
        bad = judge(cat, rules[cat], d)
        zjudged += 1
        if bad:
            k = "rule:%s:%s" % (cat, rules[cat][0])
            if k not in keys and len(keys) < 12:
                keys.add(k)
                res.violation(k, "zoo node %s (%s): type() is %s, its kind prescribes %s" % (m.group(1), cat, bad[1], bad[0]),
                              {"zoo_label": m.group(1), "rule": rules[cat], "observed": bad[1], "prescribed": bad[0], "full_dump": m.group(2)[:3000],
                               "rerun": "build/<hash>/asan/zoo_dump_driver | grep '^Z %s '" % m.group(1)})
    # ---- 3. growing sequences: type() re-read after every addition
    rnd = random.Random(res.seed)
    gexe = build_driver("c09_driver", "asan")
    n = 60 if res.tier == "quick" else 1500
    glines = []
    for i in range(n):
        kind = ["scope", "param", "base", "enum", "xlist"][i % 5]
        ln = rnd.choice([0, 1, 2, 5, 12, 30] + ([300] if res.tier != "quick" and i % 40 == 0 else []))
        glines.append("%s %s" % (kind, " ".join(str(rnd.randrange(8)) for _ in range(ln))))
    # long members lists: past 256 and 512 members (and 4096 in the thorough tier), no two neighbours of the same type
    for kind in ("scope", "param", "base", "enum", "xlist"):
        for ln in ([600] if res.tier == "quick" else [600, 1100]):      # longer lists: the `long` mode below (the model re-reads after every addition, cubic cost)
            glines.append("%s %s" % (kind, " ".join(str((j * 3 + j // 8) % 8) for j in range(ln))))
    gouts, gcr = run_cases(gexe, glines, env=SAN_ENV)
    for idx, err in gcr[:2]:
        res.violation("crash:growth", "sequence growth driver aborted", {"script": glines[idx], "stderr": err[-3000:]})
    model = build_gen_driver()
    KIND = {"scope": "Scope", "param": "Parameter_list", "base": "Scope", "enum": "Scope", "xlist": "Expr_list"}
    minp = "".join("%s %s\n" % (KIND[l.split()[0]], " ".join(l.split()[1:])) for l in glines)
    mouts = run([model, "c09-growth"], input=minp, timeout=1200).stdout.splitlines()
    additions = 0
    for gl, go, mo in zip(glines, gouts, mouts):
        if go is None:
            continue
        kind = gl.split()[0]
        ts = gl.split()[1:]
        steps = go.split(" :: ", 1)[1].split("|")
        want = ["[" + ",".join(("?Enum" if kind == "enum" else "T" + t) for t in ts[:k]) + "]" for k in range(len(ts) + 1)]
        got = steps[:len(ts) + 1]
        early = [s for s in steps if s.startswith("early=")]
        additions += len(ts)
        if got != want or not early or early[0] != "early=" + want[-1]:
            k = "growth:" + kind
            if k not in keys:
                keys.add(k)
                bad_at = next((j for j, (a, b) in enumerate(zip(got, want)) if a != b), len(want))
                res.violation(k, "%s: after %d additions type() lists %s, the members' types are %s" %
                              (kind, bad_at, got[bad_at] if bad_at < len(got) else early, want[min(bad_at, len(want) - 1)]),
                              {"script": gl, "observed": go[:3000], "expected_steps": want[:40], "rerun": "echo '%s' | build/<hash>/asan/c09_driver" % gl})
        mwant = "|".join("[" + ",".join(ts[:k]) + "]" for k in range(len(ts) + 1))
        if mo.strip() != mwant and "model-growth" not in keys:
            keys.add("model-growth")
            res.violation("model-growth", "the extracted model (Typing.type_of over add_member) does not list the members' types", {"script": gl, "model": mo[:500]}, no_input=True)
    # symbols and id-expressions named by a reserved word: the type is still the one requested
    nres, rbad = fsweep.reserved_names(60)
    for l, word, t, d in rbad[:1]:
        if "constructed:reserved-name" not in keys and (d.get("symbol.type") != t or d.get("id_expr.type") != t):
            keys.add("constructed:reserved-name")
            res.violation("constructed:reserved-name", "get_symbol / make_id_expr requested with the reserved word `%s` as name and type %s: the symbol has type %s, the id-expression %s" %
                          (word, t, d.get("symbol.type"), d.get("id_expr.type")), {"observed": l, "rerun": "echo 'N:reserved <index of the word> <type index>' | build/<hash>/asan/fsweep_driver"})
    # one name declared over and over with array types of unknown and known bound: every declaration keeps the type it was given
    pa = run([gexe], input="arrays\n", env=SAN_ENV, timeout=600)
    ma = re.search(r"ARRAYS declarations=(\d+) bad=(\d+) first=(\S+)", pa.stdout)
    if pa.returncode != 0 or not ma:
        keys.add("crash:arrays")
        res.violation("crash:arrays", "declaring arrays of unknown and known bound under one name aborted", {"stderr": pa.stderr[-2000:], "stdout": pa.stdout[-300:]})
    elif ma.group(2) != "0":
        keys.add("constructed:redeclared-array")
        res.violation("constructed:redeclared-array", "one name declared %s times with array types of unknown / known bound: %s declarations (first: #%s) do not report the type they were "
                      "declared with (type() of the declaration, of the id-expression naming it, or the scope's type at its position)" % (ma.group(1), ma.group(2), ma.group(3)),
                      {"observed": ma.group(0), "rerun": "echo arrays | build/<hash>/asan/c09_driver"})
    ll_lines, ll_bad = fsweep.long_lists(res, "", res.tier)
    for l, o, d in ll_bad[:2]:
        k = "growth:long-list:" + l.split()[1]
        if k not in keys and (d.get("bad_product") != "0" or d.get("bad_type") != "0" or d.get("bad_member") != "0" or d.get("error") != "-"):
            keys.add(k)
            res.violation(k, "the type of a %s list of %s members is not the product of its members' types in order: first difference at position %s" %
                          (l.split()[1], d.get("n"), d.get("first")), {"case": l, "observed": o, "rerun": "echo '%s' | build/<hash>/asan/c09_driver" % l})
    if not all(status.values()) and not any(k.startswith(("rule:", "constructed:", "growth:")) for k in keys):
        res.violation("coq:Properties_C09.v", "proof obligation no longer checks", {"theorem_file": "Properties_C09.v", "error": coq_error_excerpt(out, "Properties_C09.v")}, no_input=True)
    unseen = sorted(c for c in rules if c not in seen_cats)
    by_rule = {}
    for c, n_ in seen_cats.items():
        if c in rules:
            by_rule[rules[c][0]] = by_rule.get(rules[c][0], 0) + n_
    res.coverage.update({
        "evaluations": len(calls) + len(zoo_lines) + len(glines), "distinct_nontrivial": len(set(lines)) + len(zoo_lines) + len(set(glines)),
        "rule": "type() of the result of every factory call of the sweep (see C02) and of every node of the zoo (>= 1 node of each category, built-up "
                "states) is judged against the prescription table by rule: fixed constants, first operand, type of the designated sub-node (or refusal when "
                "it is not set), product of the members' types; types given at construction are compared with the argument; scopes, parameter lists, base "
                "lists, enumerations and expression lists are grown by 0..30 (thorough: ..300) additions and type() is re-read after each, including through a "
                "reference obtained before the first addition",
        "samples": lines[:1] + zoo_lines[:1] + glines[:2],
        "traces_validated_against_impl": judged + zjudged + len(glines),
        "input_distribution": {"sweep_nodes_judged": judged, "of_which_typed_at_construction": constructed, "zoo_nodes_judged": zjudged,
                               "growth_scripts": len(glines), "additions": additions, "nodes_by_rule": by_rule,
                               "prescribed_categories": len(rules), "prescribed_categories_never_observed": unseen},
    })
