"""C03 — words are interned: one String node per distinct content, content preserved."""
import random
import re
from common import *
import facts as factsmod


def gen_stream(tier, seed, known, fams=()):
    rnd = random.Random(seed)
    ws = []          # ("H", bytes) or ("G", len, seed)

    def H(b):
        ws.append(("H", bytes(b)))
    # lengths across the inline-header (8), granule (16k+8) boundaries
    for n in list(range(0, 42)) + [8 * k + d for k in range(6, 12) for d in (-1, 0, 1)] + [16 * k + 8 + d for k in range(3, 9) for d in (-1, 0, 1)]:
        H(bytes(rnd.randrange(256) for _ in range(n)))
    # all byte values, embedded NULs
    H(bytes(range(256))); H(b"\0"); H(b"\0\0"); H(b"a\0b"); H(b"a\0c"); H(b"a"); H(b"a\0")
    # equal-length neighbours differing in one byte (first, middle, last)
    base = bytes(rnd.randrange(256) for _ in range(24))
    for pos in (0, 11, 23):
        b = bytearray(base); b[pos] ^= 1; H(b)
    H(base)
    # reserved words, proper prefixes, one-byte extensions and edits
    for w in known:
        b = w.encode()
        H(b); H(b[:-1]); H(b + b"x"); H(b + b"\0"); H(b"x" + b)
        e = bytearray(b); e[len(b) // 2] ^= 0x20; H(e)
    # words with EQUAL std::hash codes (built by inverting the hash): what the pool does inside one slot. Each family holds
    # words of different lengths, a word and a strict prefix of it, equal-length members; every member is interned, then
    # every member again, in an order that differs from family to family
    for fam in fams:
        for w in fam:
            H(w)
        for w in reversed(fam):
            H(w)
    # random short words with many repeats
    nshort = 1500 if tier == "quick" else 3000
    pool = []
    for i in range(nshort):
        if pool and rnd.random() < 0.4:
            H(rnd.choice(pool))
        else:
            n = rnd.choice([1, 2, 3, 5, 7, 8, 9, 15, 16, 17, 23, 24, 25, 31, 40])
            alpha = rnd.choice([2, 4, 256])
            b = bytes(rnd.randrange(alpha) for _ in range(n))
            pool.append(b); H(b)
    # pool-capacity and oversize boundaries (generated big words)
    big = [("G", 900000, 1), ("G", 60000, 2), ("G", 60000, 3), ("G", 65536, 4), ("G", 65537, 5),
           ("G", 30000, 6), ("G", 30000, 6), ("G", 70000, 7), ("G", 5000, 8), ("G", 65535, 9)]
    # words of 64 KiB .. 1 MiB whose length is 9..15 modulo 16 (the last header of the word is only partly used), asked for when the
    # current pool is nearly full, each followed by a short word and asked for again
    big[1:1] = [("G", 100009, 50), ("G", 40, 53), ("G", 100009, 50), ("G", 70013, 51), ("G", 24, 54), ("G", 70013, 51),
                ("G", 200015, 52), ("G", 9, 55), ("G", 200015, 52), ("G", 524299, 56), ("G", 17, 57), ("G", 524299, 56)]
    # words around the size from which a word gets a pool of its own (1 MiB minus the length prefix)
    big += [("G", 1048567, 30), ("G", 1048568, 31), ("G", 1048569, 32), ("G", 1048572, 33), ("G", 1048576, 34), ("G", 1048577, 35), ("G", 40, 36)]
    if tier != "quick":
        big += [("G", 1048560, 10), ("G", 1048576 - 24, 11), ("G", 1048576 + 24, 12), ("G", 3 * 1048576, 13),
                ("G", 1048000, 14), ("G", 600, 15), ("G", 3 * 1048576, 13)] + [("G", 50000 + i, 20 + i) for i in range(40)]
    ws += big
    # repeats at a distance (after pool roll-over)
    for b in pool[:50]:
        H(b)
    H(bytes(range(256)))
    return ws


def line_of(w):
    if w[0] == "H":
        return "H " + (w[1].hex() if w[1] else "-")
    return "G %d %d" % (w[1], w[2])


def content_key(w):
    return w if w[0] == "G" else ("H", w[1])


def check(res):
    f = factsmod.get_facts()
    status, out = coq_obligations(res, ["Properties_C03.v"])
    coq_failed = not all(status.values())
    exe = build_driver("c03_driver", "asan")
    gen = build_gen_driver()
    known = f["words"]["known_words"]["rows"]
    import hashcollide
    fams, hnote = hashcollide.confirmed_families(res.seed, 12 if res.tier == "quick" else 200)
    if res.tier == "quick":
        streams = [gen_stream("quick", res.seed, known, fams)]
    else:
        # several independent streams (a fresh pool each) side by side rather than one very long one: the extracted model's cost
        # grows much faster than the stream
        streams = [gen_stream("quick" if k else "thorough-big", res.seed * 100 + k, known, fams[k * 12:(k + 1) * 12]) for k in range(16)]
    import concurrent.futures as cf
    shared = {"keys": set(), "lens": {}, "first_n": 0, "tags": set(), "validated": 0, "n": 0}
    with cf.ThreadPoolExecutor(max_workers=NCPU) as ex:
        list(ex.map(lambda ws: one_stream(res, ws, known, exe, gen, coq_failed, shared), streams))
    keys, lens = shared["keys"], shared["lens"]
    ws = streams[0]
    huge_words(res, exe, keys, "oracle:")
    zero_hash_first(res, exe, keys, "oracle:")
    seen_k, kept = {}, []
    for v in res.violations:                      # the same key from several streams counts once (at most 3 for model differences)
        seen_k[v["key"]] = seen_k.get(v["key"], 0) + 1
        if seen_k[v["key"]] <= (3 if v["key"].startswith("diff:") else 1):
            kept.append(v)
    res.violations[:] = kept
    if coq_failed and not keys:
        res.violation("coq:Properties_C03.v", "proof obligation no longer checks",
                      {"theorem_file": "Properties_C03.v", "error": coq_error_excerpt(out, "Properties_C03.v")}, no_input=True)
    tags = ",".join(sorted(shared["tags"]))
    res.coverage.update({
        "evaluations": shared["n"], "distinct_nontrivial": shared["first_n"],
        "rule": "word stream: every length 0..41 and around the 8-byte inline and 16-byte granule boundaries; all 256 byte values, embedded NULs; "
                "one-byte neighbours; every reserved word with prefix/extension/edit near misses; seeded short words with 40% repeats; generated big "
                "words crossing pool capacity and the oversize path; repeats after pool roll-over; families of distinct words with EQUAL std::hash codes "
                "(different lengths, strict prefixes of one another, equal lengths), each interned twice; one word of 2^31 + 8 bytes interned twice (implementation only). distinct non-trivial = distinct non-empty contents",
        "samples": [line_of(w)[:120] for w in (ws[5], ws[60], ws[len(ws) // 2], ws[-5])],
        "traces_validated_against_impl": shared["validated"],
        "input_distribution": {"length_histogram_top": {str(k): v for k, v in sorted(lens.items(), key=lambda kv: -kv[1])[:12]},
                               "max_length": max(lens) if lens else 0, "reserved_words": len(known), "total_words": shared["n"], "streams": len(streams),
                               "equal_hash_words": hnote},
        "model_branch_tags_hit": tags.split(","),
    })
    want = {"empty", "reserved", "hit", "miss", "miss-collide"}
    if not want <= set(tags.split(",")):
        res.notes.append("generator adequacy: intern branches never hit in the model: %s" % sorted(want - set(tags.split(","))))
    res.assumptions += ["std::hash is an arbitrary function (the theorems quantify over every hash; the model run uses a deliberately weak one)",
                        "real memory effects of std::copy are observed through ASan only"]


HUGE = ["H 6162", "G 2147483656 77", "G 2147483656 77", "H 6162"]


def gen_prefix(seed, n):
    return bytes(((seed * 31 + i * 131 + (i >> 8) * 7 + (i >> 16)) & 0xff) for i in range(n))


def huge_words(res, exe, keys, prefix):
    _huge(res, exe, keys, prefix, HUGE, 14, [0, 1, 1, 0], "2147483656")
    if res.tier != "quick":
        # thorough tier: a word of 2^32 + 5 bytes, after its own first five bytes were interned as a word (about 18 GB resident)
        stream = ["H " + gen_prefix(79, 5).hex(), "G 4294967301 79", "G 4294967301 79", "H " + gen_prefix(79, 5).hex()]
        _huge(res, exe, keys, prefix, stream, 26, [0, 1, 1, 0], "4294967301")


def _huge(res, exe, keys, prefix, HUGE, need_gb, want_ids, size_txt):
    """a word of 2^31 + 8 bytes (lengths that do not fit an int), interned twice, between two requests of a short word; implementation only
    (about 9 GB resident under ASan, half a minute)"""
    try:
        free_kb = int(re.search(r"MemAvailable:\s+(\d+)", open("/proc/meminfo").read()).group(1))
    except Exception:
        free_kb = 0
    if free_kb < need_gb * 1024 * 1024:
        res.notes.append("huge-word run (%s bytes) skipped: less than %d GB of memory available" % (size_txt, need_gb))
        return
    p = run([exe], input="\n".join(HUGE) + "\n", timeout=1800, env=SAN_ENV)
    il = p.stdout.splitlines()
    if p.returncode != 0 or len(il) != len(HUGE) + 1:
        k = "crash:huge-word"
        if k not in keys:
            keys.add(k)
            res.violation(k, "interning a word of %s bytes aborted (sanitizer report or crash) at request %d" % (size_txt, min(len(il), len(HUGE) - 1)),
                          {"stream": HUGE, "stderr": p.stderr[-3000:], "rerun": "printf '%s\\n' | build/<hash>/asan/c03_driver" % "\\n".join(HUGE)})
        return
    ids = [int(dict(x.split("=") for x in l.split())["id"]) for l in il[:-1]]
    rb = il[-1].split("=", 1)[1]
    if ids != want_ids or "0" in rb:
        k = prefix + "huge-word"
        if k not in keys:
            keys.add(k)
            res.violation(k, "a word of %s bytes interned twice between two requests of a short word: node classes %s (expected %s), characters preserved: %s" % (size_txt, ids, want_ids, rb),
                          {"stream": HUGE, "observed": il, "rerun": "printf '%s\\n' | build/<hash>/asan/c03_driver" % "\\n".join(HUGE)})


def zero_hash_first(res, exe, keys, prefix):
    """the very first word a fresh pool interns has std::hash code 0 (built by inverting the hash), then ordinary words, then other
    zero-hash words: implementation only"""
    import hashcollide
    ws = [hashcollide.extend_to(b"", 0), b"ab", hashcollide.extend_to(b"zerohash", 0), hashcollide.extend_to(b"", 0), b"ab"]
    fams, note = hashcollide.confirmed_families(1, 1)
    if not fams:
        return                                   # the standard library's hash is not the one inverted here
    stream = ["H " + w.hex() for w in ws]
    p = run([exe], input="\n".join(stream) + "\n", timeout=600, env=SAN_ENV)
    il = p.stdout.splitlines()
    if p.returncode != 0 or len(il) != len(ws) + 1:
        k = "crash:zero-hash-first"
        if k not in keys:
            keys.add(k)
            res.violation(k, "a fresh pool whose first word has std::hash code 0: interning aborted (sanitizer report or crash) at request %d" % min(len(il), len(ws) - 1),
                          {"stream": stream, "stderr": p.stderr[-3000:], "rerun": "printf '%s\\n' | build/<hash>/asan/c03_driver" % "\\n".join(stream)})
        return
    ids = [int(dict(x.split("=") for x in l.split())["id"]) for l in il[:-1]]
    rb = il[-1].split("=", 1)[1]
    if ids != [0, 1, 2, 0, 1] or "0" in rb:
        k = prefix + "zero-hash-first"
        if k not in keys:
            keys.add(k)
            res.violation(k, "a fresh pool whose first word has std::hash code 0: node classes %s (expected [0, 1, 2, 0, 1]), characters preserved: %s" % (ids, rb),
                          {"stream": stream, "observed": il})


def one_stream(res, ws, known, exe, gen, coq_failed, shared):
    keys = shared["keys"]
    lens = shared["lens"]
    # normalise generated words that coincide with literal ones: none by construction (G >= 600 bytes)
    text = "\n".join(line_of(w) for w in ws) + "\n"
    pi = run([exe], input=text, timeout=3600, env=SAN_ENV)
    il = pi.stdout.splitlines()
    if pi.returncode != 0 or len(il) != len(ws) + 1:
        idx = min(len(il), len(ws) - 1)
        res.violation("crash", "interning aborted (sanitizer report or crash) at word %d" % idx,
                      {"word": line_of(ws[idx])[:200], "stderr": pi.stderr[-3000:], "stream_prefix_lines": idx + 1,
                       "rerun": "c03_driver < stream (asan build)"})
        keys.add("crash")
        return
    # oracle on the implementation alone
    first = {}

    def viol(key, what, replay):
        if key not in keys and len(keys) < 8:
            keys.add(key)
            res.violation("oracle:" + key, what, replay)
    id_owner = {}
    for i, (w, l) in enumerate(zip(ws, il)):
        d = dict(x.split("=") for x in l.split())
        ck = content_key(w)
        n = len(w[1]) if w[0] == "H" else w[1]
        lens[n] = lens.get(n, 0) + 1
        nid = int(d["id"])
        if ck in first:
            if nid != first[ck]:
                viol("identity:split", "equal contents interned at lines %d and %d gave different String nodes" % (first[ck], i),
                     {"word": line_of(w)[:200], "lines": [first[ck], i]})
        else:
            first[ck] = i
            if nid != i:
                viol("identity:merge", "different contents (lines %d and %d) share one String node" % (nid, i),
                     {"words": [line_of(ws[nid])[:200], line_of(w)[:200]]})
        is_const = (w[0] == "H" and (w[1] == b"" or w[1].decode("latin-1") in known))
        if d["const"] != "-" and (d["const"] == "1") != is_const:
            viol("constant:" + ("reserved" if is_const else "dynamic"),
                 "word %s: process-wide constant expected=%s observed=%s" % (line_of(w)[:80], is_const, d["const"]), {"word": line_of(w)[:200]})
    rb = il[-1].split("=", 1)[1]
    if "0" in rb:
        i = rb.index("0")
        viol("content", "String returned for word %d no longer has the characters that were interned" % i,
             {"word": line_of(ws[i])[:200], "stream_prefix_lines": len(ws)})
    # correspondence with the extracted model
    pm = run(["bash", "-c", 'ulimit -s unlimited && exec "$0" "$@"', gen, "c03"], input=text, timeout=3600)
    ml = pm.stdout.splitlines()
    tags = ""
    if ml and ml[-1].startswith("tags="):
        tags = ml[-1][5:]
        ml = ml[:-1]
    if not keys:
        if len(ml) != len(il):
            res.violation("diff:lines", "model printed %d lines, implementation %d" % (len(ml), len(il)),
                          {"stderr": pm.stderr[-1500:]}, no_input=True)
        nd = 0
        for i, (a, b) in enumerate(zip(il, ml)):
            if a != b:
                nd += 1
                if nd <= 3:
                    res.violation("diff:placement" if "pool=" in a and a.split()[0] == b.split()[0] else "diff:identity",
                                  "model (Arena.v) and implementation disagree at word %d" % i,
                                  {"correspondence": "Arena.v (extracted) vs util::string_pool", "word": line_of(ws[i])[:200] if i < len(ws) else "readback",
                                   "impl": a[:300], "model": b[:300]}, no_input=True)
    shared["n"] += len(ws)
    shared["first_n"] += len([k for k in first if (k[0] == "G" or len(k[1]) > 0)])
    shared["validated"] += min(len(il), len(ml))
    shared["tags"].update(t for t in tags.split(",") if t)
