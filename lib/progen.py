"""Random programs of the printable fragment, as S-expressions for harness/progbuild.h."""

UNARY = ["address", "complement", "deref", "not", "postinc", "postdec", "preinc", "predec", "throw", "neg", "pos", "sizeof",
         "typeid", "argsn", "noexcept", "delete", "adelete"]
BINARY = ["and", "arrayref", "arrow", "arrowstar", "assign", "bitand", "bitandeq", "bitor", "bitoreq", "bitxor", "bitxoreq", "comma",
          "div", "diveq", "dot", "dotstar", "eq", "gt", "ge", "lt", "le", "shl", "shleq", "sub", "subeq", "mod", "modeq", "mul",
          "muleq", "ne", "or", "add", "addeq", "scope", "shr", "shreq", "member_init"]
ATOMS = ["int", "bool", "char", "void", "double", "long", "uint", "short", "float"]
CATEGORY = {   # form -> node category it creates (for the coverage report)
    "address": "Address", "complement": "Complement", "deref": "Deref", "not": "Not", "postinc": "Post_increment", "postdec": "Post_decrement",
    "preinc": "Pre_increment", "predec": "Pre_decrement", "throw": "Throw", "neg": "Unary_minus", "pos": "Unary_plus", "sizeof": "Sizeof",
    "typeid": "Typeid", "argsn": "Args_cardinality", "noexcept": "Noexcept", "delete": "Delete", "adelete": "Array_delete",
    "and": "And", "arrayref": "Array_ref", "arrow": "Arrow", "arrowstar": "Arrow_star", "assign": "Assign", "bitand": "Bitand",
    "bitandeq": "Bitand_assign", "bitor": "Bitor", "bitoreq": "Bitor_assign", "bitxor": "Bitxor", "bitxoreq": "Bitxor_assign", "comma": "Comma",
    "div": "Div", "diveq": "Div_assign", "dot": "Dot", "dotstar": "Dot_star", "eq": "Equal", "gt": "Greater", "ge": "Greater_equal", "lt": "Less",
    "le": "Less_equal", "shl": "Lshift", "shleq": "Lshift_assign", "sub": "Minus", "subeq": "Minus_assign", "mod": "Modulo", "modeq": "Modulo_assign",
    "mul": "Mul", "muleq": "Mul_assign", "ne": "Not_equal", "or": "Or", "add": "Plus", "addeq": "Plus_assign", "scope": "Scope_ref", "shr": "Rshift",
    "shreq": "Rshift_assign", "member_init": "Member_init", "lit": "Literal", "id": "Id_expr", "sym": "Symbol", "this": "Symbol", "encl": "Enclosure",
    "list": "Expr_list", "call": "Call", "cond": "Conditional", "cast": "Cast", "construct": "Construction", "ptr": "Pointer", "ref": "Reference",
    "rref": "Rvalue_reference", "const": "Qualified", "volatile": "Qualified", "cv": "Qualified", "array": "Array", "fn": "Function", "fnx": "Function",
    "product": "Product", "sum": "Sum", "ptm": "Ptr_to_member", "decltype": "Decltype", "astype": "As_type", "named": "As_type",
    "expr": "Expr_stmt", "return": "Return", "goto": "Goto", "break": "Break", "continue": "Continue", "if": "If", "ife": "If", "while": "While",
    "do": "Do", "switch": "Switch", "for": "For", "labeled": "Labeled_stmt", "block": "Block", "try": "Block", "catch": "Handler",
    "var": "Var", "field": "Field", "bitfield": "Bitfield", "alias": "Alias", "class": "Class", "union": "Union", "namespace": "Namespace",
    "enum": "Enum", "fun": "Fundecl", "new": "New", "tid": "Template_id", "label": "Label", "idop": "Operator", "idconv": "Conversion",
    "idctor": "Ctor_name", "iddtor": "Dtor_name", "idsuffix": "Suffix", "forin": "For_in",
}
# categories a form creates besides its own
IMPLIED = {"class": ["Typedecl", "Scope", "Base_type", "Identifier"], "union": ["Typedecl", "Scope"], "namespace": ["Typedecl", "Scope"],
           "enum": ["Typedecl", "Enumerator"], "fun": ["Mapping", "Parameter", "Function", "Product", "Phantom", "Identifier"],
           "cast": ["Const_cast", "Dynamic_cast", "Reinterpret_cast", "Static_cast"], "named": ["Identifier"], "id": ["Identifier"],
           "catch": ["EH_parameter"], "tid": ["Expr_list"], "new": ["Construction", "Enclosure"], "decltype": ["Type_id"]}


class Gen:
    def __init__(self, rnd, budget):
        self.rnd = rnd
        self.budget = budget
        self.names = 0
        self.forms = {}

    def use(self, f):
        self.forms[f] = self.forms.get(f, 0) + 1
        self.budget -= 1

    def spell(self, k):
        # spellings of every length from 3 to 48 (k determines the spelling, so that names can be referred to again)
        r2 = (k * 2654435761) & 0xffffffff
        base = "n%s%d" % ("abcdefgh"[r2 % 8], k)
        want = 3 + (r2 >> 8) % 46
        return base + "_" * max(0, want - len(base) - 1) + ("z" if want > len(base) else "")

    def name(self):
        self.names += 1
        return self.spell(self.names)

    def old_name(self):
        return self.spell(self.rnd.randrange(1, max(2, self.names + 1)))

    def hexlit(self):
        r = self.rnd
        k = r.random()
        if k < 0.6:
            s = str(r.randrange(0, 100000)).encode()
        elif k < 0.8:
            s = bytes(r.choice(b"abcXYZ _+-*/'\"?") for _ in range(r.randrange(1, 9)))
        else:
            s = bytes(r.randrange(0, 256) for _ in range(r.randrange(1, 6)))         # any byte, control characters included
        return s.hex() or "-"

    def type(self, depth=0):
        r = self.rnd
        if depth > 3 or self.budget <= 0 or r.random() < 0.45:
            return r.choice(ATOMS)
        f = r.choice(["ptr", "ref", "rref", "const", "volatile", "cv", "array", "fn", "ptm", "decltype", "named", "product", "ptr", "const"])
        self.use(f)
        if f == "array":
            return "(array %s %s)" % (self.type(depth + 1), self.expr(depth + 2))
        if f == "fn":
            if r.random() < 0.5:
                # function types that differ only in their exception specification (few shapes, so that they meet in one unit)
                self.use("fnx")
                return "(fnx %s (id %s bool) %s)" % (r.choice(["int", "void"]), r.choice(["nx1", "nx2", "nx3"]), r.choice(["", "int", "int char"]))
            return "(fn %s)" % " ".join(self.type(depth + 1) for _ in range(r.randrange(1, 4)))
        if f == "product":
            return "(ptr (fn int %s))" % " ".join(self.type(depth + 1) for _ in range(r.randrange(0, 3)))
        if f == "ptm":
            return "(ptm %s %s)" % (self.type(depth + 1), self.type(depth + 1))
        if f == "decltype":
            return "(decltype %s)" % self.expr(depth + 2)
        if f == "named":
            return "(named %s)" % self.old_name()
        inner = self.type(depth + 1)
        if f in ("const", "volatile", "cv") and inner.startswith(("(const", "(volatile", "(cv")):
            return inner
        return "(%s %s)" % (f, inner)

    def expr(self, depth=0):
        r = self.rnd
        if depth > 5 or self.budget <= 0 or r.random() < 0.25:
            k = r.random()
            if k < 0.45:
                self.use("lit"); return "(lit %s %s)" % (r.choice(ATOMS[:3] + ["long"]), self.hexlit())
            if k < 0.85:
                self.use("id"); return "(id %s %s)" % (self.old_name(), r.choice(ATOMS))
            if k < 0.9:
                self.use("sym"); return "(sym %s %s)" % (self.old_name(), r.choice(ATOMS))
            return r.choice(["true", "false", "nullptr"])
        k = r.random()
        if k < 0.5:
            f = r.choice(BINARY); self.use(f)
            return "(%s %s %s)" % (f, self.expr(depth + 1), self.expr(depth + 1))
        if k < 0.7:
            f = r.choice(UNARY); self.use(f)
            return "(%s %s)" % (f, self.expr(depth + 1))
        f = r.choice(["call", "cond", "cast", "construct", "encl", "list", "type", "this", "new", "tid", "label", "idop", "idconv", "idctor", "iddtor", "idsuffix"])
        self.use(f)
        if f == "call":
            return "(call %s)" % " ".join(self.expr(depth + 1) for _ in range(r.randrange(1, 4)))
        if f == "cond":
            return "(cond %s %s %s)" % (self.expr(depth + 1), self.expr(depth + 1), self.expr(depth + 1))
        if f == "cast":
            return "(cast %s %s %s)" % (r.choice(["c", "const", "dyn", "reint", "static"]), self.type(depth + 1), self.expr(depth + 1))
        if f == "construct":
            return "(construct %s %s)" % (self.type(depth + 1), self.expr(depth + 1))
        if f == "encl":
            return "(encl %d %s)" % (r.randrange(0, 5), self.expr(depth + 1))
        if f == "list":
            return "(encl 2 (list %s))" % " ".join(self.expr(depth + 1) for _ in range(r.randrange(0, 4)))
        if f == "type":
            return "(type %s)" % self.type(depth + 1)
        if f == "new":
            return "(new %s %s)" % (self.type(depth + 1), self.expr(depth + 1))
        if f == "tid":
            return "(tid (scope (id %s int) (id %s int)) %s)" % (self.old_name(), self.old_name(), " ".join(self.expr(depth + 2) for _ in range(r.randrange(0, 3))))
        if f == "label":
            return "(label %s)" % self.old_name()
        if f == "idop":
            return "(idop %s %s)" % (r.choice(["+", "-", "<<", "()", "[]", "new", "delete", "==", "->"]).encode().hex(), r.choice(ATOMS))
        if f == "idconv":
            return "(idconv %s)" % self.type(depth + 2)
        if f in ("idctor", "iddtor"):
            return "(%s (named %s))" % (f, self.old_name())
        if f == "idsuffix":
            return "(idsuffix %s %s)" % (self.old_name(), r.choice(ATOMS))
        return "(this (ptr %s))" % r.choice(ATOMS)

    def stmt(self, depth=0, in_block=False):
        r = self.rnd
        if depth > 6 or self.budget <= 0 or r.random() < 0.3:
            f = r.choice(["expr", "expr", "return", "goto", "break", "continue"]); self.use(f)
            if f in ("break", "continue"):
                return "(%s)" % f
            return "(%s %s)" % (f, self.expr(3))
        f = r.choice(["if", "ife", "while", "do", "switch", "for", "labeled", "block", "block", "try"] + (["decl", "forin"] if in_block else []))
        self.use(f)
        if f == "if":
            return "(if %s %s)" % (self.expr(3), self.stmt(depth + 1, in_block))
        if f == "ife":
            return "(ife %s %s %s)" % (self.expr(3), self.stmt(depth + 1, in_block), self.stmt(depth + 1, in_block))
        if f in ("while", "do", "switch"):
            return "(%s %s %s)" % (f, self.expr(3), self.stmt(depth + 1, in_block))
        if f == "for":
            return "(for %s %s %s %s)" % (self.expr(3), self.expr(3), self.expr(3), self.stmt(depth + 1, in_block))
        if f == "forin":
            return "(forin (var %s %s) %s %s)" % (self.name(), self.type(2), self.expr(3), self.stmt(depth + 1, in_block))
        if f == "labeled":
            return "(labeled (id %s int) %s)" % (self.name(), self.stmt(depth + 1, in_block))
        if f == "block":
            return "(block %s)" % " ".join(self.stmt(depth + 1, True) for _ in range(r.randrange(0, 4)))
        if f == "try":
            body = " ".join(self.stmt(depth + 1, True) for _ in range(r.randrange(0, 3)))
            hs = []
            for _ in range(r.randrange(1, 3)):
                self.use("catch")
                hs.append("(catch %s %s %s)" % (self.name(), self.type(2), " ".join(self.stmt(depth + 1, True) for _ in range(r.randrange(0, 3)))))
            return "(try (%s) %s)" % (body, " ".join(hs))
        return "(decl %s)" % self.decl(depth + 1, allow=("var",))

    def decl(self, depth=0, allow=None, member=False):
        r = self.rnd
        kinds = list(allow) if allow else (["var", "var", "fun", "class", "union", "enum", "namespace", "alias"] if not member else
                                          ["field", "field", "bitfield", "var", "fun", "class", "enum"])
        if depth > 2:
            kinds = [k for k in kinds if k in ("var", "field", "bitfield", "alias")] or ["var"]
        f = r.choice(kinds)
        self.use(f)
        n = self.name()
        if f == "var":
            if r.random() < 0.6:
                spec = " %d" % r.choice([0, 0, 2, 4, 64, 128]) if r.random() < 0.3 else ""
                return "(var %s %s %s%s)" % (n, self.type(1), self.expr(2), spec)
            return "(var %s %s)" % (n, self.type(1))
        if f == "field":
            return "(field %s %s)" % (n, self.type(1))
        if f == "bitfield":
            return "(bitfield %s %s %s)" % (n, r.choice(["int", "uint", "char"]), self.expr(4))
        if f == "alias":
            return "(alias %s (type %s))" % (n, self.type(1))
        if f == "class":
            bases = " ".join("(named %s)" % self.old_name() for _ in range(r.randrange(0, 3)))
            return "(class %s (bases %s) %s)" % (n, bases, " ".join(self.decl(depth + 1, member=True) for _ in range(r.randrange(0, 5))))
        if f == "union":
            return "(union %s %s)" % (n, " ".join(self.decl(depth + 1, allow=("field",)) for _ in range(r.randrange(0, 4))))
        if f == "namespace":
            return "(namespace %s %s)" % (n, " ".join(self.decl(depth + 1) for _ in range(r.randrange(0, 4))))
        if f == "enum":
            ms = []
            for _ in range(r.randrange(0, 5)):
                ms.append("(%s %s)" % (self.name(), self.expr(4)) if r.random() < 0.4 else "(%s)" % self.name())
            return "(enum %s %s)" % (n, " ".join(ms))
        ps = " ".join("(%s %s)" % (self.name(), self.type(2)) for _ in range(r.randrange(0, 4)))
        body = self.stmt(1) if r.random() < 0.8 else "-"
        if not body.startswith("(block") and body != "-":
            body = "(block %s)" % body
        return "(fun %s %s (%s) %s)" % (n, self.type(2), ps, body)


def program(rnd, size):
    g = Gen(rnd, size)
    ds = []
    while g.budget > 0 or not ds:
        ds.append(g.decl(0))
        if len(ds) > 60:
            break
    return "(program %s)" % " ".join(ds), g.forms


def deep_programs():
    """units whose text is indented far beyond any ordinary line: 28..120 nested blocks, classes and namespaces (the layout
    helpers of the printer see margins of 80, 81, 82 ... columns and more)"""
    out = []
    for d in (26, 27, 28, 33, 40, 70, 120):
        s = "(expr (lit int 31))"
        for k in range(d):
            s = "(block %s)" % s
        out.append("(program (fun deep%d void () %s) (var after int))" % (d, s))
    for d in (27, 30, 45):
        s = "(var x int)"
        for k in range(d):
            s = "(namespace n%d %s (var y%d int))" % (k, s, k)
        out.append("(program %s)" % s)
        s = "(field x int)"
        for k in range(d):
            s = "(class c%d (bases) %s (field y%d int))" % (k, s, k)
        out.append("(program %s)" % s)
    # literals whose LAST byte is one the printer escapes (NUL, \1..\3, \\, a quote), with lengths that end exactly at a 16-byte granule
    # of the string arena, each followed by a name of 48..57 characters (whatever is stored next to the spelling differs between the
    # two build orders): what is printed for the literal may depend on its own bytes only
    for last in (0, 1, 2, 3, 0x5c, 0x22, 0x27):
        ds = []
        for ln in (8, 24, 40, 7, 9):
            sp = (b"abcdefghijklmnopqrstuvwxyzABCDEFGHIJKLMNOPQRSTUVWXYZ"[:ln - 1] + bytes([last])).hex()
            ds.append("(var v%d_%d int (lit int %s))" % (last, ln, sp))
            ds.append("(var n%d_%d_%s int)" % (last, ln, "x" * (40 + (ln + last) % 10)))
        out.append("(program %s)" % " ".join(ds))
    return out
