"""C02 — every factory-built node reports exactly the operands it was built from."""
import re
from common import *
import fsweep


def check(res):
    status, out = coq_obligations(res, ["Properties_C02.v"])
    P = fsweep.load_plan()
    plan = P["plan"]
    calls = fsweep.tuples(plan, res.seed, res.tier)
    recs, crashes, lines = fsweep.run_sweep(calls)
    for idx, err in crashes[:3]:
        res.violation("crash", "factory sweep aborted (sanitizer report or crash)", {"call": lines[idx], "stderr": err[-3000:]})
    exp = fsweep.model_expect(recs)
    keys = set()
    compared = modelled = slots = refused_names = 0
    nodoc = set()
    per_class = {}
    for i, r in enumerate(recs):
        if r is None:
            continue
        e = r["entry"]
        if "bad" in r or r.get("raw", "").startswith(("unknown-factory", "harness-error")):
            k = "harness:" + e["key"]
            if k not in keys:
                keys.add(k)
                res.violation(k, "the sweep harness could not call the factory", {"call": lines[i], "observed": r.get("bad", r.get("raw"))}, no_input=True)
            continue
        doc, node, rawm = exp.get(i, (None, None, ""))
        if doc is None:
            nodoc.add(e["key"])
            continue
        per_class[e["class"]] = per_class.get(e["class"], 0) + 1
        d = r["dump"]
        for a, (want, mod) in doc.items():
            compared += 1
            modelled += mod
            got = d.get(a)
            if got == "E" and want.startswith("DN") and a == "name" and "enclosing_local_capture" in e["key"]:
                refused_names += 1            # name() returns an Identifier: the capture of a declaration named otherwise can only refuse
                continue
            if got != want:
                k = "read-back:%s:%s" % (e["key"], a)
                if k not in keys and len(keys) < 12:
                    keys.add(k)
                    res.violation(k, "%s called with (%s): accessor %s() reads %s, the interface documents %s" %
                                  (e["key"], ", ".join(r["args"]), a, got, want),
                                  {"factory": e["key"], "indices": r["ix"], "arguments": r["args"], "accessor": a, "observed": got,
                                   "documented": want, "full_dump": r["raw"],
                                   "rerun": "echo '%s' | build/<hash>/asan/fsweep_driver" % lines[i]})
        # the operands that are sequences are read back by walking them: forwards, backwards (prefix and postfix steps) and in strides
        for a, v in d.items():
            if a.endswith(".probe"):
                parts = v.split(":")
                if any(p.startswith(("DISAGREE", "COUNT", "WALK3-")) for p in parts) or \
                        (any(p.startswith("WALK2-") for p in parts) and not any(p.startswith("WALK-") for p in parts)):
                    k = "read-back:walk:" + a[:-6]
                    if k not in keys and len(keys) < 12:
                        keys.add(k)
                        res.violation(k, "%s called with (%s): walking the sequence %s() of the result (backwards with -- and with postfix --, forwards with postfix ++, "
                                      "in strides through std::advance / reverse iterators) does not visit the members that positional access gives: %s" %
                                      (e["key"], ", ".join(r["args"]), a[:-6], v),
                                      {"factory": e["key"], "arguments": r["args"], "sequence": a[:-6], "probe": v,
                                       "rerun": "echo '%s' | build/<hash>/asan/fsweep_driver" % lines[i]})
        if node is not None:
            for s, want in node.items():
                slots += 1
                if d.get(s) != want:
                    k = "slot:%s:%s" % (e["key"], s)
                    if k not in keys and not any(x.startswith("read-back:" + e["key"]) for x in keys) and len(keys) < 12:
                        keys.add(k)
                        res.violation(k, "model of the code (Schema.store_of from GenFactory) and implementation disagree on slot %s of %s: %s vs %s" %
                                      (s, e["key"], want, d.get(s)),
                                      {"factory": e["key"], "arguments": r["args"], "slot": s, "model": want, "impl": d.get(s)}, no_input=True)
    # the two documented normal forms, which the statement allows as the only differences
    exe = build_driver("fsweep_driver", "asan", parts=12)
    nlines = ["N:qualified %d %d %d" % (a, b, t) for a in range(7) for b in range(7) for t in (0, 5)] + \
             ["N:transfer %d %d %d" % (a, b, c) for a in range(3) for b in (1, 4) for c in (2, 7)] + \
             ["N:vendor %d %d %d %d" % (a, b, c, k) for a in (0, 2) for b in (1, 4) for c in (2,) for k in range(6)]
    pn = run([exe], input="\n".join(nlines) + "\n", env=SAN_ENV, timeout=600)
    nform = 0
    for l in pn.stdout.splitlines():
        m = re.match(r"F (N:\w+) args=(\S+) :: (.*)$", l)
        if not m:
            continue
        nform += 1
        a = m.group(2).split(";")
        d = fsweep.parse_dump(m.group(3))
        if m.group(1) == "N:vendor":
            if d.get("distinct") != "1" or d.get("convention") != a[3] or d.get("linkage") != "$cxx_link" or d.get("as_type.convention") != a[3]:
                k = "normal-form:vendor-convention"
                if k not in keys:
                    keys.add(k)
                    res.violation(k, "a function type / as-type requested with the transfer (C++ linkage, calling convention %s) reports convention %s / %s (distinct from the plain "
                                  "function type: %s): only the natural transfer may be left out" % (a[3], d.get("convention"), d.get("as_type.convention"), d.get("distinct")),
                                  {"call": l[:300], "rerun": "echo 'N:vendor <p> <t> <e> <cc>' | build/<hash>/asan/fsweep_driver"})
            continue
        if m.group(1) == "N:qualified":
            want = str(int(a[0]) | int(a[1]))
            if d.get("qualifiers") != want or d.get("main_variant") != a[2] or d.get("same") != "1":
                k = "normal-form:qualified"
                if k not in keys:
                    keys.add(k)
                    res.violation(k, "get_qualified(%s, get_qualified(%s, %s)) reports qualifiers %s over %s (same node as the merged request: %s); documented: qualifiers %s over %s" %
                                  (a[1], a[0], a[2], d.get("qualifiers"), d.get("main_variant"), d.get("same"), want, a[2]),
                                  {"call": l[:300], "rerun": "echo 'N:qualified <q1-1> <q2-1> <type index>' | build/<hash>/asan/fsweep_driver"})
        else:
            if d.get("same") != "1" or d.get("transfer") != "$natural" or d.get("source") != a[0] or d.get("target") != a[1] or d.get("throws") != a[2]:
                k = "normal-form:transfer"
                if k not in keys:
                    keys.add(k)
                    res.violation(k, "a function type requested with the natural C++ transfer spelled out is not the node of the same request without it: %s" % m.group(3)[:200],
                                  {"call": l[:300]})
    if pn.returncode != 0:
        res.violation("crash:normal-forms", "normal-form requests aborted", {"stderr": pn.stderr[-2000:]})
    # words whose std::hash codes are equal (the string pool slots words by hash code): each String, and the Identifier made from
    # it, must still read back the characters it was made from
    import hashcollide
    fams, hnote = hashcollide.confirmed_families(res.seed, 10 if res.tier == "quick" else 120)
    if fams:
        cexe = build_driver("c03_driver", "asan")
        words = [w for f in fams for w in f] + [w for f in fams for w in reversed(f)]
        pc = run([cexe], input="".join("H %s\n" % w.hex() for w in words), env=SAN_ENV, timeout=600)
        cl = pc.stdout.splitlines()
        if pc.returncode != 0 or len(cl) != len(words) + 1:
            res.violation("crash:equal-hash-words", "interning words with equal hash codes aborted", {"stderr": pc.stderr[-2000:], "words": [w.hex() for w in words[:12]]})
        else:
            rb = cl[-1].split("=", 1)[1]
            firsts = {}
            for i, (w, l) in enumerate(zip(words, cl)):
                nid = int(dict(x.split("=") for x in l.split())["id"])
                bad = rb[i] == "0" or (words[nid] != w)
                if bad and "read-back:get_string:equal-hash" not in keys:
                    keys.add("read-back:get_string:equal-hash")
                    res.violation("read-back:get_string:equal-hash",
                                  "get_string called with the %d bytes %s returns the String made from %s (the two spellings have the same std::hash code)" %
                                  (len(w), w.hex(), words[nid].hex()),
                                  {"words_hex": [x.hex() for x in words[:i + 1]][-8:], "observed": l, "rerun": "printf 'H %s\\nH %s\\n' | build/<hash>/asan/c03_driver" % (words[nid].hex(), w.hex())})
    nres, rbad = fsweep.reserved_names(60)
    for l, word, t, d in rbad[:1]:
        if "read-back:reserved-name" not in keys:
            keys.add("read-back:reserved-name")
            res.violation("read-back:reserved-name", "get_symbol / make_id_expr requested with the reserved word `%s` as name and type %s do not report that name and type: %s" %
                          (word, t, d or l[:200]), {"observed": l, "rerun": "echo 'N:reserved <index of the word> <type index>' | build/<hash>/asan/fsweep_driver"})
    # ONE list with thousands of members: each member reads back at the position it was given
    ll_lines, ll_bad = fsweep.long_lists(res, "", res.tier)
    for l, o, d in ll_bad[:2]:
        k = "read-back:long-list:" + l.split()[1]
        if k not in keys:
            keys.add(k)
            res.violation(k, "a %s list of %s members does not read back what it was given at position %s (members found at the wrong position: %s, "
                          "wrong types: %s, wrong position(): %s, wrong elements of the list's type: %s)" %
                          (l.split()[1], d.get("n"), d.get("first"), d.get("bad_member"), d.get("bad_type"), d.get("bad_position"), d.get("bad_product")),
                          {"case": l, "observed": o, "rerun": "echo '%s' | build/<hash>/asan/c09_driver" % l})
    # every result re-read after all the other calls: what a node exposes does not depend on what was built after it
    changed, crashed, err = fsweep.reobserve(calls)
    for kind, fkey, fargs, before, after in changed[:6]:
        k = "read-back-later:" + fkey
        if k not in keys and len(keys) < 12:
            keys.add(k)
            b, a = fsweep.parse_dump(before), fsweep.parse_dump(after)
            diff = sorted(x for x in set(b) | set(a) if b.get(x) != a.get(x))[:6]
            res.violation(k, "the node built by %s(%s) reads differently after later factory calls: %s" %
                          (fkey, fargs, "; ".join("%s: %s -> %s" % (x, b.get(x), a.get(x)) for x in diff) or kind),
                          {"factory": fkey, "arguments": fargs, "changed_accessors": diff,
                           "rerun": "the sweep's call list piped to build/<hash>/asan/fsweep_driver --history, followed by CHECK all"})
    for k in sorted(nodoc)[:5]:
        res.violation("undocumented:" + k, "factory %s has no row in Schema.doc_table" % k, {"factory": k}, no_input=True)
    if not all(status.values()) and not any(k.startswith(("read-back", "crash")) for k in keys):
        res.violation("coq:Properties_C02.v", "proof obligation no longer checks", {"theorem_file": "Properties_C02.v", "error": coq_error_excerpt(out, "Properties_C02.v")}, no_input=True)
    res.coverage.update({
        "evaluations": len(calls), "distinct_nontrivial": len(set(lines)),
        "rule": "every factory member function defined in the current <ipr/impl>/impl.cxx (list regenerated from the AST: %d functions swept, "
                "%d skipped) is called with operands taken from named pools: two fixed tuples with pairwise distinct operands, one with every "
                "Optional absent, one with equal indices, plus seeded random tuples; EVERY parameterless const accessor of the result's "
                "interface (%s names, regenerated) is read under ASan+UBSan and the documented ones are compared with Schema.doc_table" %
                (len(plan), len(P["skipped"]), "accessors.def"),
        "samples": lines[:2] + lines[-2:],
        "traces_validated_against_impl": sum(1 for r in recs if r and "dump" in r),
        "input_distribution": {"factories": len(plan), "calls_per_factory_class": per_class, "operand_sorts": fsweep.sort_histogram(calls),
                               "accessor_values_compared": compared, "of_which_reached_by_static_model": modelled,
                               "constructor_slots_compared": slots, "captures_of_declarations_not_named_by_an_identifier_refusing_name": refused_names, "normal_form_requests": nform, "equal_hash_words": hnote,
                               "not_swept": ["%s::%s (%s)" % tuple(s) for s in P["skipped"]]},
    })
