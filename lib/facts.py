"""Runs the fact extractor for the current /repo tree (cached per source hash) and
regenerates coq/gen/*.v and the harness include files derived from the facts."""
import json
import os
import sys
import time

from common import *

sys.path.insert(0, os.path.join(VERIF, "extract"))


def get_facts():
    d = build_dir()
    fj = os.path.join(d, "facts-%s.json" % extractor_hash())
    with Lock("facts"):
        if not os.path.exists(fj):
            import cxx_facts
            cxx_facts.REPO = REPO
            t0 = time.time()
            facts, _ = cxx_facts.extract(d)
            with open(fj, "w") as fh:
                json.dump(facts, fh, indent=1)
            log("[facts] extracted in %.1fs" % (time.time() - t0))
        facts = json.load(open(fj))
        import emit_coq
        changed = emit_coq.emit(facts, os.path.join(COQ, "gen"))
        if changed:
            log("[facts] regenerated coq/gen: %s" % ", ".join(changed))
        gen_harness(facts, os.path.join(d, "gen"))
    return facts


def gen_harness(facts, outdir):
    os.makedirs(outdir, exist_ok=True)

    def w(name, txt):
        p = os.path.join(outdir, name)
        if not os.path.exists(p) or open(p).read() != txt:
            open(p, "w").write(txt)
    w("categories.def", "".join("CAT(%s)\n" % c for c in facts["categories"]))
    hooks = [h for h, v in facts["visitor"].items()]
    sinks = [h for h, v in facts["visitor"].items() if v["pure"]]
    w("hooks.def", "".join("HOOK(%s)\n" % h for h in hooks if h not in sinks))
    w("sinks.def", "".join("SINK(%s)\n" % h for h in sinks))
    hk = [h for h in hooks if h not in sinks]
    for k in range(8):          # the zoo dump visitor is compiled in 8 slices
        w("hooks_part_%d.def" % k, "".join("HOOK(%s)\n" % h for i, h in enumerate(hk) if i % 8 == k))
    def cq(x):
        return '"' + x.replace("\\", "\\\\").replace('"', '\\"') + '"'
    w("specwords.def", "".join("SPECWORD(%s)\n" % cq(x) for x in facts["words"]["std_specifiers"]["rows"]))
    w("qualwords.def", "".join("QUALWORD(%s)\n" % cq(x) for x in facts["words"]["std_qualifiers"]["rows"]))
    w("knownwords.def", "".join("KNOWNWORD(%s)\n" % cq(x) for x in facts["words"]["known_words"]["rows"]))
    import gen_fsweep
    plan, skipped = gen_fsweep.generate(facts, outdir)
    w("fsweep_plan.json", json.dumps({"plan": plan, "skipped": skipped}, indent=1))
    leaves = [k for k, v in facts["reflect"].items() if v["is_node"] and v["code"] >= 0]
    w("leaves.def", "".join("LEAF(%s)\n" % k for k in leaves))


def config_conditionals():
    """places where what the library does depends on the build configuration: uses of NDEBUG and of the assert macro (whose
    argument is not evaluated when NDEBUG is defined, as in the project's Release / RelWithDebInfo builds)"""
    import re
    out = []
    roots = [os.path.join(REPO, "src"), os.path.join(REPO, "include", "ipr")]
    for root in roots:
        for f in sorted(os.listdir(root)):
            p = os.path.join(root, f)
            if not os.path.isfile(p):
                continue
            try:
                lines = open(p, errors="replace").read().splitlines()
            except OSError:
                continue
            for i, l in enumerate(lines, 1):
                code = l.split("//")[0]
                if re.search(r"\bNDEBUG\b|(?<![A-Za-z0-9_])assert\s*\(", code):
                    out.append("%s:%d: %s" % (os.path.relpath(p, REPO), i, l.strip()[:160]))
    return out
