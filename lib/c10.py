"""C10 — specifier and qualifier sets form a Boolean algebra with exact decomposition."""
import random
from common import *
import facts as factsmod


def hexs(w):
    return w.encode("latin-1", "replace").hex() if isinstance(w, str) else w.hex()


def check(res):
    f = factsmod.get_facts()
    status, out = coq_obligations(res, ["Properties_C10.v"])
    coq_failed = not all(status.values())
    exe = build_driver("c10_driver", "plain")
    gen = build_gen_driver()
    rnd = random.Random(res.seed)
    spec = f["words"]["std_specifiers"]["rows"]
    qual = f["words"]["std_qualifiers"]["rows"]
    known = f["words"]["known_words"]["rows"]
    ns, nq = len(spec), len(qual)
    cmds = ["TABLES", "ALL s", "ALL q"]
    npairs = 40000 if res.tier == "quick" else 1500000
    for k, n in (("s", ns), ("q", nq)):
        for a in range(1 << min(n, 3)):
            for b in range(1 << min(n, 3)):
                cmds.append("B %s %x %x" % (k, a, b))
    for i in range(npairs):
        a = rnd.getrandbits(ns)
        kind = rnd.random()
        if kind < 0.3:
            b = a & rnd.getrandbits(ns)          # subsets: implies must hold
        elif kind < 0.4:
            b = a
        elif kind < 0.5:
            b = a | (1 << rnd.randrange(ns))     # one extra element
        else:
            b = rnd.getrandbits(ns)
        cmds.append("B s %x %x" % (a, b))
    for a in range(1 << nq):
        for b in range(1 << nq):
            cmds.append("B q %x %x" % (a, b))
    refuse_words = []
    for w in known:
        refuse_words.append(w)
        refuse_words.append(w + "x"); refuse_words.append(w[:-1]) if len(w) > 1 else None
        # a basic name followed by a NUL and more text, a trailing NUL, a leading NUL, a trailing blank: still unknown names
        refuse_words += [w + "\0x", w + "\0", "\0" + w, w + "\0 " + w, w + " ", w.upper() if w.upper() != w else w + "_"]
        # decorated spellings (vendor keywords and the like) are other names
        refuse_words += ["__" + w, "__" + w + "__", w + "__", "_" + w, w + "_", "_" + w + "_", "__" + w + "_", w.capitalize() if w.capitalize() != w else "_" + w + "__"]
    # every C++ keyword, contextual keyword and vendor spelling that is not a basic name of the table asked
    refuse_words += """abstract pure final override sealed import module export_ new delete deleted default defaulted noexcept throw try catch
        alignas alignof asm auto bool break case char char8_t char16_t char32_t class concept const_cast continue co_await co_return co_yield
        decltype do double dynamic_cast else enum false float for goto if int long namespace nullptr operator reinterpret_cast requires return short
        signed sizeof static_assert static_cast struct switch template this true typeid typename union unsigned using void wchar_t while
        constinit consteval_ immutable readonly transient synchronized native strictfp internal partial virtual_ override_ __declspec __attribute__
        __cdecl __stdcall __fastcall __thiscall __vectorcall _Noreturn _Atomic _Thread_local restrict_ __restrict __restrict__ __volatile__ __const
        __inline __inline__ __forceinline __extension__ interface abstract_ =0_ =default =delete = 0 == pure_virtual""".split()
    for i in range(300 if res.tier == "quick" else 5000):
        ln = rnd.randrange(1, 12)
        refuse_words.append("".join(rnd.choice("abcdefghijklmnopqrstuvwxyz_=0+ ") for _ in range(ln)))
    refuse_words = [w for w in dict.fromkeys(refuse_words) if w]
    for w in refuse_words:
        cmds.append("R s " + w.encode().hex())
        cmds.append("R q " + w.encode().hex())
    text = "\n".join(cmds) + "\n"
    pi = run([exe], input=text, timeout=3600)
    if pi.returncode != 0:
        res.violation("crash", "c10 driver failed", {"stderr": pi.stderr[-3000:]})
        return
    pm = run([gen, "c10"], input=text, timeout=3600)
    il, ml = pi.stdout.splitlines(), pm.stdout.splitlines()
    singles = {"s": {}, "q": {}}
    nU = nB = nR = 0
    keys = set()
    popc = {}

    def viol(key, what, replay):
        if key not in keys and len(keys) < 12:
            keys.add(key)
            res.violation("oracle:" + key, what, replay)
    accvals = {}
    for l in il:
        w = l.split()
        if w[0] in ("S", "Q"):
            k = "s" if w[0] == "S" else "q"
            v = int(w[3], 16)
            if v == 0 or v in singles[k].values() or bin(v).count("1") != 1:
                viol("singleton:" + w[2], "basic name %s maps to %x: not a distinct non-empty single-element set" % (w[2], v), {"line": l})
            singles[k][w[2]] = v
        elif w[0] == "A":
            accvals[w[1]] = int(w[2], 16)
        elif w[0] == "U":
            nU += 1
            m, u, d, cnt = int(w[2], 16), int(w[3], 16), int(w[4], 16), int(w[5])
            pc = bin(m).count("1")
            popc[pc] = popc.get(pc, 0) + 1
            tbl = spec if w[1] == "s" else qual
            exp_u = 0
            for i, name in enumerate(tbl):
                if m >> i & 1:
                    exp_u |= singles[w[1]].get(name, 0)
            if d != m or cnt != pc or "ALIEN" in l or u != exp_u:
                names = [tbl[i] for i in range(len(tbl)) if m >> i & 1]
                viol("decompose:%s:%x" % (w[1], m), "decomposing the union of %s returns mask %x with %d elements (expected exactly the subset)" % (names, d, cnt),
                     {"subset": names, "line": l, "rerun": "echo 'ALL %s' | c10_driver | grep ' %x '" % (w[1], m)})
        elif w[0] == "B":
            nB += 1
            a, b, dor, dand, dxor, imp, comp = int(w[2], 16), int(w[3], 16), int(w[4], 16), int(w[5], 16), int(w[6], 16), int(w[7]), int(w[8])
            if dor != a | b or dand != a & b or dxor != a ^ b or imp != int((a & b) == b) or comp != 1:
                viol("setops:%s" % w[1], "binary operation on sets %x,%x is not the set operation: or=%x and=%x xor=%x implies=%d compound=%d" % (a, b, dor, dand, dxor, imp, comp),
                     {"line": l, "rerun": "echo '%s' | c10_driver" % " ".join(w[:4])})
        elif w[0] == "R":
            nR += 1
            word = bytes.fromhex(w[2]).decode()
            tbl = spec if w[1] == "s" else qual
            if word in tbl:
                if w[3] == "refused" or int(w[3], 16) != singles[w[1]].get(word):
                    viol("project:" + word, "basic name %s is not answered with its singleton: %s" % (word, w[3]), {"line": l})
            elif w[3] != "refused":
                viol("refuse:" + word, "the set of the unknown name %r is answered (%s) instead of refused" % (word, w[3]), {"line": l})
    doc = {"abstract_specifier": "=0"}
    for acc, v in accvals.items():
        k = "q" if acc.endswith("_qualifier") else "s"
        word = doc.get(acc, acc.rsplit("_", 1)[0])
        if singles[k].get(word) != v:
            viol("accessor:" + acc, "%s() = %x differs from the set of its own name %r (%s)" % (acc, v, word, singles[k].get(word)), {"accessor": acc})
    # correspondence
    ndiff = 0
    if not keys:
        if len(il) != len(ml):
            res.violation("diff:lines", "model printed %d lines, implementation %d" % (len(ml), len(il)), {"stderr": pm.stderr[-1000:]}, no_input=True)
        for a, b in zip(il, ml):
            if a != b:
                ndiff += 1
                if ndiff <= 3:
                    res.violation("diff:" + a.split()[0], "model (Bits.v over generated tables) and implementation disagree",
                                  {"correspondence": "Bits.v/gen vs c10_driver", "impl": a, "model": b}, no_input=True)
    if coq_failed and not keys:
        res.violation("coq:Properties_C10.v", "proof obligation over the generated tables no longer checks",
                      {"theorem_file": "Properties_C10.v", "error": coq_error_excerpt(out, "Properties_C10.v")}, no_input=True)
    res.coverage.update({
        "evaluations": nU + nB + nR + len(accvals),
        "distinct_nontrivial": sum(v for k, v in popc.items() if k >= 1),
        "rule": "all 2^%d specifier and 2^%d qualifier subsets (union, decomposition); binary operations on all pairs of small subsets, "
                "all qualifier pairs and %d seeded pairs biased to subset/equal/one-extra cases; every named accessor; "
                "every reserved word, near misses and random words as unknown names; non-trivial = non-empty subset" % (ns, nq, npairs),
        "exhaustive": True,
        "samples": [il[len(il) // 3], il[len(il) // 2], il[-1]],
        "traces_validated_against_impl": min(len(il), len(ml)),
        "generated_tables": {"std_specifiers": ns, "std_qualifiers": nq, "named_accessors": len(accvals)},
        "input_distribution": {"subset_popcount_histogram": {str(k): v for k, v in sorted(popc.items())},
                               "binary_pairs": nB, "refusal_probes": nR},
    })
    res.assumptions += ["Specifiers/Qualifiers are at least 32 bits wide (std::uintptr_t; static_assert in impl.cxx)"]
