"""C13 — Lexicon constants are distinct, correctly spelled, self-describing, process-wide."""
from lexcommon import *
import lexgen


def check(res):
    f = factsmod.get_facts()
    status, out = coq_obligations(res, ["Properties_C13.v"])
    known = f["words"]["known_words"]["rows"]
    exe = build_driver("c13_driver", "plain")
    p = run([exe], timeout=600)
    if p.returncode != 0:
        res.violation("crash", "c13 driver failed", {"stderr": p.stderr[-3000:]})
        return
    lines = p.stdout.splitlines()
    keys = set()

    def viol(key, what, l):
        if key not in keys:
            keys.add(key)
            res.violation("oracle:" + key, what, {"line": l, "rerun": "build/<hash>/plain/c13_driver | grep '%s'" % l.split()[1]})
    nfacts = 0
    for l in lines:
        w = l.split()
        name = w[1]
        if name == "client_strings":
            dd = dict(x.split("=", 1) for x in w[2:] if "=" in x)
            if dd.get("look_alikes") != "0":
                viol("route:client-string", "given a String with a reserved spelling that the client made itself (not from a string pool), %s of %s routes "
                     "(get_identifier -> name of the constant, get_as_type, get_label) yield a look-alike instead of the constant; first: %s" %
                     (dd.get("look_alikes"), dd.get("routes"), dd.get("first")), l)
            continue
        if name == "exception":
            viol("before-main:exception", "a Lexicon used by the initializer (L0: before main) or the destructor (L9: after main) of a namespace-scope object throws: " + l, l)
            continue
        d = dict(x.split("=", 1) for x in w[2:] if "=" in x)
        # multi-word spellings ("signed char") contain spaces: re-parse spelled=
        if " spelled=" in l:
            rest = l.split(" spelled=", 1)[1]
            sp = rest
            for k in (" self=", " typed="):
                if k in rest:
                    sp = rest.split(k, 1)[0]
            d["spelled"] = sp
            d.update(dict(x.split("=", 1) for x in rest[len(sp):].split() if "=" in x))
        nfacts += len(d)
        if name.endswith("_type"):
            acc = name[:-5]
            want = BUILTIN_SPELLING.get(acc)
            if d.get("spelled") != want:
                viol("spelling:" + name, "%s() names itself %r, documented spelling is %r" % (name, d.get("spelled"), want), l)
            for k, what in (("self", "is not its own underlying expression"), ("typename", "does not have type typename"),
                            ("natural", "does not have the natural C++ transfer"), ("shared", "differs between Lexicon instances"),
                            ("route_id", ": get_identifier(spelling) is not its name"), ("route_type", ": get_as_type(get_identifier(spelling)) is a look-alike"),
                            ("route_type2", ": get_as_type(get_identifier(get_string(spelling))) is a look-alike"), ("cat", "is not an As_type node")):
                if d.get(k) != "1":
                    viol("%s:%s" % (k, name), "%s() %s" % (name, what), l)
        elif name.endswith("_value"):
            want = name[:-6]
            if d.get("spelled") != want:
                viol("spelling:" + name, "%s() is spelled %r" % (name, d.get("spelled")), l)
            for k, what in (("typed", "has the wrong type"), ("shared", "differs between Lexicon instances"), ("route_name", ": get_identifier(spelling) is not its name")):
                if d.get(k) != "1":
                    viol("%s:%s" % (k, name), "%s() %s" % (name, what), l)
        elif name.startswith("distinct_clashes") or name.startswith("symbol_clashes"):
            if not name.endswith("=0"):
                viol("distinct", "constant accessors return the same node: " + name, l)
        elif name == "linkages":
            if d.get("c") != "C" or d.get("cxx") != "C++" or d.get("distinct") != "1" or d.get("shared") != "11" or \
                    d.get("route_w") != "11" or d.get("route_s") != "11" or d.get("label_default") != "1":
                viol("linkages", "standard linkages / label route wrong: " + l, l)
    # the same routes through the request scripts, on the model and on the implementation
    s = Script()
    lexgen.preamble(s)
    for b in BUILTINS:
        sp = BUILTIN_SPELLING[b]
        st = s.add("string", "string", hexw(sp))
        i1 = s.add("identifier", "identifier", st)
        i2 = s.add("identifier", "identifier_w", hexw(sp))
        s.add("type", "as_type_id", i1); s.add("type", "as_type_id", i2)
        s.add("identifier", "name_of", "$" + b)
        s.add("value", "builtin", "$" + b)
    for w in ("C", "C++"):
        st = s.add("string", "string", hexw(w)); s.add("linkage", "linkage", st); s.add("linkage", "linkage_w", hexw(w))
    d1 = s.add("identifier", "identifier_w", hexw("default")); s.add("expr", "label", d1)
    s.add("type", "decltype_null")
    for w in known:
        st = s.add("string", "string", hexw(w)); s.add("identifier", "identifier", st)
        s.add("string", "string", hexw(w + "_")); s.add("identifier", "identifier_w", hexw(w[:-1] if len(w) > 1 else "q"))
    stt = run_script(res, s, known, "C13", lambda k: k.split(":")[0] in ("route", "constant", "identifier-unique", "script"))
    if not all(status.values()) and not keys and not [v for v in res.violations if v["key"].startswith("oracle:")]:
        res.violation("coq:Properties_C13.v", "proof obligation over the generated tables no longer checks",
                      {"theorem_file": "Properties_C13.v", "error": coq_error_excerpt(out, "Properties_C13.v")}, no_input=True)
    res.coverage.update({
        "evaluations": nfacts + stt["n"], "distinct_nontrivial": len(lines) + stt.get("classes", 0),
        "rule": "26 built-in accessors, 5 symbolic constants, 2 linkages on a Lexicon used BEFORE main() by the initializer of a namespace-scope object and AFTER main() by its destructor "
                "(translation unit linked before the library) and on three Lexicon instances in main() (two alive at once, one created after the first "
                "was destroyed): spelling, expr(), type(), transfer(), category, pairwise distinctness, identity across instances, and every public "
                "route from the spelling (get_identifier by view and by String -> get_as_type; get_linkage by view and by String; get_label; "
                "get_decltype); plus the same routes and every reserved word with near misses through the request scripts against the model",
        "exhaustive": True,
        "samples": [lines[0], lines[30], lines[-1]],
        "traces_validated_against_impl": stt["n"],
        "generated_tables": {"builtins": len(f["words"]["builtins"]["rows"]), "lexicon_accessors": len(f["lexicon_accessors"])},
    })
