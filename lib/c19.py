"""C19 — destroying a Lexicon frees all its memory; live use never touches dead storage (partial)."""
from common import *
import facts as factsmod


def check(res):
    f = factsmod.get_facts()
    status, out = coq_obligations(res, ["Properties_C19.v"])
    exe = build_driver("c19_driver", "asan")
    n = 12 if res.tier == "quick" else 600
    env = dict(os.environ, ASAN_OPTIONS="detect_leaks=1:abort_on_error=0:allocator_may_return_null=1",
               LSAN_OPTIONS="report_objects=0:max_leaks=8", UBSAN_OPTIONS="print_stacktrace=1:halt_on_error=1")
    big = 450000 if res.tier == "quick" else 3000000
    p = run([exe, str(n), str(res.seed), str(big)], timeout=7200, env=env)
    lines = p.stdout.splitlines()
    leaking = [l for l in lines if l.startswith("iteration=") and l.endswith("leak_check=1")]
    done = [l for l in lines if l.startswith("iteration=")]
    keys = False
    if "ERROR: AddressSanitizer" in p.stderr and "LeakSanitizer" not in p.stderr.split("ERROR: AddressSanitizer")[1][:200] and "leaked in" not in p.stderr:
        keys = True
        res.violation("oracle:asan", "AddressSanitizer reported an access outside live storage while building, printing or destroying a Lexicon",
                      {"stderr": p.stderr[-4000:], "rerun": "build/<hash>/asan/c19_driver %d %d %d" % (n, res.seed, big)})
    elif p.returncode != 0 and not leaking:
        keys = True
        res.violation("crash", "c19 driver failed (rc=%d)" % p.returncode, {"stderr": p.stderr[-4000:]})
    damaged = sorted(set(l.split()[0] for l in lines if l.startswith(("edge-word-damaged", "transient-name-damaged", "global-namespace-name"))))
    if damaged:
        keys = True
        res.violation("oracle:content:" + damaged[0], "a node's own storage does not hold what it was built from: %s" % ", ".join(damaged),
                      {"reports": [l for l in lines if l.split()[:1] and l.split()[0] in damaged][:5], "rerun": "build/<hash>/asan/c19_driver %d %d %d" % (n, res.seed, big)})
    if leaking:
        keys = True
        # first allocation site reported
        import re
        sites = re.findall(r"#\d+ 0x[0-9a-f]+ in (ipr::[^\n]*?) /repo/([^\s:]+):(\d+)", p.stderr)
        res.violation("oracle:leak", "memory allocated on behalf of a Lexicon is still allocated after the units, modules and the Lexicon were destroyed",
                      {"iterations_leaking": leaking[:3], "allocation_sites": ["%s (%s:%s)" % s for s in sites[:6]],
                       "lsan": p.stderr[-3000:], "rerun": "ASAN_OPTIONS=detect_leaks=1 build/<hash>/asan/c19_driver %d %d" % (n, res.seed)})
    # a word whose length does not fit an int (2^31 + 8 bytes): what the arena reserves for it and where the copy goes
    import c03
    kk = set()
    n0 = len(res.violations)
    c03.huge_words(res, build_driver("c03_driver", "asan"), kk, "oracle:content:")
    c03.zero_hash_first(res, build_driver("c03_driver", "asan"), kk, "oracle:content:")
    keys = keys or bool(kk)
    if not all(status.values()) and not keys:
        st = f["stores"]["dtors"]
        res.violation("coq:Properties_C19.v", "obligation over the destructor facts of the current source no longer checks",
                      {"theorem_file": "Properties_C19.v", "destructor_facts": st, "error": coq_error_excerpt(out, "Properties_C19.v")}, no_input=True)
    res.coverage.update({
        "evaluations": len(done), "distinct_nontrivial": len(done),
        "rule": "each iteration builds a fresh Lexicon with a translation unit and a module, creates one node of every implementation class (zoo), "
                "200 seeded unified nodes across all tables (incl. strings up to 128 KiB), 40 declarations, a substitution, prints every fourth, "
                "then destroys everything and asks LeakSanitizer for a recoverable leak check; a last Lexicon receives %d identifiers in ascending spelling "
                "order and a chain of %d pointer types (tables filled in monotone key order: trees 35+ levels deep) and is destroyed; the whole run is under ASan+UBSan" % (big, big),
        "samples": done[:2] + lines[-1:],
        "traces_validated_against_impl": len(done),
        "leaking_iterations": len(leaking),
        "destructor_facts_from_source": f["stores"]["dtors"],
        "proved_part": "allocation accounting of arena and rb containers; runtime part observed only",
    })
    res.assumptions += ["PARTIAL: freedom from out-of-bounds / use-after-free accesses is observed with ASan on the runs above, not proved",
                        "standard containers release their elements (C++ standard library contract)"]
