"""C08 — the ordered-set utility (red-black tree), both flavours."""
import itertools
import math
import os
import random
import re

from common import *


def lex_key(s):
    return [] if s == "-" else [int(x) for x in s.split(",")]


def parse_shape(s):
    """-> nested tuple (color, left, key, right) or None."""
    toks = s.replace("(", " ( ").replace(")", " ) ").split()
    pos = [0]

    def rec():
        t = toks[pos[0]]
        if t == ".":
            pos[0] += 1
            return None
        assert t == "(", t
        pos[0] += 1
        c = toks[pos[0]]; pos[0] += 1
        l = rec()
        k = toks[pos[0]]; pos[0] += 1
        r = rec()
        assert toks[pos[0]] == ")"
        pos[0] += 1
        return (c, l, k, r)
    t = rec()
    assert pos[0] == len(toks)
    return t


def check_tree(t, keyf):
    """RB rules + search-tree order on a parsed shape. Returns (errors, n, height)."""
    errs = []
    inorder = []

    def rec(n, parent_red):
        if n is None:
            return 1, 0
        c, l, k, r = n
        if c == "R" and parent_red:
            errs.append("red node %s has a red parent" % k)
        bl, hl = rec(l, c == "R")
        inorder.append(keyf(k))
        br, hr = rec(r, c == "R")
        if bl != br:
            errs.append("black count differs below %s: %d vs %d" % (k, bl, br))
        return bl + (1 if c == "B" else 0), 1 + max(hl, hr)
    _, h = rec(t, False)
    if t is not None and t[0] != "B":
        errs.append("root is red")
    # the search goes left when comp(data,key) < 0: in-order is strictly descending
    for a, b in zip(inorder, inorder[1:]):
        if not (a > b):
            errs.append("in-order not strictly descending: %s then %s" % (a, b))
            break
    n = len(inorder)
    if 2 ** h > (n + 1) ** 2:
        errs.append("height %d exceeds 2*log2(%d+1)" % (h, n))
    return errs, n, h


def fields(line):
    d = {}
    for tok in re.findall(r"(\w+)=((?:\([^=]*\)|[^\s=]+)(?:(?=\s\w+=)|$))", line):
        d[tok[0]] = tok[1]
    return d


def split_fields(line):
    # fields are key=value separated by " key=" boundaries; values may contain spaces (shapes)
    d = {}
    parts = re.split(r"(?:^| )(\w+)=", line.strip())
    it = iter(parts[1:])
    for k in it:
        d[k] = next(it)
    return d


def gen_cases(tier, seed):
    rnd = random.Random(seed)
    cases = []   # (flavor, cmp, steps, keys, probes) keys/probes as strings

    def add(fl, cmp, keys, probes=None, steps=False):
        keys = [str(k) for k in keys]
        if fl == "chain" and rnd.random() < 0.3:
            fl = "chainb"
        if probes is None:
            if cmp == "wide" and keys:
                ks = set(int(k) for k in keys)
                cand = [k + d for k in list(ks)[:14] for d in (1, -1, 2 ** 31, 2 ** 32, -2 ** 32) if 0 <= k + d < 2 ** 62]
                probes = [v for v in dict.fromkeys(cand) if v not in ks][:40]
                probes += rnd.sample(sorted(ks), min(3, len(ks)))
            elif cmp in ("int", "diff") and keys:
                ks = set(int(k) for k in keys)
                probes = [v for v in range(min(ks) - 1, max(ks) + 2) if v not in ks][:40]
                probes += rnd.sample(sorted(ks), min(3, len(ks)))
            elif cmp == "lex":
                ks = set(keys)
                cand = []
                for k in keys[:40]:
                    v = lex_key(k)
                    cand.append(",".join(map(str, v + [0])))
                    if v:
                        cand.append(",".join(map(str, v[:-1])) or "-")
                probes = [c for c in dict.fromkeys(cand)][:40]
            elif cmp == "addr" and keys:
                m = max(int(k) for k in keys)
                probes = [m + 1, m + 2] + [int(keys[0])]
            else:
                probes = []
        cases.append((fl, cmp, steps, keys, [str(p) for p in probes]))

    nperm = 7 if tier == "quick" else 9
    nseq = 6 if tier == "quick" else 8
    for n in range(0, nperm + 1):
        for p in itertools.permutations(range(1, n + 1)):
            fl = "own" if (hash(p) & 1) == 0 or n <= 6 else "chain"
            add(fl, "int", p, steps=(n <= 5))
            if n <= 6:
                add("chain", "int", p, steps=(n <= 4))
    for n in range(1, nseq + 1):
        for s in itertools.product(range(4), repeat=n):
            add("own", "int", s, steps=(n <= 4))
            if n <= 5 or tier != "quick":
                add("chain", "int", s)
    # patterned and random long runs
    sizes = [10, 33, 100, 257, 1000] if tier == "quick" else [10, 100, 1000, 4096, 20000, 100000]
    for n in sizes:
        asc = list(range(n)); desc = asc[::-1]
        organ = [x for pair in zip(asc[:n // 2], desc[:n // 2]) for x in pair]
        zig = [(i * 7919) % n for i in range(n)]
        for cmp in ("int", "diff"):
            for fl in ("own", "chain"):
                add(fl, cmp, asc); add(fl, cmp, desc); add(fl, cmp, organ); add(fl, cmp, zig)
                r = [rnd.randrange(n) for _ in range(n)]
                add(fl, cmp, r)
                r2 = [rnd.randrange(max(2, n // 8)) for _ in range(n)]     # heavy duplicates
                add(fl, cmp, r2)
    # a total order whose three-way results do not fit an int: keys on the 2^31 and 2^32 grids and 62-bit random keys
    for n in ([8, 64, 500] if tier == "quick" else [8, 64, 500, 5000, 50000]):
        for fl in ("own", "chain"):
            grid = [((i * 7919) % n) << rnd.choice([31, 32, 33]) for i in range(n)]
            add(fl, "wide", grid, steps=(n <= 8))
            add(fl, "wide", [rnd.randrange(2 ** 62) for _ in range(n)])
            mixed = [rnd.choice([rnd.randrange(64) << 32, (rnd.randrange(64) << 31) + rnd.randrange(3), rnd.randrange(2 ** 62)]) for _ in range(n)]
            add(fl, "wide", mixed)
    nrand = 300 if tier == "quick" else 5000
    for i in range(nrand):
        n = rnd.choice([3, 8, 15, 16, 17, 31, 40, 64])
        fl = rnd.choice(["own", "chain"])
        kind = rnd.random()
        if kind < 0.35:
            add(fl, "addr", [rnd.randrange(n) for _ in range(n)], steps=(n <= 8))
        elif kind < 0.75:
            ks = []
            for _ in range(n):
                ln = rnd.choice([0, 1, 1, 2, 2, 3, 4])
                ks.append(",".join(str(rnd.randrange(3)) for _ in range(ln)) or "-")
            add(fl, "lex", ks, steps=(n <= 8))
        else:
            add(fl, rnd.choice(["int", "diff"]), [rnd.randrange(-n, n) for _ in range(n)], steps=(n <= 16))
    return cases


def case_line(c, for_model=False, ranks=None):
    fl, cmp, steps, keys, probes = c
    if for_model and cmp == "addr":
        cmp2 = "int"
        keys = ["%d:%s" % (ranks[int(k)], k) for k in keys]
        probes = ["%d:%s" % (ranks[int(k)], k) for k in probes]
    elif for_model and cmp == "wide":
        cmp2 = "diff"                  # the model's difference comparator is over Z: no width
    else:
        cmp2 = cmp
    # flavour "chainb": the intrusive flavour with nodes that arrive coloured black (a node reused after it left another tree, or living
    # in zero-filled storage); for the model it is the plain intrusive flavour: a newly linked leaf is red whatever it was before
    extra = ["preblack"] if (fl == "chainb" and not for_model) else []
    return " ".join(["chain" if fl == "chainb" else fl, cmp2] + (["steps"] if steps else []) + extra + keys + (["?"] + probes if probes else []))


def expected(c, ranks=None):
    """What the property itself demands of this case (independent of the model)."""
    fl, cmp, steps, keys, probes = c
    if cmp in ("int", "diff", "wide"):
        kf = int
    elif cmp == "addr":
        kf = lambda k: ranks[int(k)]
    else:
        kf = lambda k: tuple(lex_key(k))
    seen = {}
    ret, fresh = [], ""
    for i, k in enumerate(keys):
        v = kf(k)
        if v in seen:
            fresh += "0"
            ret.append(seen[v] if fl == "own" else i)
        else:
            seen[v] = i
            fresh += "1"
            ret.append(i)
    probe = "".join("1" if kf(p) in seen else "0" for p in probes)
    return {"distinct": len(seen), "ret": ",".join(map(str, ret)) or "-", "fresh": fresh or "-",
            "found": "1" * len(keys) or "-", "probe": probe or "-",
            "size": len(seen) if fl == "own" else len(keys), "kf": kf}


def oracle(c, obs, ranks=None):
    """Evaluate C08 on the implementation's own output."""
    errs = []
    exp = expected(c, ranks)
    if obs.get("parents") != "ok":
        errs.append("inconsistent parent links")
    try:
        t = parse_shape(obs["shape"])
    except Exception as e:
        return ["unparsable shape: %r" % obs.get("shape")]
    te, n, h = check_tree(t, exp["kf"])
    errs += te
    if n != exp["distinct"]:
        errs.append("tree holds %d elements, %d distinct keys were inserted" % (n, exp["distinct"]))
    if int(obs.get("size", -1)) != exp["size"]:
        errs.append("size()=%s, expected %d" % (obs.get("size"), exp["size"]))
    for f in ("ret", "fresh", "found", "probe"):
        if obs.get(f) != exp[f]:
            errs.append("%s=%s expected %s" % (f, str(obs.get(f))[:80], exp[f][:80]))
    if "steps" in obs and obs["steps"] != "-":
        for s in obs["steps"].split("|"):
            try:
                e2, _, _ = check_tree(parse_shape(s), exp["kf"])
            except Exception:
                e2 = ["unparsable step shape"]
            if e2:
                errs.append("intermediate tree invalid: " + e2[0])
                break
    return errs


def run_lines(exe, mode_args, text, timeout=3600):
    p = run([exe] + mode_args, input=text, timeout=timeout)
    return p.returncode, p.stdout.splitlines(), p.stderr


def check(res):
    tier, seed = res.tier, res.seed
    vfiles = [v for v in ["Properties_C08.v", "Properties_C08_heap.v"] if os.path.exists(os.path.join(COQ, v))]
    status, out = coq_obligations(res, vfiles)
    for v, ok in status.items():
        if not ok:
            res.violation("coq:" + v, "proof obligation no longer checks: " + v,
                          {"theorem_file": v, "error": coq_error_excerpt(out, v)}, no_input=True)
    try:
        exe = build_driver("rb_driver", "asan", with_lib=False)
        model = build_model_driver()
    except BuildError as e:
        res.violation("build", "harness does not build against the current tree", {"error": str(e)[-3000:]}, no_input=True)
        return
    cases = []
    corpus = os.path.join(VERIF, "corpus", "C08.txt")
    ncorpus = 0
    if os.path.exists(corpus):
        for l in open(corpus):
            w = l.split()
            if not w or w[0].startswith("#"):
                continue
            steps = "steps" in w
            w = [x for x in w if x != "steps"]
            ks = w[2:]
            ps = []
            if "?" in ks:
                i = ks.index("?")
                ks, ps = ks[:i], ks[i + 1:]
            cases.append((w[0], w[1], steps, ks, ps))
            ncorpus += 1
    cases += gen_cases(tier, seed)
    impl_lines, crashes = run_cases(exe, [case_line(c) for c in cases], env=SAN_ENV)
    for idx, err in crashes[:3]:
        res.violation("crash", "rb driver aborted (sanitizer report or crash) on an insertion sequence",
                      {"case": case_line(cases[idx])[:3000], "stderr": err, "rerun": "echo '<case>' | build/<hash>/asan/rb_driver"})
    obs = [split_fields(l) if l is not None else None for l in impl_lines]
    ranks = []
    for c, o in zip(cases, obs):
        if o is None and c[1] == "addr":
            n = max([int(k) for k in c[3] + c[4]] + [0]) + 1
            ranks.append(list(range(n)))
        else:
            ranks.append([int(x) for x in o["ranks"].split(",")] if o and "ranks" in o else None)
    # the extracted model's cost is quadratic in the length of a run: runs of more than MODEL_MAX keys are judged by the oracle (and the
    # bulk validation) only; the others are spread over the cores
    MODEL_MAX = 20000
    mlines = [case_line(c, True, r) if len(c[3]) <= MODEL_MAX else "own int" for c, r in zip(cases, ranks)]
    import concurrent.futures as cf
    order = sorted(range(len(mlines)), key=lambda i: -len(mlines[i]))
    chunks = [order[k::NCPU] for k in range(NCPU)]

    def run_chunk(ix):
        if not ix:
            return ix, 0, [], ""
        rc_, ls_, err_ = run_lines(model, ["rb"], "\n".join(mlines[i] for i in ix) + "\n")
        return ix, rc_, ls_, err_
    model_lines = [""] * len(mlines)
    err = ""
    with cf.ThreadPoolExecutor(max_workers=NCPU) as ex:
        for ix, rc_, ls_, err_ in ex.map(run_chunk, chunks):
            err += err_ or ""
            if len(ls_) == len(ix):
                for i, l in zip(ix, ls_):
                    model_lines[i] = l
            else:
                model_lines = model_lines[:0]            # a chunk is short: reported below as a line-count difference
                break
    mobs = [split_fields(l) if (l and len(cases[i][3]) <= MODEL_MAX) else {} for i, l in enumerate(model_lines)]
    tags = set()
    nviol = 0
    ndiff = 0
    sizes = {}
    cmps = {}
    for i, (c, o) in enumerate(zip(cases, obs)):
        if o is None:
            continue
        errs = oracle(c, o, ranks[i])
        sizes[len(c[3])] = sizes.get(len(c[3]), 0) + 1
        cmps[c[0] + "/" + c[1]] = cmps.get(c[0] + "/" + c[1], 0) + 1
        if errs:
            nviol += 1
            if nviol <= 5:
                # shrink: shortest failing prefix
                res.violation("oracle:%s/%s" % (c[0], c[1]), "red-black tree invariant violated: " + errs[0],
                              {"case": case_line(c)[:2000], "errors": errs[:5], "observed": {k: v[:400] for k, v in o.items()},
                               "rerun": "echo '<case>' | build/<hash>/asan/rb_driver"})
        if i < len(mobs) and mobs[i]:
            m = mobs[i]
            if "tags" in m:
                tags.update(m["tags"].split(","))
            if not errs:
                for f in ("shape", "size", "nodes", "ret", "fresh", "found", "probe", "steps"):
                    if f in o and o.get(f) != m.get(f):
                        ndiff += 1
                        if ndiff <= 3:
                            res.violation("diff:%s" % f, "model and implementation disagree on %s (property holds on this input per oracle)" % f,
                                          {"correspondence": "RBModel vs util::rb_tree", "case": case_line(c)[:2000],
                                           "impl": o.get(f, "")[:600], "model": m.get(f, "")[:600]}, no_input=True)
                        break
    # long patterned runs, validated by the driver itself in one pass (search order, colours, black counts, parent links, every key
    # found, no other key found, size): trees deep enough (35+ levels) to pass any fixed walk bound a balanced tree "cannot" reach
    bulk_n = 400000 if tier == "quick" else 3000000
    deep_n = 3400000 if tier == "quick" else 14000000          # sorted runs this long give paths of 41 / 45 nodes
    bulk = ["bulk %s %s %d" % (fl, pat, n) for fl in ("own", "chain") for pat in ("asc", "desc", "organ", "zig") for n in (bulk_n,)] + \
           ["bulk %s asc %d" % (fl, deep_n) for fl in ("own", "chain")] + \
           ["bulk own asc 0", "bulk chain asc 1", "bulk own desc 2"]
    bouts, bcr = run_cases(exe, bulk, env=SAN_ENV)
    for idx, err in bcr[:2]:
        res.violation("crash:bulk", "rb driver aborted (sanitizer report or crash) on a long insertion run, or when the tree was destroyed",
                      {"case": bulk[idx], "stderr": err[:3000], "rerun": "echo '%s' | build/<hash>/asan/rb_driver" % bulk[idx]})
    for b, o in zip(bulk, bouts):
        if o is None:
            continue
        f = split_fields(o)
        n, h = int(f.get("n", 0)), int(f.get("height", 0))
        bad = None
        if f.get("bulk") != "ok":
            bad = f.get("why", "?").replace("_", " ")
        elif 2 ** h > (n + 1) ** 2:
            bad = "height %d exceeds 2*log2(%d+1)" % (h, n)
        elif int(f.get("size", -1)) != n or int(f.get("nodes", -1)) != n:
            bad = "size()=%s, %s nodes, %d distinct keys inserted" % (f.get("size"), f.get("nodes"), n)
        if bad and not any(v["key"].startswith("oracle:bulk") for v in res.violations):
            res.violation("oracle:bulk/%s" % b.split()[1], "red-black tree invariant violated on a long run: " + bad,
                          {"case": b, "observed": o, "rerun": "echo '%s' | build/<hash>/asan/rb_driver" % b})
    if len(model_lines) != len(cases) and not res.violations:
        res.violation("diff:model-lines", "model driver produced %d lines for %d cases" % (len(model_lines), len(cases)),
                      {"stderr": err[-2000:]}, no_input=True)
    distinct = len(set(case_line(c) for c in cases if len(set(c[3])) >= 2))
    res.coverage.update({
        "evaluations": len(cases), "distinct_nontrivial": distinct,
        "rule": "insertion sequences: corpus; all permutations of 1..n (n<=%d); all sequences over a 4-letter alphabet (len<=%d); "
                "sorted/reversed/organ-pipe/stride/random/duplicate-heavy long runs; random addr- and lex-keyed runs; "
                "non-trivial = at least two distinct keys; distinct = distinct case lines" % (7 if tier == "quick" else 9, 6 if tier == "quick" else 8),
        "exhaustive": False,
        "samples": [case_line(c)[:300] for c in (cases[ncorpus + 700:ncorpus + 702] + cases[-2:])],
        "traces_validated_against_impl": min(len(mobs), len(obs)),
        "input_distribution": {"by_flavour_comparator": cmps,
                               "length_histogram": {str(k): v for k, v in sorted(sizes.items())[:12]},
                               "max_length": max(sizes) if sizes else 0, "corpus_cases": ncorpus},
        "model_branch_tags_hit": sorted(t for t in tags if t),
    })
    want = {"found", "root", "pblack", "unclered", "LL", "LR", "RR", "RL"}
    if not want <= tags:
        res.notes.append("generator adequacy: fixup branches never hit: %s" % sorted(want - tags))
    if "STUCK" in tags:
        res.violation("model-stuck", "model reached the null-grandparent branch", {}, no_input=True)
    res.assumptions += ["comparator passed to the tree is a total preorder (hypothesis TotalOrder of the theorems)",
                        "pointer surgery is modelled functionally (zipper); parent links are covered by RBHeap.v and observed by the driver"]
