"""C11 — qualified types are in normal form."""
from lexcommon import *
import lexgen


def in_scope(key):
    k = key.split(":")
    return k[0] in ("normal-form", "refusal", "script") or (k[0] in ("split", "merged", "refused") and k[1:2] == ["qualified"])


def check(res):
    f = factsmod.get_facts()
    status, out = coq_obligations(res, ["Properties_C11.v"])
    known = f["words"]["known_words"]["rows"]
    s = lexgen.gen_c11(res.tier, res.seed)
    st = run_script(res, s, known, "C11", in_scope)
    if not all(status.values()) and not [v for v in res.violations if v["key"].startswith("oracle:")]:
        res.violation("coq:Properties_C11.v", "proof obligation no longer checks",
                      {"theorem_file": "Properties_C11.v", "error": coq_error_excerpt(out, "Properties_C11.v")}, no_input=True)
    nq = sum(1 for r in s.reqs if r[0] == "qualified")
    res.coverage.update({
        "evaluations": st["n"], "distinct_nontrivial": st.get("classes", 0),
        "rule": "for each unqualified base type (built-ins, client classes, pointer, reference, array, function) and each non-empty subset Q of "
                "{const,volatile,restrict}: EVERY presentation of Q as 1..3 successive non-empty qualification requests whose union is Q "
                "(orders, groupings, overlaps), with unrelated requests interleaved at random; after each chain main_variant(), qualifiers() "
                "and the identity class are read; the empty set is requested on every base",
        "exhaustive": True,
        "samples": [s.lines[i] for i in (len(s.lines) // 3, len(s.lines) // 3 + 1, len(s.lines) // 3 + 2)],
        "traces_validated_against_impl": st["n"],
        "input_distribution": {"qualification_requests": nq, "splittings_per_base": sum(len(lexgen.splittings(Q)) for Q in range(1, 8))},
    })
