"""C11 — qualified types are in normal form."""
from lexcommon import *
import lexgen


def in_scope(key):
    k = key.split(":")
    return k[0] in ("normal-form", "refusal", "script") or (k[0] in ("split", "merged", "refused") and k[1:2] == ["qualified"])


def check(res):
    f = factsmod.get_facts()
    status, out = coq_obligations(res, ["Properties_C11.v"])
    known = f["words"]["known_words"]["rows"]
    s = lexgen.gen_c11(res.tier, res.seed)
    st = run_script(res, s, known, "C11", in_scope)
    # the same table with very many distinct main variants, requested in address order (the lookup tree gets as deep as it can)
    import re
    bulk_n = 3400000 if res.tier == "quick" else 14000000      # paths of 41 / 45 nodes in the table
    bexe = build_driver("c11_bulk_driver", "asan")
    pb = run([bexe, str(bulk_n)], env=SAN_ENV, timeout=3600)
    mb = re.search(r"bulk n=(\d+) bad_main=(\d+) bad_quals=(\d+) bad_identity=(\d+) bad_nesting=(\d+)", pb.stdout)
    if pb.returncode != 0 or not mb:
        res.violation("oracle:normal-form:bulk-crash", "requesting const-qualified versions of %d distinct types aborted" % bulk_n,
                      {"stderr": pb.stderr[-3000:], "rerun": "build/<hash>/asan/c11_bulk_driver %d" % bulk_n})
    elif any(int(x) for x in mb.groups()[1:]):
        res.violation("oracle:normal-form:bulk", "among %s distinct main variants T requested in address order: %s results of get_qualified(const, T) have main_variant() != T, "
                      "%s have other qualifiers, %s repeated requests gave another node, %s nested requests are not the merged node" % mb.groups(),
                      {"observed": mb.group(0), "rerun": "build/<hash>/asan/c11_bulk_driver %d" % bulk_n})
    if not all(status.values()) and not [v for v in res.violations if v["key"].startswith("oracle:")]:
        res.violation("coq:Properties_C11.v", "proof obligation no longer checks",
                      {"theorem_file": "Properties_C11.v", "error": coq_error_excerpt(out, "Properties_C11.v")}, no_input=True)
    nq = sum(1 for r in s.reqs if r[0] == "qualified")
    res.coverage.update({
        "evaluations": st["n"], "distinct_nontrivial": st.get("classes", 0),
        "rule": "for each unqualified base type (built-ins, client classes, pointer, reference, array, function) and each non-empty subset Q of "
                "{const,volatile,restrict}: EVERY presentation of Q as 1..3 successive non-empty qualification requests whose union is Q "
                "(orders, groupings, overlaps), with unrelated requests interleaved at random; after each chain main_variant(), qualifiers() "
                "and the identity class are read; the empty set is requested on every base; then %d distinct pointer types are const-qualified in address "
                "order and main_variant(), qualifiers(), identity of a repeated request and the nesting rule are read back" % bulk_n,
        "exhaustive": True,
        "samples": [s.lines[i] for i in (len(s.lines) // 3, len(s.lines) // 3 + 1, len(s.lines) // 3 + 2)],
        "traces_validated_against_impl": st["n"],
        "input_distribution": {"qualification_requests": nq, "splittings_per_base": sum(len(lexgen.splittings(Q)) for Q in range(1, 8))},
    })
