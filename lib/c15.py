"""C15 — derived interface operations agree with the primitives they are defined from."""
from common import *
import facts as factsmod


def check(res):
    f = factsmod.get_facts()
    status, out = coq_obligations(res, ["Properties_C15.v"])
    exe = build_driver("c15_driver", "asan")
    p = run([exe], timeout=1200, env=SAN_ENV)
    if p.returncode != 0:
        res.violation("crash", "c15 driver aborted (sanitizer report or crash)", {"stderr": p.stderr[-3000:]})
        return
    lines = p.stdout.splitlines()
    helpers = {}
    keys = set()
    for l in lines:
        d = dict(x.split("=", 1) for x in l.split() if "=" in x)
        h = d.get("helper", "?")
        helpers[h] = helpers.get(h, 0) + 1
        if d.get("ok") != "1" and h not in keys:
            keys.add(h)
            res.violation("oracle:" + h, "derived operation %s disagrees with its definition on node %s (%s)" %
                          (h, d.get("node"), " ".join(l.split()[3:])),
                          {"line": l, "rerun": "build/<hash>/asan/c15_driver | grep 'ok=0'"})
    if not all(status.values()) and not keys:
        # name the derived operation whose regenerated body no longer satisfies its theorem
        res.violation("coq:Properties_C15.v", "a theorem about the regenerated body of a derived operation no longer checks",
                      {"theorem_file": "Properties_C15.v", "error": coq_error_excerpt(out, "Properties_C15.v"),
                       "regenerated_bodies": {k: v for k, v in list(f.get("derived", {}).items()) if k in ("Block::try_block", "Sequence::empty", "Product::operator[]")}},
                      no_input=True)
    res.coverage.update({
        "evaluations": len(lines), "distinct_nontrivial": len(set(lines)),
        "rule": "every derived operation named by the property evaluated next to its definition on every zoo node of the relevant kind plus "
                "blocks with 0/1/3 handlers, products/sums/expression lists/parameter lists of length 0/1/7, parameters with and without "
                "initializer; begin/end/position/iteration on every sequence, and iterators at equal positions of up to 6 earlier sequences of the same element type compared with == and !=; == and != on all pairs of 7 logograms, 9 linkages, 8 conventions, "
                "73 transfers and 5 basic specifiers against spelling equality",
        "samples": [lines[0], lines[len(lines) // 2], lines[-1]],
        "traces_validated_against_impl": len(lines),
        "evaluations_by_helper": helpers,
        "generated_tables": {"derived_operations_translated": len(f.get("derived", {})),
                             "untranslatable": sorted(k for k, v in f.get("derived", {}).items() if "CUnknown" in json.dumps(v))[:30]},
    })
    res.assumptions += ["primitive accessors are arbitrary functions in the theorems (any node, any state)",
                        "equality of spellings <-> identity of String objects rests on C03/C04"]
