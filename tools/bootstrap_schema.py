#!/usr/bin/env python3
"""One-off helper used when Schema.v's documentation table was first written: proposes, from a sweep
dump, the (accessor -> operand) rows, which were then reviewed by hand against <ipr/interface>,
<ipr/cxx-form>, <ipr/attribute> and frozen in coq/Schema.v.  NOT run by any check."""
import sys, json, re, collections
plan = json.load(open(sys.argv[1]))["plan"]
dump = {}
for l in open(sys.argv[2]):
    m = re.match(r"F (\S+) args=(\S+) :: (.*)$", l.rstrip("\n"))
    if not m: continue
    d = collections.OrderedDict()
    for kv in m.group(3).split():
        k, _, v = kv.partition("=")
        d[k] = v
    dump.setdefault(m.group(1), []).append((m.group(2), d))
NOISE = {"implementation", "annotation", "source_location", "unit_location"}
PROJ = {("name", "D", "I"), ("type", "D", "T"), ("linkage", "X", "LK"), ("convention", "X", "CC")}
def proj(what, arg):
    m = re.match(r"([A-Z]+)(\d+)$", arg)
    if not m: return None
    for w, a, b in PROJ:
        if w == what and m.group(1) == a: return b + m.group(2)
    return None
rows = collections.OrderedDict()
byname = {}
for e in plan:
    byname.setdefault((e["class"], e["name"], tuple(e["sorts"])), []).append(e)
for (cls, name, sorts), es in byname.items():
    obs = []
    for e in es:
        ds = dump.get(e["key"], [])
        # several lines may share a key when two overloads have equal arity: match by args
        for a, d in ds:
            if a == (",".join(e["args"]) or "-"):
                obs.append((e["args"], d))
    if not obs: continue
    key = "%s(%s)" % (name, ",".join(sorts))
    accs = [a for a in obs[0][1] if a not in NOISE]
    row = []
    for a in accs:
        vals = [d.get(a) for _, d in obs]
        sv = None
        for p in range(len(sorts)):
            if all(args[p] == v for (args, _), v in zip(obs, vals)):
                sv = "Arg %d" % p; break
            if a == "type" and all((args[p] == v) or (args[p] == "none" and v == "E") for (args, _), v in zip(obs, vals)):
                sv = "ArgT %d" % p; break
        if sv is None:
            for p in range(len(sorts)):
                for what in ("name", "type", "linkage", "convention"):
                    if all(proj(what, args[p]) == v for (args, _), v in zip(obs, vals)):
                        sv = 'Proj "%s" %d' % (what, p)
        if sv is None and len(sorts) and all(v is not None for v in vals):
            # a value built from operands: template it
            def templ(args, v):
                parts = [v]
                for p, an in sorted(enumerate(args), key=lambda t: -len(t[1])):
                    if not re.match(r"[A-Z]+\d+$|x:[0-9a-f]+$|\d+$", an): continue
                    new = []
                    for part in parts:
                        if isinstance(part, int): new.append(part); continue
                        bits = re.split(r"(?<![A-Za-z0-9])" + re.escape(an) + r"(?![0-9a-f])", part)
                        for i, b in enumerate(bits):
                            if i: new.append(p)
                            if b: new.append(b)
                    parts = new
                return parts
            ts = [templ(args, v) for (args, _), v in zip(obs, vals)]
            if all(t == ts[0] for t in ts) and any(isinstance(x, int) for x in ts[0]):
                sv = "Fmt [%s]" % "; ".join(("PArg %d" % x) if isinstance(x, int) else 'Txt "%s"' % x for x in ts[0])
        if sv is None:
            if len(set(vals)) == 1: sv = 'Lit "%s"' % vals[0]
            else: sv = 'Lit "??%s"' % "|".join(map(str, vals))
        row.append((a, sv))
    if key in rows and rows[key] != row:
        print("(* CONFLICT %s %s *)" % (cls, key))
    rows[key] = row
print("Definition doc_table : list (string * list (string * sval)) :=\n  [", end="")
first = True
for k, row in rows.items():
    print(("" if first else ";\n   ") + '("%s", [%s])' % (k, "; ".join('("%s", %s)' % (a, sv) for a, sv in row)), end="")
    first = False
print("].")
