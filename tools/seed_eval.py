#!/usr/bin/env python3
"""seed_eval.py <property id> <mutation dir> <name under /verif/seeded>

Confirms one seeded breaking change and runs the property's check against it:
  1. the demonstration holds on the pristine /repo (exit 0);
  2. the patch applies to /repo, the library still builds and the repository's own test-suite still passes;
  3. the demonstration shows the violation on the patched tree (non-zero exit);
  4. ./check <id> (quick) is run against the patched tree: VIOLATION expected;
  5. /repo is restored (git checkout), whatever happened;
  6. the change is stored under /verif/seeded/<name>/ with what was observed (meta.json: "confirmed", "detected").
Nothing is committed in /repo."""
import json
import os
import re
import shutil
import subprocess
import sys
import time

# SEED_REPO / SEED_VERIF: evaluate against a scratch clone of /repo and a scratch copy of /verif (so that a long check of the
# real tree can run at the same time); results are always stored under /verif/seeded
REPO = os.environ.get("SEED_REPO", "/repo")
VERIF = os.environ.get("SEED_VERIF", "/verif")
STORE = "/verif"


def sh(cmd, cwd=None, timeout=3600, env=None):
    p = subprocess.run(cmd, shell=isinstance(cmd, str), cwd=cwd, stdout=subprocess.PIPE, stderr=subprocess.STDOUT, text=True, timeout=timeout, env=env)
    return p.returncode, p.stdout


def main():
    pid, mdir, name = sys.argv[1], sys.argv[2], sys.argv[3]
    extra_checks = sys.argv[4:]
    out = {"property": pid, "source_dir": mdir}
    patch = os.path.join(mdir, "patch.diff")
    demo = os.path.join(mdir, "demo.sh")
    meta = {}
    try:
        meta = json.load(open(os.path.join(mdir, "meta.json")))
    except Exception as e:
        meta = {"note": "meta.json unreadable: %s" % e}
    assert sh("git -C " + REPO + " status --porcelain --untracked-files=no")[1].strip() == "", "/repo is not clean"
    t0 = time.time()
    # 1. demo on the pristine tree
    rc0, o0 = sh("sh %s %s" % (demo, REPO), cwd=mdir, timeout=900)
    out["demo_pristine_rc"] = rc0
    out["demo_pristine_tail"] = o0[-600:]
    try:
        rc, o = sh("git -C " + REPO + " apply %s" % patch)
        out["applies"] = (rc == 0)
        if rc != 0:
            out["apply_error"] = o[-500:]
            raise SystemExit
        # 2. build + tests
        rc, o = sh("cmake --build " + REPO + "/_build 2>&1 | tail -3")
        rc2, o2 = sh("ctest --test-dir " + REPO + "/_build -j8 --timeout 900 2>&1 | tail -4")
        out["builds"] = "error" not in o.lower() and "FAILED" not in o
        out["tests_pass"] = "100% tests passed" in o2
        out["tests_tail"] = o2[-300:]
        # 3. demo on the patched tree
        rc1, o1 = sh("sh %s %s" % (demo, REPO), cwd=mdir, timeout=900)
        out["demo_mutated_rc"] = rc1
        out["demo_mutated_tail"] = o1[-800:]
        out["confirmed"] = bool(out["builds"] and out["tests_pass"] and rc0 == 0 and rc1 != 0)
        # 4. the checks
        out["checks"] = {}
        for c in [pid] + extra_checks:
            tc = time.time()
            rc, o = sh("./check %s" % c, cwd=VERIF, timeout=5400, env=dict(os.environ, IPR_REPO=REPO))
            viol = [l for l in o.splitlines() if l.startswith("VIOLATION")]
            keys = []
            for l in viol[:6]:
                m = re.search(r"replay=(\S+)", l)
                if m and os.path.exists(m.group(1)):
                    r = json.load(open(m.group(1)))
                    keys.append({"key": r.get("key"), "what": (r.get("what") or "")[:400], "no_failing_input": l.rstrip().endswith("no-failing-input-found")})
            out["checks"][c] = {"exit": rc, "violations": len(viol), "first": keys, "seconds": round(time.time() - tc, 1)}
        out["detected"] = out["checks"][pid]["exit"] == 1 and out["checks"][pid]["violations"] > 0
    finally:
        sh("git -C " + REPO + " checkout -- .")
        sh("cmake --build " + REPO + "/_build 2>&1 | tail -1")
    out["seconds"] = round(time.time() - t0, 1)
    dst = os.path.join(STORE, "seeded", name)
    os.makedirs(dst, exist_ok=True)
    for f in ("patch.diff", "demo.cxx", "demo.sh"):
        if os.path.exists(os.path.join(mdir, f)):
            shutil.copy(os.path.join(mdir, f), os.path.join(dst, f))
    meta["evaluation"] = out
    json.dump(meta, open(os.path.join(dst, "meta.json"), "w"), indent=1)
    print(json.dumps({k: out.get(k) for k in ("applies", "builds", "tests_pass", "demo_pristine_rc", "demo_mutated_rc", "confirmed", "detected", "seconds")}))
    for c, v in out.get("checks", {}).items():
        print(" ", c, v["exit"], v["violations"], [(k["key"], k["no_failing_input"]) for k in v["first"]][:4])


if __name__ == "__main__":
    main()
