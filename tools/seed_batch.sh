#!/bin/bash
# evaluates every finished seeded mutation that has not been evaluated yet, one after the other (they share /repo)
cd /verif
for p in "$@"; do
  for v in a b c d e f g h; do
    d=/tmp/iprm-$p/_mutation/$v
    [ -f $d/patch.diff ] || continue
    name=$p; [ $v != a ] && name=$p-$v
    [ -f /verif/seeded/$name/meta.json ] && continue
    echo "### $name $(date -u +%H:%M:%S)"
    python3 tools/seed_eval.py $p $d $name 2>&1 | tail -6
  done
done
echo "### batch done $(date -u +%H:%M:%S)"
