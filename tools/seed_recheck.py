#!/usr/bin/env python3
"""seed_recheck.py <name under /verif/seeded> ...

Runs the property's quick check again against a stored seeded change (after the checks were strengthened) and appends
what was observed to seeded/<name>/meta.json under "reevaluations".  SEED_REPO / SEED_VERIF as in seed_eval.py.
Nothing is committed in the repository; the tree is restored whatever happens."""
import json
import os
import re
import subprocess
import sys
import time

REPO = os.environ.get("SEED_REPO", "/repo")
VERIF = os.environ.get("SEED_VERIF", "/verif")


def sh(cmd, cwd=None, timeout=5400, env=None):
    p = subprocess.run(cmd, shell=True, cwd=cwd, stdout=subprocess.PIPE, stderr=subprocess.STDOUT, text=True, timeout=timeout, env=env)
    return p.returncode, p.stdout


def main():
    commit = sh("git -C /verif rev-parse --short HEAD")[1].strip()
    for name in sys.argv[1:]:
        d = os.path.join("/verif/seeded", name)
        meta = json.load(open(os.path.join(d, "meta.json")))
        pid = name.split("-")[0]
        assert sh("git -C %s status --porcelain --untracked-files=no" % REPO)[1].strip() == "", "repository copy is not clean"
        t0 = time.time()
        rec = {"verif_commit": commit, "property": pid}
        try:
            rc, o = sh("git -C %s apply %s" % (REPO, os.path.join(d, "patch.diff")))
            if rc != 0:
                rec["error"] = "patch does not apply: " + o[-300:]
            else:
                rc, o = sh("./check %s" % pid, cwd=VERIF, env=dict(os.environ, IPR_REPO=REPO))
                viol = [l for l in o.splitlines() if l.startswith("VIOLATION")]
                first = []
                for l in viol[:4]:
                    m = re.search(r"replay=(\S+)", l)
                    if m and os.path.exists(m.group(1)):
                        r = json.load(open(m.group(1)))
                        first.append({"key": r.get("key"), "what": (r.get("what") or "")[:300], "no_failing_input": l.rstrip().endswith("no-failing-input-found")})
                rec.update({"exit": rc, "violations": len(viol), "first": first, "detected": rc == 1 and len(viol) > 0})
        finally:
            sh("git -C %s checkout -- ." % REPO)
        rec["seconds"] = round(time.time() - t0, 1)
        meta.setdefault("reevaluations", []).append(rec)
        json.dump(meta, open(os.path.join(d, "meta.json"), "w"), indent=1)
        print(name, rec.get("detected"), [(k["key"], k["no_failing_input"]) for k in rec.get("first", [])][:3], rec["seconds"], flush=True)


if __name__ == "__main__":
    main()
