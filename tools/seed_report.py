#!/usr/bin/env python3
"""Prints the table of seeded breaking changes (from /verif/seeded/*/meta.json) for DESIGN.md §9.1."""
import glob
import json
import os

rows = []
import sys
ONLY = sys.argv[1:]      # e.g. -e -f : only these variants
for d in sorted(glob.glob("/verif/seeded/*")):
    if ONLY and not any(os.path.basename(d).endswith(x) for x in ONLY):
        continue
    try:
        m = json.load(open(os.path.join(d, "meta.json")))
    except Exception:
        continue
    ev = m.get("evaluation", {})
    name = os.path.basename(d)
    pid = ev.get("property", name[:3])
    chk = ev.get("checks", {}).get(pid, {})
    keys = "; ".join(sorted(set((k.get("key") or "?").split(":")[0] + (" (no input)" if k.get("no_failing_input") else "") for k in chk.get("first", []))))[:80]
    others = ", ".join("%s:%s" % (c, "fires" if v.get("exit") == 1 else "quiet") for c, v in ev.get("checks", {}).items() if c != pid)
    later = ""
    for r in m.get("reevaluations", []):
        lk = "; ".join(sorted(set((k.get("key") or "?").split(":")[0] + (" (no input)" if k.get("no_failing_input") else "") for k in r.get("first", []))))[:60]
        later = "%s at %s: %s" % ("**caught**" if r.get("detected") else "missed", r.get("verif_commit"), lk)
    if ev.get("detected"):
        verdict = "**caught**"
    elif later:
        verdict = "missed at first; " + later
        keys = ""
    else:
        verdict = "MISSED"
    rows.append("| %s | %s | %s | %s | %s | %s |" % (name, (m.get("summary") or "")[:150].replace("|", "/"), "yes" if ev.get("confirmed") else "NO",
                                                    verdict, keys, others))
print("| seeded change | what it does | confirmed (builds, 17 tests pass, demo fails) | check of its property | violation keys | other checks run |")
print("|---|---|---|---|---|---|")
print("\n".join(rows))
