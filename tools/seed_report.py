#!/usr/bin/env python3
"""Prints the table of seeded breaking changes (from /verif/seeded/*/meta.json) for DESIGN.md §9.1."""
import glob
import json
import os

rows = []
for d in sorted(glob.glob("/verif/seeded/*")):
    try:
        m = json.load(open(os.path.join(d, "meta.json")))
    except Exception:
        continue
    ev = m.get("evaluation", {})
    name = os.path.basename(d)
    pid = ev.get("property", name[:3])
    chk = ev.get("checks", {}).get(pid, {})
    keys = "; ".join(sorted(set((k.get("key") or "?").split(":")[0] + (" (no input)" if k.get("no_failing_input") else "") for k in chk.get("first", []))))[:80]
    others = ", ".join("%s:%s" % (c, "fires" if v.get("exit") == 1 else "quiet") for c, v in ev.get("checks", {}).items() if c != pid)
    rows.append("| %s | %s | %s | %s | %s | %s |" % (name, (m.get("summary") or "")[:150].replace("|", "/"), "yes" if ev.get("confirmed") else "NO",
                                                    "**caught**" if ev.get("detected") else "MISSED", keys, others))
print("| seeded change | what it does | confirmed (builds, 17 tests pass, demo fails) | check of its property | violation keys | other checks run |")
print("|---|---|---|---|---|---|")
print("\n".join(rows))
