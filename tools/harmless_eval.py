#!/usr/bin/env python3
"""harmless_eval.py <directory with hNN.diff> [check ids...]

Applies each behaviour-preserving rewrite to a scratch clone of the repository (SEED_REPO), confirms that it builds and that
the repository's tests pass, runs the quick checks (all twenty by default) from a scratch copy of /verif (SEED_VERIF) and
records which of them raise an alarm.  The tree is restored after each rewrite.  Result: <directory>/harmless_results.json"""
import json
import os
import re
import subprocess
import sys
import time

REPO = os.environ.get("SEED_REPO", "/repo")
VERIF = os.environ.get("SEED_VERIF", "/verif")


def sh(cmd, cwd=None, timeout=7200, env=None):
    p = subprocess.run(cmd, shell=True, cwd=cwd, stdout=subprocess.PIPE, stderr=subprocess.STDOUT, text=True, timeout=timeout, env=env)
    return p.returncode, p.stdout


def main():
    d = sys.argv[1]
    checks = sys.argv[2:] or ["C%02d" % i for i in range(1, 21)]
    out_path = os.path.join(d, "harmless_results.json")
    results = json.load(open(out_path)) if os.path.exists(out_path) else {}
    for f in sorted(x for x in os.listdir(d) if re.fullmatch(r"h\d+\.diff", x)):
        if f in results:
            continue
        assert sh("git -C %s status --porcelain --untracked-files=no" % REPO)[1].strip() == "", "repository copy is not clean"
        rec = {"checks": {}}
        t0 = time.time()
        try:
            rc, o = sh("git -C %s apply %s" % (REPO, os.path.join(d, f)))
            rec["applies"] = rc == 0
            if rc == 0:
                rc, o = sh("cmake --build %s/_build 2>&1 | tail -3" % REPO)
                rc2, o2 = sh("ctest --test-dir %s/_build -j8 --timeout 900 2>&1 | tail -4" % REPO)
                rec["builds"] = "error" not in o.lower()
                rec["tests_pass"] = "100% tests passed" in o2
                for c in checks:
                    rc, o = sh("./check %s" % c, cwd=VERIF, env=dict(os.environ, IPR_REPO=REPO))
                    viol = [l for l in o.splitlines() if l.startswith("VIOLATION")]
                    first = []
                    for l in viol[:3]:
                        m = re.search(r"replay=(\S+)", l)
                        if m and os.path.exists(m.group(1)):
                            r = json.load(open(m.group(1)))
                            first.append({"key": r.get("key"), "what": (r.get("what") or "")[:300], "no_failing_input": l.rstrip().endswith("no-failing-input-found"),
                                          "detail": json.dumps(r.get("replay"))[:600]})
                    rec["checks"][c] = {"exit": rc, "violations": len(viol), "first": first}
        finally:
            sh("git -C %s checkout -- ." % REPO)
            sh("cmake --build %s/_build 2>&1 | tail -1" % REPO)
        rec["seconds"] = round(time.time() - t0, 1)
        rec["alarms"] = sorted(c for c, v in rec["checks"].items() if v["exit"] != 0 or v["violations"])
        results[f] = rec
        json.dump(results, open(out_path, "w"), indent=1)
        print(f, "applies" if rec.get("applies") else "DOES NOT APPLY", "tests" if rec.get("tests_pass") else "TESTS FAIL", "alarms:", rec["alarms"], rec["seconds"], flush=True)


if __name__ == "__main__":
    main()
