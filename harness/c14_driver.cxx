// c14_driver.cxx — partially built sequence states (C14): slots of a reference sequence that were sized in
// advance and never filled, and positional access on every Sequence implementation built directly.
//   stdin: one case name per line;  stdout: C <case> :: <outcome per access>
//   outcome: ok:<n> | E (refused with a logic_error) | X(<type>) (another exception) ; a crash is a sanitizer report
#include "fsweep.h"
#include <iostream>

using namespace iprv;

template<class S> static std::string probe_all(const S& s)
{
   std::string out = "size=" + std::to_string(s.size());
   for (std::size_t i = 0; i < s.size() + 3; ++i)
      out += " get(" + std::to_string(i) + ")=" + guarded([&] { (void) &*s.position(i); return std::string("ok"); });
   out += " get(max)=" + guarded([&] { (void) &*s.position(std::size_t(-1)); return std::string("ok"); });
   out += " walk=" + guarded([&] { std::size_t k = 0; for (auto& e : s) { (void) &e; ++k; } return "ok:" + std::to_string(k); });
   return out;
}

int main()
{
   Pools w;
   std::string c;
   while (std::getline(std::cin, c)) {
      if (c.empty() or c[0] == '#') continue;
      std::string out;
      try {
         if (c == "ref_sequence-unfilled") { impl::ref_sequence<ipr::Type> s(2); out = probe_all(s); }
         else if (c == "ref_sequence-half-filled") { impl::ref_sequence<ipr::Type> s(2); s.push_back(w.types[0]); out = probe_all(s); }
         else if (c == "ref_sequence-filled") { impl::ref_sequence<ipr::Type> s; s.push_back(w.types[0]); s.push_back(w.types[1]); out = probe_all(s); }
         else if (c == "warehouse-unfilled-product") {
            impl::Warehouse<ipr::Type> h(2);
            out = guarded([&] { auto& p = w.lex.get_product(h); return "made " + probe_all(p.elements()); });
         }
         else if (c == "warehouse-unfilled-sum") {
            impl::Warehouse<ipr::Type> h(3);
            out = guarded([&] { auto& p = w.lex.get_sum(h); return "made " + probe_all(p.elements()); });
         }
         else if (c == "warehouse-unfilled-walk") {
            impl::Warehouse<ipr::Type> h(2);
            out = guarded([&] { std::size_t k = 0; for (auto& t : h) { (void) &t; ++k; } return "ok:" + std::to_string(k); });
         }
         else if (c == "expr_list-unfilled") {
            auto* xl = w.lex.make_expr_list(); xl->seq.seq.resize(2);
            out = probe_all(xl->elements()) + " type=" + guarded([&] { return show(xl->type()); });
         }
         else if (c == "obj_sequence") { impl::obj_sequence<impl::Enumerator> s; out = probe_all(s); }
         else if (c == "empty_sequence") { impl::empty_sequence<ipr::Decl> s; out = probe_all(s); }
         else if (c == "singleton_ref") { impl::singleton_ref<ipr::Type> s(*w.types[0]); out = probe_all(s); }
         else if (c == "decl_set") { out = probe_all(w.decls[0]->decl_set()); }
         else if (c == "enumerators") {
            auto* e = w.lex.make_enum(*w.greg, ipr::Enum::Kind::Scoped); e->add_member(*w.ids[0]); e->add_member(*w.ids[1]);
            out = probe_all(e->members()) + " scope: " + probe_all(e->region().bindings().elements());
         }
         else if (c == "parameters") {
            auto* m = w.lex.make_mapping(*w.greg, Mapping_level{ 1 }); m->param(*w.ids[0], *w.types[0]);
            out = probe_all(m->parameters().elements()) + " types: " + probe_all(m->parameters().type().elements());
         }
         else if (c == "handlers") {
            auto* b = w.lex.make_block(*w.greg); b->new_handler(*w.ids[0], *w.types[0]);
            out = probe_all(b->handlers()) + " body: " + probe_all(b->body());
         }
         else if (c == "unattached-parameter") {
            // a parameter entered directly into the declarative region of a parameter list (the member-level route that
            // add_member itself uses): its link to the list was never set; every accessor answers or refuses
            auto* m = w.lex.make_mapping(*w.greg, Mapping_level{ 1 });
            auto& scope = m->inputs.parms.scope;
            impl::Parameter* raw = scope.push_back(*w.ids[0], *w.types[0], ipr::Decl_position{ scope.size() });
            out = "made " + guarded([&] { return dump(as_iface(*raw)); });
         }
         else if (c == "fundecl-states") {
            // a function declaration keeps EITHER its own parameter list OR its mapping (definition) in the public member `data`; each of
            // the two alternatives with its pointer not yet set: every accessor answers or refuses
            auto& ftype = w.lex.get_function(*w.prods[1], *w.types[0]);
            auto* fun = w.greg->declare_fun(*w.ids[3], ftype);
            out = "fresh " + guarded([&] { return dump(as_iface(*fun)); });
            fun->data.template emplace<0>(nullptr);
            out += " list-unset " + guarded([&] { return dump(as_iface(*fun)); });
            fun->data.template emplace<1>(nullptr);
            out += " mapping-unset " + guarded([&] { return dump(as_iface(*fun)); });
            auto* body = w.lex.make_mapping(*w.greg, Mapping_level{ 1 });
            fun->data.template emplace<1>(body);
            out += " mapping-set " + guarded([&] { return dump(as_iface(*fun)); });
         }
         else out = "unknown-case";
      }
      catch (const std::logic_error&) { out += " E"; }
      catch (const std::exception& e) { out += std::string(" X(") + typeid(e).name() + ")"; }
      std::printf("C %s :: %s\n", c.c_str(), out.c_str());
   }
   return 0;
}
