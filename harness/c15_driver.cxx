// c15_driver.cxx — evaluates every derived (convenience) operation of the interface
// side by side with its definition in terms of primitive accessors, on every zoo
// node of the relevant kind and on sequences of length 0, 1, many (C15).
// Output: one line per evaluation: helper=<name> node=<label> ok=<0|1> [detail]
#include "zoo.h"
#include <cstdio>
#include <set>

using namespace ipr;
static long nfail = 0;
static void out(const char* helper, const std::string& label, bool ok, const std::string& detail = "")
{
   std::string l = label; for (auto& c : l) if (c == ' ') c = '_';
   std::printf("helper=%s node=%s ok=%d%s%s\n", helper, l.c_str(), int(ok), detail.empty() ? "" : " ", detail.c_str());
   if (not ok) ++nfail;
}

template<class T>
static void check_sequence(const char* what, const std::string& label, const ipr::Sequence<T>& s)
{
   auto n = s.size();
   out("Sequence::empty", label + ":" + what, s.empty() == (n == 0), "size=" + std::to_string(n));
   auto b = s.begin(); auto e = s.end();
   out("Sequence::begin/end", label + ":" + what, (b == s.position(0)) and (e == s.position(n)) and ((b == e) == (n == 0)) and ((b != e) == (n != 0)));
   // iteration visits exactly size() elements and agrees with positional access
   std::size_t count = 0; bool agree = true;
   for (auto it = s.begin(); it != s.end(); ++it, ++count) {
      if (count > n + 2) break;
      agree = agree and (&*it == &*s.position(count)) and (it.operator->() == &*it);
   }
   out("Sequence::iteration", label + ":" + what, count == n and agree, "visited=" + std::to_string(count));
   if (n > 0) {
      auto it = s.begin(); auto it2 = it; ++it2; auto it3 = it2; --it3;
      auto post = it; auto old = post++;
      auto pd = it2; auto oldd = pd--;                          // postfix decrement: yields the old position, steps back
      out("Iterator::++/--", label + ":" + what, it3 == it and old == it and post == it2 and (it2 != it) and oldd == it2 and pd == it);
      // a full walk backwards with each flavour of decrement
      std::size_t back = 0, backp = 0;
      for (auto r = s.end(); r != s.begin() and back <= n + 2;) { --r; ++back; }
      for (auto r = s.end(); r != s.begin() and backp <= n + 2;) { r--; ++backp; }
      out("Iterator::backwards", label + ":" + what, back == n and backp == n, "visited=" + std::to_string(back) + "/" + std::to_string(backp));
   }
   if (n > 1) {
      // the prefix forms yield the iterator itself: stepping twice through their result moves the iterator twice
      auto p = s.end(); --(--p);
      auto q = s.begin(); ++(++q);
      bool refs = std::is_lvalue_reference_v<decltype(--p)> and std::is_lvalue_reference_v<decltype(++p)>;
      out("Iterator::--(--p)/++(++p)", label + ":" + what, p == s.position(n - 2) and q == s.position(2) and refs,
          std::string("yields-the-iterator-itself=") + (refs ? "1" : "0"));
   }
   // iterators into DIFFERENT sequences are different, whatever their positions (== compares the sequence and the index)
   static std::vector<const ipr::Sequence<T>*> earlier;
   bool apart = true;
   std::size_t pairs = 0;
   for (auto other : earlier) {
      if (other == &s) continue;
      ++pairs;
      auto m = std::min(n, other->size());
      for (std::size_t i : { std::size_t(0), m / 2, m })
         apart = apart and not (s.position(i) == other->position(i)) and (s.position(i) != other->position(i));
      apart = apart and (s.begin() != other->begin()) and not (s.begin() == other->begin());
   }
   if (pairs > 0) out("Iterator::==(other_sequence)", label + ":" + what, apart, "pairs=" + std::to_string(pairs));
   if (earlier.size() < 6 and std::find(earlier.begin(), earlier.end(), &s) == earlier.end()) earlier.push_back(&s);
}

int main()
{
   iprv::Zoo zoo;
   zoo.build();
   // extra blocks with 0, 1, 3 handlers; empty / singleton / larger sequences
   auto& lex = zoo.lex; auto& greg = *zoo.greg;
   auto* b0 = lex.make_block(greg); zoo.add("block:0-handlers", b0);
   auto* b1 = lex.make_block(greg); b1->new_handler(zoo.id(u8"e"), lex.int_type()); zoo.add("block:1-handler", b1);
   auto* b3 = lex.make_block(greg);
   for (int i = 0; i < 3; ++i) b3->new_handler(zoo.id(u8"e"), lex.int_type());
   b3->add_stmt(*zoo.e1); b3->add_stmt(*zoo.e2);
   zoo.add("block:3-handlers", b3);
   impl::Warehouse<ipr::Type> w0; zoo.add("product:empty", lex.get_product(w0)); zoo.add("sum:empty", lex.get_sum(w0));
   impl::Warehouse<ipr::Type> w1; w1.push_back(lex.int_type()); zoo.add("product:1", lex.get_product(w1));
   impl::Warehouse<ipr::Type> w7; for (int i = 0; i < 7; ++i) w7.push_back(i % 2 ? lex.int_type() : lex.bool_type());
   zoo.add("product:7", lex.get_product(w7)); zoo.add("sum:7", lex.get_sum(w7));
   auto* xl0 = lex.make_expr_list(); zoo.add("expr_list:empty", xl0);
   auto* m0 = lex.make_mapping(greg, Mapping_level{ 3 }); m0->body = zoo.e1; zoo.add("mapping:no-params", m0);
   zoo.add("mapping:no-params.parameters", m0->parameters());
   auto* m7 = lex.make_mapping(greg, Mapping_level{ 3 }); m7->body = zoo.e1;
   for (int i = 0; i < 7; ++i) { auto* p = m7->param(zoo.id(u8"p"), lex.int_type()); if (i % 2) p->init = zoo.e2; zoo.add("param:" + std::to_string(i), p); }
   zoo.add("mapping:7-params.parameters", m7->parameters());

   for (auto& en : zoo.nodes) {
      const ipr::Node& n = *en.node;
      const std::string& L = en.label;
      if (auto b = util::view<ipr::Block>(n)) {
         out("Block::try_block", L, b->try_block() == (b->handlers().size() > 0), "handlers=" + std::to_string(b->handlers().size()) + " try_block=" + std::to_string(b->try_block()));
         out("Block::body", L, &b->body() == &b->region().body());
         check_sequence("handlers", L, b->handlers());
         check_sequence("body", L, b->body());
      }
      if (auto p = util::view<ipr::Product>(n)) {
         bool ok = p->size() == p->elements().size() and &p->elements() == &p->operand();
         for (std::size_t i = 0; i < p->size(); ++i) ok = ok and &(*p)[i] == &*p->elements().position(i);
         out("Product::size/[]", L, ok, "size=" + std::to_string(p->size()));
         check_sequence("elements", L, p->elements());
      }
      if (auto p = util::view<ipr::Sum>(n)) {
         bool ok = p->size() == p->elements().size();
         for (std::size_t i = 0; i < p->size(); ++i) ok = ok and &(*p)[i] == &*p->elements().position(i);
         out("Sum::size/[]", L, ok, "size=" + std::to_string(p->size()));
         check_sequence("elements", L, p->elements());
      }
      if (auto x = util::view<ipr::Expr_list>(n)) {
         out("Expr_list::size", L, x->size() == x->elements().size() and &x->elements() == &x->operand());
         check_sequence("elements", L, x->elements());
      }
      if (auto s = util::view<ipr::Scope>(n)) {
         out("Scope::size/begin/end", L, s->size() == s->elements().size() and s->begin() == s->elements().begin() and s->end() == s->elements().end());
         check_sequence("elements", L, s->elements());
      }
      if (auto pl = util::view<ipr::Parameter_list>(n)) {
         out("Parameter_list::size/begin/end", L, pl->size() == pl->elements().size() and pl->begin() == pl->elements().begin() and pl->end() == pl->elements().end());
         check_sequence("elements", L, pl->elements());
      }
      if (auto u = util::view<ipr::Namespace>(n)) { out("Udt::scope", L, &u->scope() == &u->region().bindings()); out("Namespace::members", L, &u->members() == &u->scope().elements()); }
      if (auto u = util::view<ipr::Class>(n)) { out("Udt::scope", L, &u->scope() == &u->region().bindings()); out("Class::members", L, &u->members() == &u->scope().elements()); check_sequence("bases", L, u->bases()); }
      if (auto u = util::view<ipr::Union>(n)) { out("Udt::scope", L, &u->scope() == &u->region().bindings()); out("Union::members", L, &u->members() == &u->scope().elements()); }
      if (auto u = util::view<ipr::Enum>(n)) { out("Udt::scope", L, &u->scope() == &u->region().bindings()); check_sequence("members", L, u->members()); }
      if (auto u = util::view<ipr::Closure>(n)) { out("Udt::scope", L, &u->scope() == &u->region().bindings()); check_sequence("members", L, u->members()); }
      if (auto t = util::view<ipr::Template>(n)) {
         out("Template::parameters/result", L, &t->parameters() == &t->mapping().parameters() and &t->result() == &t->mapping().result());
      }
      if (auto p = util::view<ipr::Parameter>(n)) {
         auto a = p->default_value(), b = p->initializer();
         out("Parameter::default_value", L, a.is_valid() == b.is_valid() and (not a.is_valid() or &a.get() == &b.get()), std::string("has_init=") + (b.is_valid() ? "1" : "0"));
      }
      // every type: linkage() is transfer().linkage()
#define TRY_TYPE(K) if (auto t = util::view<ipr::K>(n)) out("Type::linkage", L, &static_cast<const ipr::Type*>(t)->linkage() == &static_cast<const ipr::Type*>(t)->transfer().linkage());
      TRY_TYPE(Pointer) TRY_TYPE(Reference) TRY_TYPE(Array) TRY_TYPE(Qualified) TRY_TYPE(Function) TRY_TYPE(As_type) TRY_TYPE(Product)
      TRY_TYPE(Sum) TRY_TYPE(Class) TRY_TYPE(Enum) TRY_TYPE(Decltype) TRY_TYPE(Forall) TRY_TYPE(Tor) TRY_TYPE(Ptr_to_member) TRY_TYPE(Auto)
#undef TRY_TYPE
   }
   // equalities: every pair, against spelling equality
   std::vector<std::u8string> words = { u8"", u8"C", u8"C++", u8"stdcall", u8"fastcall", u8"static", u8"stdcal" };
   std::vector<const ipr::Logogram*> logos; std::vector<const ipr::Linkage*> links; std::vector<const ipr::Calling_convention*> ccs;
   for (auto& wd : words) {
      logos.push_back(&lex.get_logogram(lex.get_string(wd)));
      links.push_back(&lex.get_linkage(wd));
      ccs.push_back(&lex.get_calling_convention(wd));
   }
   links.push_back(&lex.c_linkage()); links.push_back(&lex.cxx_linkage()); ccs.push_back(&impl::cxx_transfer().convention());
   // values a client builds itself around EQUAL but DISTINCT Logogram objects: another Lexicon's logogram for the very same String node,
   // and by-value copies of the values above
   static impl::Lexicon other;
   static std::vector<ipr::Calling_convention> own_ccs; static std::vector<ipr::Linkage> own_links;
   own_ccs.reserve(64); own_links.reserve(64);
   for (auto& wd : words) {
      auto& shared_string = lex.get_string(wd);
      auto& their_logogram = other.get_logogram(shared_string);
      logos.push_back(&their_logogram);
      own_ccs.emplace_back(their_logogram); ccs.push_back(&own_ccs.back());
      own_links.emplace_back(their_logogram); links.push_back(&own_links.back());
   }
   for (std::size_t i = 0; i < 4; ++i) { own_ccs.push_back(*ccs[i]); ccs.push_back(&own_ccs.back()); own_links.push_back(*links[i]); links.push_back(&own_links.back()); }
   auto spell = [](const ipr::Logogram& l) { auto v = l.what().characters(); return std::string((const char*) v.data(), v.size()); };
   for (auto a : logos) for (auto b : logos)
      out("Logogram::==", spell(*a) + "|" + spell(*b), (*a == *b) == (spell(*a) == spell(*b)) and (*a != *b) == not (*a == *b));
   for (auto a : links) for (auto b : links)
      out("Linkage::==", spell(a->language()) + "|" + spell(b->language()), (*a == *b) == (spell(a->language()) == spell(b->language())) and (*a != *b) == not (*a == *b));
   for (auto a : ccs) for (auto b : ccs)
      out("Calling_convention::==", spell(a->name()) + "|" + spell(b->name()), (*a == *b) == (spell(a->name()) == spell(b->name())) and (*a != *b) == not (*a == *b));
   std::vector<const ipr::Transfer*> xs = { &impl::cxx_transfer() };
   for (auto l : links) for (auto c : ccs) xs.push_back(&lex.get_transfer(*l, *c));
   for (auto a : xs) for (auto b : xs) {
      bool same = spell(a->linkage().language()) == spell(b->linkage().language()) and spell(a->convention().name()) == spell(b->convention().name());
      out("Transfer::==", spell(a->linkage().language()) + "," + spell(a->convention().name()) + "|" + spell(b->linkage().language()) + "," + spell(b->convention().name()),
          (*a == *b) == same and (*a != *b) == not (*a == *b) and &a->linkage() == &a->first() and &a->convention() == &a->second());
   }
   std::vector<ipr::Basic_specifier> bs; std::vector<std::string> bsn;
   for (auto wd : { u8"static", u8"inline", u8"static", u8"const", u8"notaspec" }) { bs.push_back(ipr::Basic_specifier{ lex.get_logogram(lex.get_string(wd)) }); bsn.push_back((const char*) wd); }
   for (size_t i = 0; i < bs.size(); ++i) for (size_t j = 0; j < bs.size(); ++j)
      out("Basic_specifier::==", bsn[i] + "|" + bsn[j], (bs[i] == bs[j]) == (bsn[i] == bsn[j]));
   std::fprintf(stderr, "failures=%ld\n", nfail);
   return 0;
}
