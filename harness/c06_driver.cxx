// c06_driver.cxx — for every node of the zoo: category, which visitor hook
// accept() runs (all hooks overridden / only the seven sinks overridden), and
// the result of util::view<K> for every leaf interface K.
#include "zoo.h"
#include <new>
#include <cstdio>
#include <map>
#include <stdexcept>
#include <typeinfo>

static const char* cat_name(ipr::Category_code c)
{
   switch (c) {
#define CAT(X) case ipr::Category_code::X: return #X;
#include "categories.def"
#undef CAT
   }
   return "?";
}

struct All_visitor : ipr::Visitor {
   std::vector<std::string> ran;
#define SINK(X) void visit(const ipr::X&) override { ran.push_back(#X); }
#include "sinks.def"
#undef SINK
#define HOOK(X) void visit(const ipr::X&) override { ran.push_back(#X); }
#include "hooks.def"
#undef HOOK
};

struct Sink_visitor : ipr::Visitor {
   std::vector<std::string> ran;
#define SINK(X) void visit(const ipr::X&) override { ran.push_back(#X); }
#include "sinks.def"
#undef SINK
};

static std::string join(const std::vector<std::string>& v)
{
   std::string s;
   for (auto& x : v) { if (not s.empty()) s += ','; s += x; }
   return s.empty() ? "-" : s;
}

static void report(const std::string& lbl, const ipr::Node& n);

// The constants every Lexicon shares, as seen by the initializer of a namespace-scope object of a translation unit that is
// linked BEFORE the library (this file comes first on the link line) and again from main(): a node is what its category says
// from the moment a client can reach it.
static void constants(const std::string& pfx)
{
   ipr::impl::Lexicon lex;
#define K(N) { std::printf("%s" #N " category=%d\n", pfx.c_str(), int(lex.N().category)); std::fflush(stdout); report(pfx + #N, lex.N()); }
   K(void_type) K(bool_type) K(char_type) K(schar_type) K(uchar_type) K(wchar_t_type) K(char8_t_type) K(char16_t_type) K(char32_t_type)
   K(short_type) K(ushort_type) K(int_type) K(uint_type) K(long_type) K(ulong_type) K(long_long_type) K(ulong_long_type)
   K(float_type) K(double_type) K(long_double_type) K(ellipsis_type) K(typename_type) K(class_type) K(union_type) K(enum_type)
   K(namespace_type) K(false_value) K(true_value) K(nullptr_value) K(default_value) K(delete_value)
#undef K
   report(pfx + "nullptr_value.type", lex.nullptr_value().type());
   report(pfx + "int_type.name", lex.int_type().name());
   report(pfx + "empty_string", ipr::String::empty_string());
   std::fflush(stdout);
}

int main()
{
   constants("inmain:");
   iprv::Zoo zoo;
   zoo.build();
   for (auto& e : zoo.nodes) report(e.label, *e.node);
   // visitors that refuse: tens of thousands of visits left through an exception (what Missing_overrider and the printer do for
   // constructs they do not support) must leave no trace: the same nodes are then inspected again
   {
      struct Refusing : ipr::Visitor {
#define SINK(X) void visit(const ipr::X&) override { throw std::logic_error("refused"); }
#include "sinks.def"
#undef SINK
      } refusing;
      long refused = 0;
      for (int round = 0; round < 60000; ++round) {
         auto& e = zoo.nodes[std::size_t(round) % zoo.nodes.size()];
         try { e.node->accept(refusing); }
         catch (const std::logic_error&) { ++refused; }
      }
      std::printf("refusals category=%ld\n", refused);
      std::fflush(stdout);
      for (std::size_t i = 0; i < zoo.nodes.size(); i += 9) {
         try { report("after-refusals:" + zoo.nodes[i].label, *zoo.nodes[i].node); }
         catch (const std::exception& e) { std::printf("after-refusals:%s cat=? full=EXCEPTION(%s) sinks=? views=?\n", zoo.nodes[i].label.c_str(), typeid(e).name()); }
      }
   }
   // nodes of DIFFERENT classes that live one after the other at the SAME address (storage reuse after a node dies):
   // the answers must depend on the node, not on what used to be at that address
   {
      alignas(64) static unsigned char slot[1024];
      auto& str = zoo.lex.get_string(u8"reused");
      for (int round = 0; round < 3; ++round) {
         { auto* a = new (slot) ipr::impl::Identifier(str); report("reuse:Identifier#" + std::to_string(round), *a); a->~Identifier(); }
         { auto* a = new (slot) ipr::impl::Operator(str); report("reuse:Operator#" + std::to_string(round), *a); a->~Operator(); }
         { auto* a = new (slot) ipr::impl::Comment(str); report("reuse:Comment#" + std::to_string(round), *a); a->~Comment(); }
         { auto* a = new (slot) ipr::impl::Suffix(zoo.lex.get_identifier(u8"km")); report("reuse:Suffix#" + std::to_string(round), *a); a->~Suffix(); }
         { auto* a = new (slot) ipr::impl::Ctor_name(zoo.lex.int_type()); report("reuse:Ctor_name#" + std::to_string(round), *a); a->~Ctor_name(); }
         { auto* a = new (slot) ipr::impl::Dtor_name(zoo.lex.int_type()); report("reuse:Dtor_name#" + std::to_string(round), *a); a->~Dtor_name(); }
      }
   }
}

static void report(const std::string& lbl, const ipr::Node& n)
{
   {
      All_visitor all; n.accept(all);
      Sink_visitor sk; n.accept(sk);
      std::vector<std::string> views;
#define LEAF(K) if (auto p = ipr::util::view<ipr::K>(n)) { views.push_back(#K); if (static_cast<const ipr::Node*>(p) != &n) views.push_back("WRONG-NODE"); }
#include "leaves.def"
#undef LEAF
      std::string label = lbl;
      for (auto& c : label) if (c == ' ') c = '_';
      std::printf("%s cat=%s full=%s sinks=%s views=%s\n", label.c_str(), cat_name(n.category),
                  join(all.ran).c_str(), join(sk.ran).c_str(), join(views).c_str());
   }
}

namespace {
   struct Before_main { Before_main() { constants("premain:"); } };
   const Before_main before_main;
}
