// zoo.h — builds at least one node of every implementation class the library
// ships (through its factories, documented members and constants), labelled.
// Shared by the C02/C05/C06/C09/C14/C18 drivers.
#ifndef IPRV_ZOO_H
#define IPRV_ZOO_H
#include <ipr/impl>
#include <ipr/io>
#include <ipr/traversal>
#include <string>
#include <vector>
#include <utility>
#include <memory>

namespace iprv {
using namespace ipr;

struct Entry {
   std::string label;        // how it was made
   const ipr::Node* node;
};

struct Zoo {
   impl::Lexicon lex;
   impl::Translation_unit unit { lex };
   impl::Module module { lex };
   impl::attr_factory attrs;
   impl::capture_spec_factory caps;
   std::vector<Entry> nodes;
   // handy operands
   const ipr::Type* tint = nullptr;
   const ipr::Type* tbool = nullptr;
   const ipr::Expr* e1 = nullptr;
   const ipr::Expr* e2 = nullptr;
   const ipr::Expr* e3 = nullptr;
   impl::Region* greg = nullptr;
   std::vector<std::unique_ptr<impl::Token>> tokens;
   std::unique_ptr<impl::Comment> comment;          // no factory exists for these two
   std::unique_ptr<impl::Annotation> annotation;
   std::vector<std::unique_ptr<impl::ref_sequence<ipr::Attribute>>> attr_seqs;

   void add(const std::string& l, const ipr::Node& n) { nodes.push_back({ l, &n }); }
   void add(const std::string& l, const ipr::Node* n) { nodes.push_back({ l, n }); }

   const ipr::Identifier& id(const char8_t* s) { return lex.get_identifier(s); }

   void build()
   {
      greg = unit.global_region();
      tint = &lex.int_type();
      tbool = &lex.bool_type();
      auto& T = *tint;
      // ---- constants
      add("void_type", lex.void_type()); add("bool_type", lex.bool_type()); add("char_type", lex.char_type());
      add("schar_type", lex.schar_type()); add("uchar_type", lex.uchar_type()); add("wchar_t_type", lex.wchar_t_type());
      add("char8_t_type", lex.char8_t_type()); add("char16_t_type", lex.char16_t_type()); add("char32_t_type", lex.char32_t_type());
      add("short_type", lex.short_type()); add("ushort_type", lex.ushort_type()); add("int_type", lex.int_type());
      add("uint_type", lex.uint_type()); add("long_type", lex.long_type()); add("ulong_type", lex.ulong_type());
      add("long_long_type", lex.long_long_type()); add("ulong_long_type", lex.ulong_long_type());
      add("float_type", lex.float_type()); add("double_type", lex.double_type()); add("long_double_type", lex.long_double_type());
      add("ellipsis_type", lex.ellipsis_type()); add("typename_type", lex.typename_type()); add("class_type", lex.class_type());
      add("union_type", lex.union_type()); add("enum_type", lex.enum_type()); add("namespace_type", lex.namespace_type());
      add("false_value", lex.false_value()); add("true_value", lex.true_value()); add("nullptr_value", lex.nullptr_value());
      add("default_value", lex.default_value()); add("delete_value", lex.delete_value());
      add("nullptr_value.type", lex.nullptr_value().type());
      add("int_type.name", lex.int_type().name());
      add("int_type.name.string", lex.get_string(u8"int"));
      add("empty_string", ipr::String::empty_string());
      // ---- strings and names
      auto& s_hello = lex.get_string(u8"hello");
      add("get_string", s_hello);
      auto& ida = id(u8"a"); auto& idb = id(u8"b"); auto& idc = id(u8"c");
      add("get_identifier", ida);
      add("get_identifier(reserved)", id(u8"int"));
      add("get_suffix", lex.get_suffix(ida));
      add("get_operator", lex.get_operator(u8"+"));
      add("get_conversion", lex.get_conversion(T));
      add("get_ctor_name", lex.get_ctor_name(T));
      add("get_dtor_name", lex.get_dtor_name(T));
      add("get_logogram.what", lex.get_logogram(lex.get_string(u8"stdcall")).what());
      // ---- expressions used as operands
      e1 = lex.make_literal(T, u8"1");
      e2 = lex.make_literal(T, u8"2");
      e3 = lex.make_literal(T, u8"3");
      add("make_literal", *e1);
      auto& E1 = *e1; auto& E2 = *e2; auto& E3 = *e3;
      comment = std::make_unique<impl::Comment>(lex.get_string(u8"// note"));
      add("impl::Comment", *comment);
      annotation = std::make_unique<impl::Annotation>(s_hello, lex.get_literal(T, u8"7"));
      add("impl::Annotation", *annotation);
      // ---- types
      add("get_pointer", lex.get_pointer(T));
      add("get_pointer.name", lex.get_pointer(T).name());
      add("get_reference", lex.get_reference(T));
      add("get_rvalue_reference", lex.get_rvalue_reference(T));
      add("get_array", lex.get_array(T, E1));
      add("get_qualified", lex.get_qualified(lex.const_qualifier(), T));
      add("get_decltype", lex.get_decltype(E1));
      add("get_as_type(expr)", lex.get_as_type(E1));
      add("get_as_type(id)", lex.get_as_type(ida));
      auto& xfer = lex.get_transfer(lex.get_linkage(u8"C"), lex.get_calling_convention(u8"stdcall"));
      add("get_as_type(expr,transfer)", lex.get_as_type(E1, xfer));
      impl::Warehouse<ipr::Type> wh; wh.push_back(T); wh.push_back(*tbool);
      auto& prod = lex.get_product(wh);
      add("get_product", prod);
      auto& sum = lex.get_sum(wh);
      add("get_sum", sum);
      add("get_function", lex.get_function(prod, T));
      add("get_function(transfer)", lex.get_function(prod, T, xfer));
      add("get_tor", lex.get_tor(prod, sum));
      add("get_ptr_to_member", lex.get_ptr_to_member(T, *tbool));
      add("get_forall", lex.get_forall(prod, T));
      add("get_auto", lex.get_auto());
      auto* cls = lex.make_class(*greg); cls->id = &ida;
      add("make_class", cls);
      add("make_class.region", cls->region());
      add("make_class.scope", cls->region().bindings());
      add("make_class.bases-region", cls->base_subobjects);
      add("make_class.bases-scope", cls->base_subobjects.bindings());
      auto* base = cls->declare_base(T);
      add("declare_base", base);
      add("declare_base.overload", cls->base_subobjects.scope[base->name()].get());
      auto* uni = lex.make_union(*greg); uni->id = &idb;
      add("make_union", uni);
      auto* ens = lex.make_enum(*greg, ipr::Enum::Kind::Scoped); ens->id = &idc;
      add("make_enum", ens);
      add("make_enum.region", ens->region());
      auto* enumerator = ens->add_member(id(u8"red"));
      add("add_member(enumerator)", enumerator);
      auto* ns = lex.make_namespace(*greg); ns->id = &id(u8"ns");
      add("make_namespace", ns);
      auto* clo = lex.make_closure(*greg); clo->id = &id(u8"clo");
      add("make_closure", clo);
      add("global_namespace", unit.global_namespace());
      add("global_region", *greg);
      add("global_scope", *unit.global_scope());
      add("global_scope.type", unit.global_scope()->type());
      // ---- atoms
      add("get_symbol", lex.get_symbol(ida, T));
      add("get_label", lex.get_label(ida));
      add("get_this", lex.get_this(lex.get_pointer(*cls)));
      add("make_phantom", lex.make_phantom());
      add("make_phantom(type)", lex.make_phantom(T));
      add("make_eclipsis", lex.make_eclipsis(T));
      // ---- unary expressions
#define U1(F) add(#F, lex.F(E1, T));
      U1(make_address) U1(make_complement) U1(make_deref) U1(make_alignof) U1(make_sizeof)
      U1(make_args_cardinality) U1(make_typeid) U1(make_not) U1(make_post_increment) U1(make_post_decrement)
      U1(make_pre_increment) U1(make_pre_decrement) U1(make_throw) U1(make_unary_minus) U1(make_unary_plus)
      U1(make_expansion) U1(make_noexcept) U1(make_demotion) U1(make_promotion) U1(make_read) U1(make_materialization)
#undef U1
      add("make_array_delete", lex.make_array_delete(E1));
      add("make_delete", lex.make_delete(E1));
      add("make_restriction", lex.make_restriction(E1));
      auto* xl = lex.make_expr_list(); xl->push_back(&E1); xl->push_back(&E2);
      add("make_expr_list", xl);
      add("make_expr_list.type", xl->type());
      add("make_id_expr(name)", lex.make_id_expr(ida, T));
      add("make_label", lex.make_label(ida, T));
      auto* encl = lex.make_enclosure(ipr::Delimiter::Paren, *xl, T);
      add("make_enclosure", encl);
      auto* cons = lex.make_construction(T, *encl);
      add("make_construction", cons);
      // ---- binary expressions
#define B2(F) add(#F, lex.F(E1, E2, T));
      B2(make_and) B2(make_array_ref) B2(make_arrow) B2(make_arrow_star) B2(make_assign) B2(make_bitand)
      B2(make_bitand_assign) B2(make_bitor) B2(make_bitor_assign) B2(make_bitxor) B2(make_bitxor_assign)
      B2(make_comma) B2(make_div) B2(make_div_assign) B2(make_dot) B2(make_dot_star) B2(make_equal)
      B2(make_greater) B2(make_greater_equal) B2(make_less) B2(make_less_equal) B2(make_lshift)
      B2(make_lshift_assign) B2(make_member_init) B2(make_minus) B2(make_minus_assign) B2(make_modulo)
      B2(make_modulo_assign) B2(make_mul) B2(make_mul_assign) B2(make_not_equal) B2(make_or) B2(make_plus)
      B2(make_plus_assign) B2(make_scope_ref) B2(make_rshift) B2(make_rshift_assign)
#undef B2
      add("make_rewrite", lex.make_rewrite(E1, E2));
      add("make_cast", lex.make_cast(T, E1));
      add("make_const_cast", lex.make_const_cast(T, E1));
      add("make_dynamic_cast", lex.make_dynamic_cast(T, E1));
      add("make_reinterpret_cast", lex.make_reinterpret_cast(T, E1));
      add("make_static_cast", lex.make_static_cast(T, E1));
      add("make_call", lex.make_call(E1, *xl, T));
      add("make_coercion", lex.make_coercion(E1, T, *tbool));
      add("make_narrow", lex.make_narrow(E1, T, *tbool));
      add("make_pretend", lex.make_pretend(E1, T, *tbool));
      add("make_widen", lex.make_widen(E1, T, *tbool));
      add("make_qualification", lex.make_qualification(E1, lex.const_qualifier(), T));
      add("get_template_id", lex.get_template_id(E1, *xl));
      add("make_binary_fold", lex.make_binary_fold(ipr::Category_code::Plus, E1, E2, T));
      add("make_where(no decl)", lex.make_where(E1, E2));
      auto* wh_ = lex.make_where(*greg); wh_->result = &E1;
      add("make_where(region)", wh_);
      add("make_new", lex.make_new({ xl }, *cons, T));
      add("make_conditional", lex.make_conditional(E1, E2, E3, T));
      // ---- mappings, parameters, lambdas, requires
      auto* mapping = lex.make_mapping(*greg, Mapping_level{ 1 });
      auto* parm = mapping->param(ida, T);
      mapping->body = &E1; mapping->typing = &lex.get_function(prod, T);
      add("make_mapping", mapping);
      add("mapping.parameters", mapping->parameters());
      add("mapping.parameters.region", mapping->parameters().region());
      add("mapping.parameters.scope", mapping->parameters().region().bindings());
      add("mapping.parameters.type", mapping->parameters().type());
      add("param", parm);
      auto* lam = lex.make_lambda(*greg, Mapping_level{ 1 });
      lam->typing = clo; lam->body = &E1;
      add("make_lambda", lam);
      auto* req = lex.make_requires(*greg, Mapping_level{ 1 });
      add("make_requires", req);
      auto* esub = lex.make_elementary_substitution(*parm, E2);
      add("make_instantiation", lex.make_instantiation(E1, *esub));
      // ---- declarations in the global scope
      auto* var = greg->declare_var(ida, T); var->lexreg = greg;
      add("declare_var", var);
      add("declare_var.overload", *var->decl_data.master_data->overload);
      add("make_id_expr(decl)", lex.make_id_expr(*parm));
      auto* alias = unit.global_scope()->make_alias(idb, E1);
      add("make_alias", alias);
      auto* field = cls->declare_field(idb, T);
      add("declare_field", field);
      auto* bitf = cls->declare_bitfield(idc, T); bitf->length = &E1;
      add("declare_bitfield", bitf);
      auto* tdecl = greg->declare_type(id(u8"td"), lex.typename_type()); tdecl->lexreg = greg;
      add("declare_type", tdecl);
      auto& fty = lex.get_function(prod, T);
      auto* fun = greg->declare_fun(id(u8"f"), fty); fun->lexreg = greg;
      fun->data.emplace<1>(mapping);
      add("declare_fun", fun);
      auto& forall = lex.get_forall(prod, T);
      auto* tmpl = greg->declare_primary_template(id(u8"tm"), forall); tmpl->init = mapping; tmpl->lexreg = greg;
      add("declare_primary_template", tmpl);
      auto* tmpl2 = greg->declare_secondary_template(id(u8"tm2"), forall); tmpl2->init = mapping; tmpl2->lexreg = greg;
      add("declare_secondary_template", tmpl2);
      add("get_guide_name", lex.get_guide_name(*tmpl));
      // ---- statements
      auto* blk = lex.make_block(*greg, T);
      blk->add_stmt(E1);
      add("make_block", blk);
      add("make_block.region", blk->region());
      auto* hnd = blk->new_handler(ida, T);
      add("new_handler", hnd);
      add("new_handler.exception", hnd->exception());
      add("new_handler.body", hnd->body());
      add("new_handler.body.region", hnd->body().region());
      add("new_handler.eh-region", hnd->body().region().enclosing());
      add("new_handler.eh-scope", hnd->body().region().enclosing().bindings());
      add("make_break", lex.make_break());
      add("make_continue", lex.make_continue());
      add("make_ctor_body", lex.make_ctor_body(*xl, *blk));
      auto* estmt = lex.make_expr_stmt(E1);
      add("make_expr_stmt", estmt);
      add("make_goto", lex.make_goto(E1));
      add("make_return", lex.make_return(E1));
      auto* d = lex.make_do(); d->control = &E1; d->stmt = estmt;
      add("make_do", d);
      add("make_if(2)", lex.make_if(E1, *estmt));
      add("make_if(3)", lex.make_if(E1, *estmt, *estmt));
      auto* sw = lex.make_switch(); sw->control = &E1; sw->stmt = estmt;
      add("make_switch", sw);
      add("make_labeled_stmt", lex.make_labeled_stmt(E1, *estmt));
      auto* w = lex.make_while(); w->control = &E1; w->stmt = estmt;
      add("make_while", w);
      auto* f = lex.make_for(); f->init = &E1; f->cond = &E2; f->inc = &E3; f->stmt = estmt;
      add("make_for", f);
      auto* fi = lex.make_for_in(); fi->var = var; fi->seq = &E1; fi->stmt = estmt;
      add("make_for_in", fi);
      // ---- directives
      add("make_asm", lex.make_asm(s_hello));
      add("make_asm.expression", lex.make_asm(s_hello)->expression());
      add("make_static_assert", lex.make_static_assert(E1, { &s_hello }));
      add("make_static_assert.expression", lex.make_static_assert(E1, { &s_hello })->expression());
      add("make_phased_evaluation", lex.make_phased_evaluation(E1, ipr::Phases::Typing));
      add("make_specifiers_spread", lex.make_specifiers_spread());
      auto* sb = lex.make_structured_binding(); sb->init = &E1;
      add("make_structured_binding", sb);
      auto* sref = lex.make_scope_ref(E1, E2, T);
      add("make_using_declaration(single)", lex.make_using_declaration(*sref, ipr::Using_declaration::Designator::Mode::Normal));
      add("make_using_declaration", lex.make_using_declaration());
      add("make_using_directive", lex.make_using_directive(*unit.global_scope(), T));
      add("make_pragma", lex.make_pragma());
      add("make_subregion", greg->make_subregion());
   }
};
}
#endif
