// lex_driver.cxx — drives the unifying factories of impl::Lexicon from request
// scripts (C01, C04, C11, C13) and prints the identity class of every answer.
//
// One request per line; operands:
//   %k      the answer of line k          $name   a constant (see constant())
//   @tK @eK @mK @lK   client-built types (classes) / expressions (phantoms) /
//                     templates / expression lists (generative nodes, K < 8)
//   x:<hex> a spelling (x:- is the empty word)   <n> a qualifier set   [a,b,..] a sequence
// Output: one line per request:  "<line> = <id>" where <id> is "#<first line that
// returned this object>", or "<line> = refused:<exception>" / "<line> = value:<v>".
#include <ipr/impl>
#include <ipr/traversal>
#include <cstdio>
#include <iostream>
#include <sstream>
#include <string>
#include <memory>
#include <new>
#include <vector>
#include <map>
#include <stdexcept>
#include <typeinfo>

using namespace ipr;

struct Val {
   const void* id = nullptr;              // most-derived object address
   const ipr::Type* type = nullptr;
   const ipr::Expr* expr = nullptr;
   const ipr::Name* name = nullptr;
   const ipr::String* string = nullptr;
   const ipr::Identifier* identifier = nullptr;
   const ipr::Product* product = nullptr;
   const ipr::Sum* sum = nullptr;
   const ipr::Linkage* linkage = nullptr;
   const ipr::Calling_convention* cc = nullptr;
   const ipr::Transfer* transfer = nullptr;
   const ipr::Template* tmpl = nullptr;
   const ipr::Expr_list* xlist = nullptr;
   const ipr::Logogram* logogram = nullptr;
   const ipr::Qualified* qualified = nullptr;
};

struct Bad : std::runtime_error { using std::runtime_error::runtime_error; };

template<class T> static const void* most_derived(const T& t) { return dynamic_cast<const void*>(&t); }

static Val of_type(const ipr::Type& t)
{
   Val v; v.id = most_derived(t); v.type = &t; v.expr = &t;
   v.product = util::view<ipr::Product>(t);
   v.sum = util::view<ipr::Sum>(t);
   v.qualified = util::view<ipr::Qualified>(t);
   return v;
}
static Val of_expr(const ipr::Expr& e) { Val v; v.id = most_derived(e); v.expr = &e; return v; }
static Val of_name(const ipr::Name& n)
{
   Val v; v.id = most_derived(n); v.name = &n; v.identifier = util::view<ipr::Identifier>(n); return v;
}
static Val of_string(const ipr::String& s) { Val v; v.id = most_derived(s); v.string = &s; return v; }
static Val of_linkage(const ipr::Linkage& l) { Val v; v.id = &l; v.linkage = &l; return v; }
static Val of_cc(const ipr::Calling_convention& c) { Val v; v.id = &c; v.cc = &c; return v; }
static Val of_transfer(const ipr::Transfer& t) { Val v; v.id = most_derived(t); v.transfer = &t; return v; }
static Val of_logogram(const ipr::Logogram& l) { Val v; v.id = most_derived(l); v.logogram = &l; return v; }

struct Driver {
   impl::Lexicon foreign;       // owns equally spelled Strings handed to the factories of `lex`
   impl::Lexicon lex;
   impl::Translation_unit unit { lex };
   std::vector<Val> results;
   std::vector<bool> valid;
   std::vector<Val> ext_t, ext_e, ext_m, ext_l;
   std::vector<std::unique_ptr<impl::Warehouse<ipr::Type>>> houses;
   std::vector<std::unique_ptr<impl::ref_sequence<ipr::Type>>> seqs;

   Driver()
   {
      auto& greg = *unit.global_region();
      for (int i = 0; i < 8; ++i) {
         auto* c = lex.make_class(greg);
         ext_t.push_back(of_type(*c));
         ext_e.push_back(of_expr(*lex.make_phantom()));
         auto* xl = lex.make_expr_list();
         Val v = of_expr(*xl); v.xlist = xl; ext_l.push_back(v);
      }
   }
   // templates are created lazily (they need a forall type, itself a unified node)
   const ipr::Template& tmpl(int i)
   {
      while (int(ext_m.size()) <= i) {
         impl::Warehouse<ipr::Type> w;
         auto& prod = lex.get_product(w);
         auto& fa = lex.get_forall(prod, lex.int_type());
         std::u8string nm = u8"tmpl";
         nm += char8_t('0' + ext_m.size());
         auto* t = unit.global_region()->declare_primary_template(lex.get_identifier(nm), fa);
         Val v; v.id = most_derived(*t); v.tmpl = t; v.expr = t;
         ext_m.push_back(v);
      }
      return *ext_m[i].tmpl;
   }

   Val constant(const std::string& n)
   {
#define T(N) if (n == #N) return of_type(lex.N##_type());
      T(void) T(bool) T(char) T(schar) T(uchar) T(wchar_t) T(char8_t) T(char16_t) T(char32_t) T(short) T(ushort)
      T(int) T(uint) T(long) T(ulong) T(long_long) T(ulong_long) T(float) T(double) T(long_double) T(ellipsis)
      T(typename) T(class) T(union) T(enum) T(namespace)
#undef T
      if (n == "false") return of_expr(lex.false_value());
      if (n == "true") return of_expr(lex.true_value());
      if (n == "nullptr") return of_expr(lex.nullptr_value());
      if (n == "default") return of_expr(lex.default_value());
      if (n == "delete") return of_expr(lex.delete_value());
      if (n == "nulltype") return of_type(lex.nullptr_value().type());
      if (n == "c_link") return of_linkage(lex.c_linkage());
      if (n == "cxx_link") return of_linkage(lex.cxx_linkage());
      if (n == "natural") return of_transfer(impl::cxx_transfer());
      if (n == "natural_cc") return of_cc(impl::cxx_transfer().convention());
      if (n == "empty_string") return of_string(ipr::String::empty_string());
      if (n.rfind("nameof:", 0) == 0) return of_name(constant(n.substr(7)).type->name());
      if (n.rfind("symname:", 0) == 0) {
         auto v = constant(n.substr(8));
         auto sym = util::view<ipr::Symbol>(*v.expr);
         if (sym == nullptr) throw Bad("not a symbol");
         return of_name(sym->name());
      }
      throw Bad("unknown constant " + n);
   }

   Val operand(const std::string& tok)
   {
      if (tok.empty()) throw Bad("empty operand");
      if (tok[0] == '%') {
         size_t k = std::stoul(tok.substr(1));
         if (k >= results.size() or not valid[k]) throw Bad("operand refers to a line without an answer");
         return results[k];
      }
      if (tok[0] == '$') return constant(tok.substr(1));
      if (tok[0] == '@') {
         int k = std::stoi(tok.substr(2));
         switch (tok[1]) {
         case 't': return ext_t.at(k);
         case 'e': return ext_e.at(k);
         case 'l': return ext_l.at(k);
         case 'm': tmpl(k); return ext_m.at(k);
         }
      }
      throw Bad("bad operand " + tok);
   }
   template<class F> auto need(const std::string& tok, F f) -> decltype(*f(Val{}))
   {
      Val v = operand(tok);
      auto p = f(v);
      if (p == nullptr) throw Bad("ill-typed operand " + tok);
      return *p;
   }
   // "^%k" for a type operand: when line k's type is a qualified version of a type both Lexicons share (a built-in), the equally
   // built type as owned by the OTHER Lexicon; any other type is handed over as it is
   const ipr::Type& ty(const std::string& t)
   {
      if (not t.empty() and t[0] == '^') {
         const ipr::Type& x = ty(t.substr(1));
         if (auto q = util::view<ipr::Qualified>(x))
            if (auto at = util::view<ipr::As_type>(q->main_variant()); at != nullptr and denote_builtin_type(*at))
               return foreign.get_qualified(q->qualifiers(), q->main_variant());
         return x;
      }
      return need(t, [](Val v) { return v.type; });
   }
   const ipr::Expr& ex(const std::string& t) { return need(t, [](Val v) { return v.expr; }); }
   const ipr::Name& nm(const std::string& t) { return need(t, [](Val v) { return v.name; }); }
   // "^%k": the String with the spelling of line k's String, owned by another Lexicon
   const ipr::String& st(const std::string& t)
   {
      if (not t.empty() and t[0] == '^') return foreign.get_string(st(t.substr(1)).characters());
      return need(t, [](Val v) { return v.string; });
   }
   const ipr::Identifier& idn(const std::string& t) { return need(t, [](Val v) { return v.identifier; }); }
   const ipr::Product& pr(const std::string& t) { return need(t, [](Val v) { return v.product; }); }
   const ipr::Sum& sm(const std::string& t) { return need(t, [](Val v) { return v.sum; }); }
   // Linkage and Calling_convention are small copyable value classes.  "^%k" / "^^%k" / "^^^%k": a COPY of line k's value that lives
   // in static storage / inside this Driver object (on main's stack) / on the heap — equal by value, at very different addresses
   template<class V> struct Copies {
      static constexpr std::size_t N = 2048;
      alignas(V) unsigned char slots[N][sizeof(V)];
      std::size_t used = 0;
      const V& keep(const V& v) { if (used >= N) throw Bad("too many copies"); return *new (slots[used++]) V(v); }
   };
   Copies<ipr::Linkage> stack_links; Copies<ipr::Calling_convention> stack_ccs;
   std::vector<std::unique_ptr<ipr::Linkage>> heap_links; std::vector<std::unique_ptr<ipr::Calling_convention>> heap_ccs;
   template<class V> const V& copy_of(const V& v, std::size_t carets, Copies<V>& on_stack, std::vector<std::unique_ptr<V>>& on_heap)
   {
      static Copies<V> in_static;
      if (carets == 1) return in_static.keep(v);
      if (carets == 2) return on_stack.keep(v);
      on_heap.push_back(std::make_unique<V>(v));
      return *on_heap.back();
   }
   const ipr::Linkage& lk(const std::string& t)
   {
      auto n = t.find_first_not_of('^');
      auto& v = need(t.substr(n), [](Val v) { return v.linkage; });
      return n == 0 ? v : copy_of(v, n, stack_links, heap_links);
   }
   const ipr::Calling_convention& cv(const std::string& t)
   {
      auto n = t.find_first_not_of('^');
      auto& v = need(t.substr(n), [](Val v) { return v.cc; });
      return n == 0 ? v : copy_of(v, n, stack_ccs, heap_ccs);
   }
   const ipr::Transfer& xf(const std::string& t) { return need(t, [](Val v) { return v.transfer; }); }
   const ipr::Expr_list& xl(const std::string& t) { return need(t, [](Val v) { return v.xlist; }); }
   const ipr::Template& tm(const std::string& t) { return need(t, [](Val v) { return v.tmpl; }); }

   // every spelling reaches the library through ONE reused token buffer (as in a lexer): same address, not NUL-terminated
   static util::word_view word(const std::string& tok)
   {
      if (tok.rfind("x:", 0) != 0) throw Bad("bad word " + tok);
      static std::u8string buffer;
      if (buffer.capacity() < (4u << 20)) buffer.reserve(4u << 20);
      std::string h = tok.substr(2);
      std::size_t n = h == "-" ? 0 : h.size() / 2;
      buffer.assign(n + 8, char8_t('#'));                 // followed by junk, never by a NUL
      for (size_t i = 0; i < n; ++i) buffer[i] = char8_t(std::stoi(h.substr(2 * i, 2), nullptr, 16));
      return util::word_view(buffer.data(), n);
   }
   std::vector<std::string> seq_tokens(const std::string& tok)
   {
      if (tok.size() < 2 or tok.front() != '[' or tok.back() != ']') throw Bad("bad sequence " + tok);
      std::vector<std::string> out;
      std::string cur;
      for (size_t i = 1; i + 1 < tok.size(); ++i) {
         if (tok[i] == ',') { out.push_back(cur); cur.clear(); } else cur += tok[i];
      }
      if (not cur.empty()) out.push_back(cur);
      return out;
   }
   impl::Warehouse<ipr::Type>& warehouse(const std::string& tok)
   {
      houses.push_back(std::make_unique<impl::Warehouse<ipr::Type>>());
      for (auto& t : seq_tokens(tok)) houses.back()->push_back(ty(t));
      return *houses.back();
   }
   impl::ref_sequence<ipr::Type>& sequence(const std::string& tok)
   {
      seqs.push_back(std::make_unique<impl::ref_sequence<ipr::Type>>());
      for (auto& t : seq_tokens(tok)) seqs.back()->push_back(&ty(t));
      return *seqs.back();
   }

   // returns either a Val (identity answer) or sets `value`
   bool run(const std::vector<std::string>& a, Val& out, std::string& value)
   {
      const std::string& op = a.at(0);
      auto opt = [&](size_t i) { return a.size() > i and a[i] != "-"; };
      if (op == "const") { out = constant(a.at(1)); return true; }
      if (op == "pointer") { out = of_type(lex.get_pointer(ty(a.at(1)))); return true; }
      if (op == "reference") { out = of_type(lex.get_reference(ty(a.at(1)))); return true; }
      if (op == "rvalue_reference") { out = of_type(lex.get_rvalue_reference(ty(a.at(1)))); return true; }
      if (op == "array") { out = of_type(lex.get_array(ty(a.at(1)), ex(a.at(2)))); return true; }
      if (op == "qualified") { out = of_type(lex.get_qualified(ipr::Qualifiers(std::stoul(a.at(1))), ty(a.at(2)))); return true; }
      if (op == "function") {
         auto& s = pr(a.at(1)); auto& t = ty(a.at(2));
         if (opt(3) and opt(4)) out = of_type(lex.get_function(s, t, ex(a[3]), xf(a[4])));
         else if (opt(3)) out = of_type(lex.get_function(s, t, ex(a[3])));
         else if (opt(4)) out = of_type(lex.get_function(s, t, xf(a[4])));
         else out = of_type(lex.get_function(s, t));
         return true;
      }
      if (op == "product") { out = of_type(lex.get_product(sequence(a.at(1)))); return true; }
      if (op == "sum") { out = of_type(lex.get_sum(sequence(a.at(1)))); return true; }
      if (op == "productw") { out = of_type(lex.get_product(warehouse(a.at(1)))); return true; }
      if (op == "sumw") { out = of_type(lex.get_sum(warehouse(a.at(1)))); return true; }
      if (op == "forall") { out = of_type(lex.get_forall(pr(a.at(1)), ty(a.at(2)))); return true; }
      if (op == "ptr_to_member") { out = of_type(lex.get_ptr_to_member(ty(a.at(1)), ty(a.at(2)))); return true; }
      if (op == "tor") { out = of_type(lex.get_tor(pr(a.at(1)), sm(a.at(2)))); return true; }
      if (op == "as_type") {
         if (opt(2)) out = of_type(lex.get_as_type(ex(a.at(1)), xf(a[2])));
         else out = of_type(lex.get_as_type(ex(a.at(1))));
         return true;
      }
      if (op == "as_type_id") { out = of_type(lex.get_as_type(idn(a.at(1)))); return true; }
      if (op == "transfer") { out = of_transfer(lex.get_transfer(lk(a.at(1)), cv(a.at(2)))); return true; }
      if (op == "transfer_l") { out = of_transfer(lex.get_transfer_from_linkage(lk(a.at(1)))); return true; }
      if (op == "transfer_c") { out = of_transfer(lex.get_transfer_from_convention(cv(a.at(1)))); return true; }
      if (op == "string") { out = of_string(lex.get_string(word(a.at(1)))); return true; }
      if (op == "identifier") { out = of_name(lex.get_identifier(st(a.at(1)))); return true; }
      if (op == "operator") { out = of_name(lex.get_operator(st(a.at(1)))); return true; }
      if (op == "suffix") { out = of_name(lex.get_suffix(idn(a.at(1)))); return true; }
      if (op == "conversion") { out = of_name(lex.get_conversion(ty(a.at(1)))); return true; }
      if (op == "ctor_name") { out = of_name(lex.get_ctor_name(ty(a.at(1)))); return true; }
      if (op == "dtor_name") { out = of_name(lex.get_dtor_name(ty(a.at(1)))); return true; }
      if (op == "guide_name") { out = of_name(lex.get_guide_name(tm(a.at(1)))); return true; }
      if (op == "template_id") { out = of_name(lex.get_template_id(ex(a.at(1)), xl(a.at(2)))); return true; }
      if (op == "logogram") { out = of_logogram(lex.get_logogram(st(a.at(1)))); return true; }
      if (op == "symbol") { out = of_expr(lex.get_symbol(nm(a.at(1)), ty(a.at(2)))); return true; }
      if (op == "label") { out = of_expr(lex.get_label(idn(a.at(1)))); return true; }
      if (op == "this") { out = of_expr(lex.get_this(ty(a.at(1)))); return true; }
      if (op == "literal") { out = of_expr(lex.get_literal(ty(a.at(1)), st(a.at(2)))); return true; }
      if (op == "linkage") { out = of_linkage(lex.get_linkage(st(a.at(1)))); return true; }
      if (op == "linkage_w") { out = of_linkage(lex.get_linkage(util::word_view(word(a.at(1))))); return true; }
      if (op == "convention") {
         auto w = st(a.at(1)).characters();
         out = of_cc(lex.get_calling_convention(w)); return true;
      }
      if (op == "decltype_null") { out = of_type(lex.get_decltype(lex.nullptr_value())); return true; }
      if (op == "identifier_w") { out = of_name(lex.get_identifier(util::word_view(word(a.at(1))))); return true; }
      // ---- observers ----
      if (op == "q_main") {
         auto q = operand(a.at(1)).qualified; if (q == nullptr) throw Bad("not qualified");
         out = of_type(q->main_variant()); return true;
      }
      if (op == "q_quals") {
         auto q = operand(a.at(1)).qualified; if (q == nullptr) throw Bad("not qualified");
         value = std::to_string((unsigned long) q->qualifiers()); return false;
      }
      if (op == "is_qualified") { value = operand(a.at(1)).qualified != nullptr ? "1" : "0"; return false; }
      if (op == "xfer_eq") { value = xf(a.at(1)) == xf(a.at(2)) ? "1" : "0"; return false; }
      if (op == "link_eq") { value = lk(a.at(1)) == lk(a.at(2)) ? "1" : "0"; return false; }
      if (op == "cc_eq") { value = cv(a.at(1)) == cv(a.at(2)) ? "1" : "0"; return false; }
      if (op == "name_of") { out = of_name(ty(a.at(1)).name()); return true; }
      if (op == "string_of") { out = of_string(idn(a.at(1)).string()); return true; }
      if (op == "builtin") { value = denote_builtin_type(*util::view<ipr::As_type>(ty(a.at(1)))) ? "1" : "0"; return false; }
      throw Bad("unknown request " + op);
   }
};

int main()
{
   Driver d;
   std::map<const void*, size_t> first;
   std::string line;
   size_t lineno = 0;
   while (std::getline(std::cin, line)) {
      std::stringstream ss(line);
      std::vector<std::string> a;
      std::string tok;
      while (ss >> tok) a.push_back(tok);
      Val v;
      std::string value;
      bool ok = false;
      std::string msg;
      if (a.empty()) { msg = "skip"; }
      else {
         try {
            if (d.run(a, v, value)) {
               ok = true;
               if (first.find(v.id) == first.end()) first[v.id] = lineno;
               msg = "#" + std::to_string(first[v.id]);
            }
            else msg = "value:" + value;
         }
         catch (const Bad& e) { msg = std::string("bad:") + e.what(); }
         catch (const std::logic_error& e) { msg = "refused:logic_error"; }
         catch (const std::exception& e) { msg = std::string("refused:") + typeid(e).name(); }
         catch (...) { msg = "refused:unknown"; }
      }
      d.results.push_back(v);
      d.valid.push_back(ok);
      std::printf("%zu = %s\n", lineno, msg.c_str());
      ++lineno;
   }
}
