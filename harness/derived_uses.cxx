// derived_uses.cxx — odr-uses every derived (convenience) operation of the
// interface that C15 speaks of, so that clang instantiates them and the fact
// extractor can read their bodies.  Never linked or run.
#include <ipr/interface>
#include <ipr/traversal>

namespace iprv_uses {
   using namespace ipr;
   template<class T> void seq(const Sequence<T>& s)
   {
      (void) s.empty(); auto b = s.begin(); auto e = s.end(); auto p = s.position(1);
      (void) *b; (void) b.operator->(); ++b; --b; b++; b--; (void) (b == e); (void) (b != p);
   }
   void uses(const Sequence<Type>& st, const Sequence<Decl>& sd, const Sequence<Expr>& se,
             const Product& pr, const Sum& su, const Expr_list& xl, const Scope& sc, const Parameter_list& pl,
             const Namespace& ns, const Class& cl, const Union& un, const Enum& en, const Closure& clo, const Block& bl,
             const Template& tm, const Parameter& pa, const Type& ty, const Transfer& x1, const Transfer& x2,
             const Logogram& l1, const Logogram& l2, const Calling_convention& c1, const Calling_convention& c2,
             const Linkage& k1, const Linkage& k2, Basic_specifier b1, Basic_specifier b2,
             Basic_qualifier q1, Basic_qualifier q2, const String& s1, const String& s2,
             const Function& fn, const Pointer& ptr, const Forall& fa, const Conversion& cv, const Identifier& id,
             const Qualified& qu, const Array& ar, const Decltype& dt, const As_type& at, const Tor& tor,
             const Ptr_to_member& pm, const Reference& rf, const Rvalue_reference& rr, const Template_id& ti,
             const Ctor_name& cn, const Dtor_name& dn, const Guide_name& gn, const Type_id& tid, const Suffix& sf,
             const Operator& op, const Comment& cm, const Annotation& an,
             const Dot& dot, const Arrow& arrow, const Dot_star& dot_star, const Arrow_star& arrow_star, const Array_ref& aref,
             const Cast& cast, const Static_cast& scast, const Dynamic_cast& dcast, const Const_cast& ccast, const Reinterpret_cast& rcast)
   {
      (void) dot.base(); (void) dot.member(); (void) arrow.base(); (void) arrow.member(); (void) dot_star.base(); (void) dot_star.member();
      (void) arrow_star.base(); (void) arrow_star.member(); (void) aref.base(); (void) aref.member();
      (void) cast.expr(); (void) scast.expr(); (void) dcast.expr(); (void) ccast.expr(); (void) rcast.expr();
      seq(st); seq(sd); seq(se);
      (void) pr.size(); (void) pr[0]; (void) pr.elements(); (void) su.size(); (void) su[0]; (void) su.elements();
      (void) xl.size(); (void) xl.elements();
      (void) sc.size(); (void) sc.begin(); (void) sc.end();
      (void) pl.size(); (void) pl.begin(); (void) pl.end();
      (void) ns.scope(); (void) ns.members(); (void) cl.scope(); (void) cl.members(); (void) un.scope(); (void) un.members();
      (void) en.scope(); (void) clo.scope();
      (void) bl.body(); (void) bl.try_block();
      (void) tm.parameters(); (void) tm.result();
      (void) pa.default_value(); (void) pa.lexical_region();
      (void) ty.linkage(); (void) x1.linkage(); (void) x1.convention();
      (void) (x1 == x2); (void) (x1 != x2); (void) (l1 == l2); (void) (l1 != l2); (void) (c1 == c2); (void) (c1 != c2);
      (void) (k1 == k2); (void) (k1 != k2); (void) (b1 == b2); (void) (q1 == q2); (void) (s1 == s2); (void) (s1 != s2);
      (void) l1.what(); (void) c1.name(); (void) k1.language(); (void) b1.logogram(); (void) q1.logogram();
      (void) s1.size(); (void) s1.begin(); (void) s1.end();
      (void) fn.source(); (void) fn.target(); (void) fn.throws(); (void) ptr.points_to(); (void) fa.source(); (void) fa.target();
      (void) cv.target(); (void) id.string(); (void) qu.main_variant(); (void) qu.qualifiers(); (void) ar.element_type(); (void) ar.bound();
      (void) dt.expr(); (void) at.expr(); (void) tor.source(); (void) tor.throws(); (void) pm.containing_type(); (void) pm.member_type();
      (void) rf.refers_to(); (void) rr.refers_to(); (void) ti.template_name(); (void) ti.args();
      (void) cn.object_type(); (void) dn.object_type(); (void) gn.mapping_decl(); (void) tid.type_expr(); (void) sf.name();
      (void) op.opname(); (void) cm.text(); (void) an.name(); (void) an.value();
      (void) denote_builtin_type(at); (void) physically_same(ty, at);
   }
}
