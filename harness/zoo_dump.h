// zoo_dump.h — the visitor that dumps a node through its own interface class; its member functions
// are defined in 8 translation units (zoo_dump_driver_part.cxx) so that they compile in parallel.
#ifndef IPRV_ZOO_DUMP_H
#define IPRV_ZOO_DUMP_H
#include "fsweep.h"

struct Dump_visitor : ipr::Visitor {
   std::string out;
#define SINK(X) void visit(const ipr::X& x) override;
#include "sinks.def"
#undef SINK
#define HOOK(X) void visit(const ipr::X& x) override;
#include "hooks.def"
#undef HOOK
};
#endif
