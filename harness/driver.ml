(* driver.ml — runs the extracted Gallina models on the same scripts the C++
   drivers execute and prints the same canonical observation lines.
   Usage: model_driver <mode> < script *)
open Model

(* ---- conversions between OCaml ints and the extracted binary numbers ---- *)
let rec pos_of_int (n : int) : positive =
  if n = 1 then XH
  else if n land 1 = 0 then XO (pos_of_int (n lsr 1))
  else XI (pos_of_int (n lsr 1))

let z_of_int (n : int) : z =
  if n = 0 then Z0 else if n > 0 then Zpos (pos_of_int n) else Zneg (pos_of_int (-n))

let rec int_of_pos (p : positive) : int =
  match p with XH -> 1 | XO q -> 2 * int_of_pos q | XI q -> 2 * int_of_pos q + 1

let int_of_z (x : z) : int =
  match x with Z0 -> 0 | Zpos p -> int_of_pos p | Zneg p -> - (int_of_pos p)

let n_of_int (n : int) : n = if n = 0 then N0 else Npos (pos_of_int n)
let int_of_n (x : n) : int = match x with N0 -> 0 | Npos p -> int_of_pos p

let rec nat_of_int (n : int) : nat = if n <= 0 then O else S (nat_of_int (n - 1))
let rec int_of_nat (n : nat) : int = match n with O -> 0 | S m -> 1 + int_of_nat m

let split_on c s = String.split_on_char c s
let words s = List.filter (fun w -> w <> "") (split_on ' ' s)

(* ------------------------------------------------------------------ *)
(* rb mode                                                              *)
(* ------------------------------------------------------------------ *)
(* A key carries its sort key (an integer or an integer vector), a label to
   print, and the serial number of the insertion that created it. *)
type rbkey = { sk : z list; label : string; serial : int }

let tag_name = function
  | TagFound -> "found" | TagRoot -> "root" | TagParentBlack -> "pblack"
  | TagUncleRed -> "unclered" | TagLL -> "LL" | TagLR -> "LR" | TagRR -> "RR"
  | TagRL -> "RL" | TagStuck -> "STUCK"

let rec shape (t : rbkey tree) (b : Buffer.t) : unit =
  match t with
  | E -> Buffer.add_char b '.'
  | T (c, l, k, r) ->
    Buffer.add_char b '(';
    Buffer.add_char b (match c with Red -> 'R' | Black -> 'B');
    Buffer.add_char b ' ';
    shape l b; Buffer.add_char b ' ';
    Buffer.add_string b k.label; Buffer.add_char b ' ';
    shape r b; Buffer.add_char b ')'

let shape_str t = let b = Buffer.create 64 in shape t b; Buffer.contents b

let parse_vec s =
  if s = "-" then [] else List.map (fun x -> z_of_int (int_of_string x)) (split_on ',' s)

let rb_line (line : string) : unit =
  match words line with
  | fl :: cmpname :: rest ->
    let own = (fl = "own") in
    let steps = List.mem "steps" rest in
    let rest = List.filter (fun w -> w <> "steps") rest in
    let rec split acc = function
      | [] -> (List.rev acc, [])
      | "?" :: ps -> (List.rev acc, ps)
      | k :: ks -> split (k :: acc) ks in
    let (ks, ps) = split [] rest in
    (* key token: <sortkey>[:<label>] *)
    let mk i tok =
      let (s, lab) = match split_on ':' tok with
        | [s; l] -> (s, l) | _ -> (tok, tok) in
      let sk = if cmpname = "lex" then parse_vec s else [z_of_int (int_of_string s)] in
      { sk; label = lab; serial = i } in
    let cmp_int a b = match a.sk, b.sk with
      | [x], [y] -> if cmpname = "diff" then Z.sub x y else int_cmp x y
      | _ -> Z0 in
    let cmp a b = if cmpname = "lex" then lex_cmp int_cmp a.sk b.sk else cmp_int a b in
    let keys = List.mapi mk ks in
    let probes = List.mapi mk ps in
    let st = ref rb_empty in
    let stuck = ref false in
    let rets = ref [] and fresh = Buffer.create 16 and stepb = Buffer.create 64 in
    let tags = Hashtbl.create 8 in
    let firsts = ref [] in
    List.iteri (fun i k ->
      if not !stuck then begin
        List.iter (fun t -> Hashtbl.replace tags (tag_name t) ()) (rb_insert_tags cmp !st.rb_tree k);
        let r = if own then rb_insert_owning cmp !st k else rb_insert_chain cmp !st k in
        match r with
        | None -> stuck := true
        | Some r ->
          st := r.ir_state;
          rets := (if own then r.ir_elem.serial else k.serial) :: !rets;
          Buffer.add_char fresh (if r.ir_fresh then '1' else '0');
          if steps then begin
            if i > 0 then Buffer.add_char stepb '|';
            Buffer.add_string stepb (shape_str !st.rb_tree)
          end;
          (* first key inserted comparing equal *)
          let f = List.find (fun k' -> int_of_z (cmp k' k) = 0) keys in
          firsts := f.serial :: !firsts
      end) keys;
    if !stuck then print_string "STUCK\n"
    else begin
      let t = !st.rb_tree in
      let firsts = List.rev !firsts in
      let found = Buffer.create 16 in
      List.iteri (fun i k ->
        match rb_find cmp t k with
        | Some x -> Buffer.add_char found (if x.serial = List.nth firsts i then '1' else 'x')
        | None -> Buffer.add_char found '0') keys;
      let probe = Buffer.create 16 in
      List.iter (fun k -> Buffer.add_char probe (match rb_find cmp t k with Some _ -> '1' | None -> '0')) probes;
      let dash s = if s = "" then "-" else s in
      let nodes = int_of_nat (rb_size t) in
      Printf.printf "shape=%s size=%d nodes=%d parents=ok ret=%s fresh=%s found=%s probe=%s"
        (shape_str t) (int_of_z !st.rb_count) nodes
        (dash (String.concat "," (List.rev_map string_of_int !rets)))
        (dash (Buffer.contents fresh)) (dash (Buffer.contents found)) (dash (Buffer.contents probe));
      if steps then Printf.printf " steps=%s" (dash (Buffer.contents stepb));
      Printf.printf " height=%d tags=%s\n" (int_of_nat (rb_height t))
        (String.concat "," (List.sort compare (Hashtbl.fold (fun k () acc -> k :: acc) tags [])))
    end
  | _ -> ()

(* ------------------------------------------------------------------ *)
(* scope mode (C07)                                                     *)
(* ------------------------------------------------------------------ *)
let parse_items (s : string) : (string * int * int) list =
  if s = "-" then [] else
  List.map (fun tok ->
    match split_on ':' tok with
    | [k; n; t] -> (k, int_of_string n, int_of_string t)
    | [n; t] -> ("", int_of_string n, int_of_string t)
    | _ -> failwith "bad item") (split_on ',' s)

let join sep l = match l with [] -> "-" | _ -> String.concat sep l

let scope_line (line : string) : unit =
  match words line with
  | ["het"; a] ->
    let items = parse_items a in
    let h = List.map (fun (_, n, t) -> (nat_of_int n, nat_of_int t)) items in
    let s = scope_run h in
    let n = List.length items in
    let idx l = List.map (fun x -> string_of_int (int_of_nat x)) l in
    let names = List.map (fun (_, n, _) -> string_of_int n) items in
    let tys = List.map (fun (_, _, t) -> string_of_int t) items in
    let masters = List.init n (fun i -> match scope_master s (nat_of_int i) with Some m -> string_of_int (int_of_nat m) | None -> "E") in
    let declsets = List.init n (fun i -> match scope_decl_set s (nat_of_int i) with Some l -> join "+" (idx l) | None -> "E") in
    let codes = List.concat (List.init 6 (fun j -> [j; 16 + j; 32 + j])) in
    let lookups = List.init 10 (fun nm -> match scope_lookup s (nat_of_int nm) with Some _ -> "1" | None -> "0") in
    let selects = List.concat (List.init 10 (fun nm ->
      match scope_lookup s (nat_of_int nm) with
      | None -> []
      | Some _ -> List.filter_map (fun c ->
          match scope_select s (nat_of_int nm) (nat_of_int c) with
          | Some d -> Some (Printf.sprintf "%d:%d:%d" nm c (int_of_nat d)) | None -> None) codes)) in
    Printf.printf "elements=%s types=%s sizes=%d/%d/%d names=%s dtypes=%s master=%s declset=%s lookup=%s select=%s\n"
      (join "," (idx (scope_elements s))) (join "," (idx (scope_types s))) n n n (join "," names) (join "," tys)
      (join "," masters) (join "," declsets) (join "" lookups) (join ";" selects)
  | ["hom"; what; a] ->
    let items = parse_items a in
    let l = List.map (fun (_, n, t) -> (nat_of_int n, nat_of_int t)) items in
    let hs = scope_h_run l in
    let n = List.length items in
    let ids = List.init n string_of_int in
    let types = List.map (fun (_, _, t) -> if what = "enum" then "-1" else string_of_int t) items in
    Printf.printf "elements=%s types=%s size=%d pos=%s master=%s declset=%s home=%s byname=%s\n"
      (join "," ids) (join "," types) n
      (join "," (List.map (fun d -> string_of_int (int_of_nat d.h_pos)) hs)) (join "," ids) (join "," ids)
      (join "" (List.init n (fun _ -> "1")))
      (* lookup by name then by type: the first member with that name, if its type matches *)
      (join "," (List.mapi (fun i (_, nm, ty) ->
         let rec first j = function
           | [] -> None
           | (_, nm', ty') :: r -> if (what = "base" && ty' = ty) || (what <> "base" && nm' = nm) then Some (j, ty') else first (j + 1) r in
         match first 0 items with
         | Some (j, ty') -> if what = "enum" || ty' = ty then string_of_int j else "notype"
         | None -> "none") items))
  | _ -> ()

(* ---- subst mode (C16) ---- *)
let subst_line (line : string) : unit =
  let show = function Param p -> "p" ^ string_of_int (int_of_nat p) | Value v -> "v" ^ string_of_int (int_of_nat v) in
  let rec qs = function "?" :: r -> List.map int_of_string r | _ :: r -> qs r | [] -> [] in
  match words line with
  | "elem" :: p :: v :: rest ->
    let out = List.map (fun q -> show (subst_elem (nat_of_int (int_of_string p)) (Value (nat_of_int (int_of_string v))) (nat_of_int q))) (qs rest) in
    print_endline (join " " out)
  | "gen" :: b :: rest ->
    let bs = if b = "-" then [] else List.map (fun tok ->
      match split_on ':' tok with [p; v] -> (nat_of_int (int_of_string p), Value (nat_of_int (int_of_string v))) | _ -> failwith "bad binding")
      (split_on ',' b) in
    print_endline (join " " (List.map (fun q -> show (subst_gen bs (nat_of_int q))) (qs rest)))
  | _ -> ()

(* ---- region mode (C12) ---- *)
let region_line (line : string) : unit =
  let items = List.filter (fun x -> x <> "") (List.map String.trim (split_on ';' line)) in
  let noop = OSub (nat_of_int 1000000) in
  let parse item =
    match words item with
    | ["unit"] | ["module"] -> OUnit
    | ["munit"; _] -> OUnit
    | [k; a] ->
      let n = nat_of_int (int_of_string a) in
      (match k with
       | "sub" -> OSub n | "class" -> OClass n | "union" -> OUnion n | "namespace" -> ONamespace n
       | "closure" -> OClosure n | "enum" -> OEnum n | "block" -> OBlock n | "handler" -> OHandler n
       | "mapping" -> OMapping n | "lambda" -> OLambda n | "requires" -> ORequires n | "morphism" -> OMorphism n
       | "where" -> OWhere n | _ -> noop)
    | _ -> noop in
  let s = region_run (List.map parse items) in
  let regs = s.regions in
  let n = List.length regs in
  let b = Buffer.create 256 in
  List.iteri (fun i r ->
    let parent = match r.r_parent with Some p -> string_of_int (int_of_nat p) | None -> "-" in
    let pr = function Some (o, role) -> Printf.sprintf "%d.%d" (int_of_nat o) (int_of_nat role) | None -> "-" in
    let glob = if region_is_global s (nat_of_int i) then 1 else 0 in
    (* depth = number of outward steps to the root *)
    let rec depth k cur = match (List.nth regs cur).r_parent with None -> (k, cur) | Some p -> depth (k + 1) (int_of_nat p) in
    let (d, root) = depth 0 i in
    ignore n;
    Buffer.add_string b (Printf.sprintf "r%d:%s:%s:%d:%d:%d:%s " i parent (pr r.r_owner) glob d root (pr r.r_bind))) regs;
  print_endline (if Buffer.length b = 0 then "-" else Buffer.contents b)

let iter_lines f =
  try while true do
    let l = input_line stdin in
    if l <> "" && l.[0] <> '#' then f l
  done with End_of_file -> ()

let () =
  match Sys.argv with
  | [| _; "rb" |] -> iter_lines rb_line
  | [| _; "scope" |] -> iter_lines scope_line
  | [| _; "subst" |] -> iter_lines subst_line
  | [| _; "region" |] -> iter_lines region_line
  | _ -> prerr_endline "usage: model_driver <mode>"; exit 2
