(* gen_driver.ml — prints the model's predictions computed from the generated tables. *)
module G = Genmodel

let char_of_ascii (G.Ascii (b0,b1,b2,b3,b4,b5,b6,b7)) =
  let v b i = if b then 1 lsl i else 0 in
  Char.chr (v b0 0 + v b1 1 + v b2 2 + v b3 3 + v b4 4 + v b5 5 + v b6 6 + v b7 7)

let str (s : G.string) : string =
  let b = Buffer.create 16 in
  let rec go (s : G.string) = match s with
    | G.EmptyString -> ()
    | G.String (c, r) -> Buffer.add_char b (char_of_ascii c); go r in
  go s; Buffer.contents b

let rec pos_of_int (n : int) : G.positive =
  if n = 1 then G.XH else if n land 1 = 0 then G.XO (pos_of_int (n lsr 1)) else G.XI (pos_of_int (n lsr 1))
let n_of_int (n : int) : G.n = if n = 0 then G.N0 else G.Npos (pos_of_int n)
let rec int_of_pos (p : G.positive) : int =
  match p with G.XH -> 1 | G.XO q -> 2 * int_of_pos q | G.XI q -> 2 * int_of_pos q + 1
let int_of_n (x : G.n) : int = match x with G.N0 -> 0 | G.Npos p -> int_of_pos p

let ascii_of_char (c : char) : G.ascii =
  let n = Char.code c in
  let b i = (n lsr i) land 1 = 1 in
  G.Ascii (b 0, b 1, b 2, b 3, b 4, b 5, b 6, b 7)
let coq_string (s : string) : G.string =
  let r = ref G.EmptyString in
  for i = String.length s - 1 downto 0 do r := G.String (ascii_of_char s.[i], !r) done; !r

let unhex (h : string) : string =
  String.init (String.length h / 2) (fun i -> Char.chr (int_of_string ("0x" ^ String.sub h (2 * i) 2)))
let hex_of (s : string) : string =
  String.concat "" (List.init (String.length s) (fun i -> Printf.sprintf "%02x" (Char.code s.[i])))

let c10_line (line : string) : unit =
  match List.filter (fun w -> w <> "") (String.split_on_char ' ' line) with
  | ["TABLES"] ->
    List.iter (fun q ->
      List.iteri (fun i w ->
        match G.c10_project q w with
        | Some x -> Printf.printf "%c %d %s %x\n" (if q then 'Q' else 'S') i (str w) (int_of_n x)
        | None -> Printf.printf "%c %d %s NONE\n" (if q then 'Q' else 'S') i (str w)) (G.c10_table q)) [false; true];
    (* named accessors, in the order the C++ driver prints them *)
    let order = ["export_specifier"; "static_specifier"; "extern_specifier"; "mutable_specifier";
                 "thread_local_specifier"; "register_specifier"; "inline_specifier"; "constexpr_specifier";
                 "consteval_specifier"; "virtual_specifier"; "abstract_specifier"; "explicit_specifier";
                 "friend_specifier"; "typedef_specifier"; "public_specifier"; "protected_specifier";
                 "private_specifier"; "const_qualifier"; "volatile_qualifier"; "restrict_qualifier"] in
    List.iter (fun name ->
      let row = List.find_opt (fun (n, _) -> str n = name) G.c10_accessors in
      let v = match row with
        | Some (_, G.AccSpecifierWord w) -> G.c10_project false w
        | Some (_, G.AccQualifierWord w) -> G.c10_project true w
        | _ -> None in
      match v with
      | Some x -> Printf.printf "A %s %x\n" name (int_of_n x)
      | None -> Printf.printf "A %s NONE\n" name) order
  | ["ALL"; k] ->
    let q = (k = "q") in
    let n = List.length (G.c10_table q) in
    for m = 0 to (1 lsl n) - 1 do
      let u = G.c10_union q (n_of_int m) in
      let d = G.c10_decomp q u in
      Printf.printf "U %s %x %x %x %d\n" k m (int_of_n u) (int_of_n (G.c10_decomp_mask q u)) (List.length d)
    done
  | ["B"; k; a; b] ->
    let q = (k = "q") in
    let ma = int_of_string ("0x" ^ a) and mb = int_of_string ("0x" ^ b) in
    let sa = G.c10_union q (n_of_int ma) and sb = G.c10_union q (n_of_int mb) in
    let dm x = int_of_n (G.c10_decomp_mask q x) in
    Printf.printf "B %s %x %x %x %x %x %d 1\n" k ma mb (dm (G.N.coq_lor sa sb)) (dm (G.N.coq_land sa sb))
      (dm (G.N.coq_lxor sa sb)) (if G.implies sa sb then 1 else 0)
  | ["R"; k; h] ->
    let q = (k = "q") in
    (match G.c10_project q (coq_string (unhex h)) with
     | Some x -> Printf.printf "R %s %s %x\n" k h (int_of_n x)
     | None -> Printf.printf "R %s %s refused\n" k h)
  | _ -> ()

let iter_lines f =
  try while true do f (input_line stdin) done with End_of_file -> ()

let join l = match l with [] -> "-" | _ -> String.concat "," (List.map str l)

let () =
  match Sys.argv with
  | [| _; "c06" |] ->
    List.iter (fun (name, (cat, (acc, (sinks, views)))) ->
      Printf.printf "%s cat=%s full=%s sinks=%s views=%s\n" (str name) (str cat) (join acc) (join sinks) (join views))
      G.c06_rows
  | [| _; "c10" |] -> iter_lines c10_line
  | _ -> prerr_endline "usage: gen_driver <mode>"; exit 2
