(* gen_driver.ml — prints the model's predictions computed from the generated tables. *)
module G = Genmodel

let char_of_ascii (G.Ascii (b0,b1,b2,b3,b4,b5,b6,b7)) =
  let v b i = if b then 1 lsl i else 0 in
  Char.chr (v b0 0 + v b1 1 + v b2 2 + v b3 3 + v b4 4 + v b5 5 + v b6 6 + v b7 7)

let str (s : G.string) : string =
  let b = Buffer.create 16 in
  let rec go (s : G.string) = match s with
    | G.EmptyString -> ()
    | G.String (c, r) -> Buffer.add_char b (char_of_ascii c); go r in
  go s; Buffer.contents b

let rec pos_of_int (n : int) : G.positive =
  if n = 1 then G.XH else if n land 1 = 0 then G.XO (pos_of_int (n lsr 1)) else G.XI (pos_of_int (n lsr 1))
let n_of_int (n : int) : G.n = if n = 0 then G.N0 else G.Npos (pos_of_int n)
let rec int_of_pos (p : G.positive) : int =
  match p with G.XH -> 1 | G.XO q -> 2 * int_of_pos q | G.XI q -> 2 * int_of_pos q + 1
let int_of_n (x : G.n) : int = match x with G.N0 -> 0 | G.Npos p -> int_of_pos p

let ascii_of_char (c : char) : G.ascii =
  let n = Char.code c in
  let b i = (n lsr i) land 1 = 1 in
  G.Ascii (b 0, b 1, b 2, b 3, b 4, b 5, b 6, b 7)
let coq_string (s : string) : G.string =
  let r = ref G.EmptyString in
  for i = String.length s - 1 downto 0 do r := G.String (ascii_of_char s.[i], !r) done; !r

let unhex (h : string) : string =
  String.init (String.length h / 2) (fun i -> Char.chr (int_of_string ("0x" ^ String.sub h (2 * i) 2)))
let hex_of (s : string) : string =
  String.concat "" (List.init (String.length s) (fun i -> Printf.sprintf "%02x" (Char.code s.[i])))

let c10_line (line : string) : unit =
  match List.filter (fun w -> w <> "") (String.split_on_char ' ' line) with
  | ["TABLES"] ->
    List.iter (fun q ->
      List.iteri (fun i w ->
        match G.c10_project q w with
        | Some x -> Printf.printf "%c %d %s %x\n" (if q then 'Q' else 'S') i (str w) (int_of_n x)
        | None -> Printf.printf "%c %d %s NONE\n" (if q then 'Q' else 'S') i (str w)) (G.c10_table q)) [false; true];
    (* named accessors, in the order the C++ driver prints them *)
    let order = ["export_specifier"; "static_specifier"; "extern_specifier"; "mutable_specifier";
                 "thread_local_specifier"; "register_specifier"; "inline_specifier"; "constexpr_specifier";
                 "consteval_specifier"; "virtual_specifier"; "abstract_specifier"; "explicit_specifier";
                 "friend_specifier"; "typedef_specifier"; "public_specifier"; "protected_specifier";
                 "private_specifier"; "const_qualifier"; "volatile_qualifier"; "restrict_qualifier"] in
    List.iter (fun name ->
      let row = List.find_opt (fun (n, _) -> str n = name) G.c10_accessors in
      let v = match row with
        | Some (_, G.AccSpecifierWord w) -> G.c10_project false w
        | Some (_, G.AccQualifierWord w) -> G.c10_project true w
        | _ -> None in
      match v with
      | Some x -> Printf.printf "A %s %x\n" name (int_of_n x)
      | None -> Printf.printf "A %s NONE\n" name) order
  | ["ALL"; k] ->
    let q = (k = "q") in
    let n = List.length (G.c10_table q) in
    for m = 0 to (1 lsl n) - 1 do
      let u = G.c10_union q (n_of_int m) in
      let d = G.c10_decomp q u in
      Printf.printf "U %s %x %x %x %d\n" k m (int_of_n u) (int_of_n (G.c10_decomp_mask q u)) (List.length d)
    done
  | ["B"; k; a; b] ->
    let q = (k = "q") in
    let ma = int_of_string ("0x" ^ a) and mb = int_of_string ("0x" ^ b) in
    let sa = G.c10_union q (n_of_int ma) and sb = G.c10_union q (n_of_int mb) in
    let dm x = int_of_n (G.c10_decomp_mask q x) in
    Printf.printf "B %s %x %x %x %x %x %d 1\n" k ma mb (dm (G.N.coq_lor sa sb)) (dm (G.N.coq_land sa sb))
      (dm (G.N.coq_lxor sa sb)) (if G.implies sa sb then 1 else 0)
  | ["R"; k; h] ->
    let q = (k = "q") in
    (match G.c10_project q (coq_string (unhex h)) with
     | Some x -> Printf.printf "R %s %s %x\n" k h (int_of_n x)
     | None -> Printf.printf "R %s %s refused\n" k h)
  | _ -> ()

(* ---- C03 ---- *)
let rec nat_of_int (n : int) : G.nat = if n <= 0 then G.O else G.S (nat_of_int (n - 1))
let rec int_of_nat (n : G.nat) : int = match n with G.O -> 0 | G.S m -> 1 + int_of_nat m
let int_of_z (x : G.z) : int = match x with G.Z0 -> 0 | G.Zpos p -> int_of_pos p | G.Zneg p -> - (int_of_pos p)

let gen_bytes len seed =
  List.init len (fun i -> n_of_int ((seed * 31 + i * 131 + (i lsr 8) * 7 + (i lsr 16)) land 0xff))

let c03_run () =
  let pool = ref G.pool_init in
  let ids : (G.strnode, int) Hashtbl.t = Hashtbl.create 1024 in
  let words = ref [] in
  let lineno = ref 0 in
  let tags = Hashtbl.create 8 in
  (try while true do
    let line = input_line stdin in
    let w = match List.filter (fun x -> x <> "") (String.split_on_char ' ' line) with
      | ["H"; "-"] -> Some []
      | ["H"; h] -> Some (List.init (String.length h / 2) (fun i -> n_of_int (int_of_string ("0x" ^ String.sub h (2 * i) 2))))
      | ["G"; len; seed] -> Some (gen_bytes (int_of_string len) (int_of_string seed))
      | _ -> None in
    match w with
    | None -> ()
    | Some w ->
      let ((p', n), tag) = G.c03_intern !pool w in
      pool := p';
      Hashtbl.replace tags (match tag with G.IEmpty -> "empty" | G.IReserved -> "reserved" | G.IHit -> "hit"
                                          | G.IMissCollide -> "miss-collide" | G.IMiss -> "miss") ();
      let fresh = not (Hashtbl.mem ids n) in
      if fresh then Hashtbl.replace ids n !lineno;
      let place = match n with
        | G.SDynamic i when fresh ->
          (match G.c03_node_block p' i with
           | Some b -> Printf.sprintf "pool=%d off=%d" (int_of_nat b.G.b_pool) (int_of_z b.G.b_off)
           | None -> "pool=? off=?")
        | _ -> "pool=- off=-" in
      let cst = if List.length w <= 64 then (match n with G.SDynamic _ -> "0" | _ -> "1") else "-" in
      Printf.printf "id=%d new=%d %s const=%s\n" (Hashtbl.find ids n) (if fresh then 1 else 0) place cst;
      words := (w, n) :: !words;
      incr lineno
  done with End_of_file -> ());
  let rb = Buffer.create 64 in
  List.iter (fun (w, n) ->
    Buffer.add_char rb (match G.c03_chars !pool n with Some c when c = w -> '1' | _ -> '0')) (List.rev !words);
  Printf.printf "readback=%s\n" (if Buffer.length rb = 0 then "-" else Buffer.contents rb);
  Printf.printf "tags=%s\n" (String.concat "," (List.sort compare (Hashtbl.fold (fun k () a -> k :: a) tags [])))

let iter_lines f =
  try while true do f (input_line stdin) done with End_of_file -> ()

let join l = match l with [] -> "-" | _ -> String.concat "," (List.map str l)

let () =
  match Sys.argv with
  | [| _; "c06" |] ->
    List.iter (fun (name, (cat, (acc, (sinks, views)))) ->
      Printf.printf "%s cat=%s full=%s sinks=%s views=%s\n" (str name) (str cat) (join acc) (join sinks) (join views))
      G.c06_rows
  | [| _; "c10" |] -> iter_lines c10_line
  | [| _; "c03" |] -> c03_run ()
  | _ -> prerr_endline "usage: gen_driver <mode>"; exit 2
