(* gen_driver.ml — prints the model's predictions computed from the generated tables. *)
module G = Genmodel

let char_of_ascii (G.Ascii (b0,b1,b2,b3,b4,b5,b6,b7)) =
  let v b i = if b then 1 lsl i else 0 in
  Char.chr (v b0 0 + v b1 1 + v b2 2 + v b3 3 + v b4 4 + v b5 5 + v b6 6 + v b7 7)

let str (s : G.string) : string =
  let b = Buffer.create 16 in
  let rec go (s : G.string) = match s with
    | G.EmptyString -> ()
    | G.String (c, r) -> Buffer.add_char b (char_of_ascii c); go r in
  go s; Buffer.contents b

let rec pos_of_int (n : int) : G.positive =
  if n = 1 then G.XH else if n land 1 = 0 then G.XO (pos_of_int (n lsr 1)) else G.XI (pos_of_int (n lsr 1))
let n_of_int (n : int) : G.n = if n = 0 then G.N0 else G.Npos (pos_of_int n)
let rec int_of_pos (p : G.positive) : int =
  match p with G.XH -> 1 | G.XO q -> 2 * int_of_pos q | G.XI q -> 2 * int_of_pos q + 1
let int_of_n (x : G.n) : int = match x with G.N0 -> 0 | G.Npos p -> int_of_pos p

let ascii_of_char (c : char) : G.ascii =
  let n = Char.code c in
  let b i = (n lsr i) land 1 = 1 in
  G.Ascii (b 0, b 1, b 2, b 3, b 4, b 5, b 6, b 7)
let coq_string (s : string) : G.string =
  let r = ref G.EmptyString in
  for i = String.length s - 1 downto 0 do r := G.String (ascii_of_char s.[i], !r) done; !r

let unhex (h : string) : string =
  String.init (String.length h / 2) (fun i -> Char.chr (int_of_string ("0x" ^ String.sub h (2 * i) 2)))
let hex_of (s : string) : string =
  String.concat "" (List.init (String.length s) (fun i -> Printf.sprintf "%02x" (Char.code s.[i])))

let c10_line (line : string) : unit =
  match List.filter (fun w -> w <> "") (String.split_on_char ' ' line) with
  | ["TABLES"] ->
    List.iter (fun q ->
      List.iteri (fun i w ->
        match G.c10_project q w with
        | Some x -> Printf.printf "%c %d %s %x\n" (if q then 'Q' else 'S') i (str w) (int_of_n x)
        | None -> Printf.printf "%c %d %s NONE\n" (if q then 'Q' else 'S') i (str w)) (G.c10_table q)) [false; true];
    (* named accessors, in the order the C++ driver prints them *)
    let order = ["export_specifier"; "static_specifier"; "extern_specifier"; "mutable_specifier";
                 "thread_local_specifier"; "register_specifier"; "inline_specifier"; "constexpr_specifier";
                 "consteval_specifier"; "virtual_specifier"; "abstract_specifier"; "explicit_specifier";
                 "friend_specifier"; "typedef_specifier"; "public_specifier"; "protected_specifier";
                 "private_specifier"; "const_qualifier"; "volatile_qualifier"; "restrict_qualifier"] in
    List.iter (fun name ->
      let row = List.find_opt (fun (n, _) -> str n = name) G.c10_accessors in
      let v = match row with
        | Some (_, G.AccSpecifierWord w) -> G.c10_project false w
        | Some (_, G.AccQualifierWord w) -> G.c10_project true w
        | _ -> None in
      match v with
      | Some x -> Printf.printf "A %s %x\n" name (int_of_n x)
      | None -> Printf.printf "A %s NONE\n" name) order
  | ["ALL"; k] ->
    let q = (k = "q") in
    let n = List.length (G.c10_table q) in
    for m = 0 to (1 lsl n) - 1 do
      let u = G.c10_union q (n_of_int m) in
      let d = G.c10_decomp q u in
      Printf.printf "U %s %x %x %x %d\n" k m (int_of_n u) (int_of_n (G.c10_decomp_mask q u)) (List.length d)
    done
  | ["B"; k; a; b] ->
    let q = (k = "q") in
    let ma = int_of_string ("0x" ^ a) and mb = int_of_string ("0x" ^ b) in
    let sa = G.c10_union q (n_of_int ma) and sb = G.c10_union q (n_of_int mb) in
    let dm x = int_of_n (G.c10_decomp_mask q x) in
    Printf.printf "B %s %x %x %x %x %x %d 1\n" k ma mb (dm (G.N.coq_lor sa sb)) (dm (G.N.coq_land sa sb))
      (dm (G.N.coq_lxor sa sb)) (if G.implies sa sb then 1 else 0)
  | ["R"; k; h] ->
    let q = (k = "q") in
    (match G.c10_project q (coq_string (unhex h)) with
     | Some x -> Printf.printf "R %s %s %x\n" k h (int_of_n x)
     | None -> Printf.printf "R %s %s refused\n" k h)
  | _ -> ()

(* ---- C03 ---- *)
let rec nat_of_int (n : int) : G.nat = if n <= 0 then G.O else G.S (nat_of_int (n - 1))
let rec int_of_nat (n : G.nat) : int = match n with G.O -> 0 | G.S m -> 1 + int_of_nat m
let int_of_z (x : G.z) : int = match x with G.Z0 -> 0 | G.Zpos p -> int_of_pos p | G.Zneg p -> - (int_of_pos p)

let gen_bytes len seed =
  List.init len (fun i -> n_of_int ((seed * 31 + i * 131 + (i lsr 8) * 7 + (i lsr 16)) land 0xff))

let c03_run () =
  let pool = ref G.pool_init in
  let ids : (G.strnode, int) Hashtbl.t = Hashtbl.create 1024 in
  let words = ref [] in
  let lineno = ref 0 in
  let tags = Hashtbl.create 8 in
  (try while true do
    let line = input_line stdin in
    let w = match List.filter (fun x -> x <> "") (String.split_on_char ' ' line) with
      | ["H"; "-"] -> Some []
      | ["H"; h] -> Some (List.init (String.length h / 2) (fun i -> n_of_int (int_of_string ("0x" ^ String.sub h (2 * i) 2))))
      | ["G"; len; seed] -> Some (gen_bytes (int_of_string len) (int_of_string seed))
      | _ -> None in
    match w with
    | None -> ()
    | Some w ->
      let ((p', n), tag) = G.c03_intern !pool w in
      pool := p';
      Hashtbl.replace tags (match tag with G.IEmpty -> "empty" | G.IReserved -> "reserved" | G.IHit -> "hit"
                                          | G.IMissCollide -> "miss-collide" | G.IMiss -> "miss") ();
      let fresh = not (Hashtbl.mem ids n) in
      if fresh then Hashtbl.replace ids n !lineno;
      let place = match n with
        | G.SDynamic i when fresh ->
          (match G.c03_node_block p' i with
           | Some b -> Printf.sprintf "pool=%d off=%d" (int_of_nat b.G.b_pool) (int_of_z b.G.b_off)
           | None -> "pool=? off=?")
        | _ -> "pool=- off=-" in
      let cst = if List.length w <= 64 then (match n with G.SDynamic _ -> "0" | _ -> "1") else "-" in
      Printf.printf "id=%d new=%d %s const=%s\n" (Hashtbl.find ids n) (if fresh then 1 else 0) place cst;
      words := (w, n) :: !words;
      incr lineno
  done with End_of_file -> ());
  let rb = Buffer.create 64 in
  List.iter (fun (w, n) ->
    Buffer.add_char rb (match G.c03_chars !pool n with Some c when c = w -> '1' | _ -> '0')) (List.rev !words);
  Printf.printf "readback=%s\n" (if Buffer.length rb = 0 then "-" else Buffer.contents rb);
  Printf.printf "tags=%s\n" (String.concat "," (List.sort compare (Hashtbl.fold (fun k () a -> k :: a) tags [])))


(* ---- lexicon requests (C01 C04 C11 C13) ---- *)
exception Bad of string

let builtin_accessor_enum = [
  "void","Void"; "bool","Bool"; "char","Char"; "schar","Schar"; "uchar","Uchar"; "wchar_t","Wchar_t";
  "char8_t","Char8_t"; "char16_t","Char16_t"; "char32_t","Char32_t"; "short","Short"; "ushort","Ushort";
  "int","Int"; "uint","Uint"; "long","Long"; "ulong","Ulong"; "long_long","Long_long";
  "ulong_long","Ulong_long"; "float","Float"; "double","Double"; "long_double","Long_double";
  "ellipsis","Ellipsis"; "typename","Typename"; "class","Class"; "union","Union"; "enum","Enum";
  "namespace","Namespace" ]

let index_of x l =
  let rec go i = function [] -> None | y :: r -> if y = x then Some i else go (i + 1) r in go 0 l

let fundamental = List.map str G.lex_fundamental
let builtin_words = List.map int_of_nat G.lex_builtin_words

let builtin_row (acc : string) : int =
  match List.assoc_opt acc builtin_accessor_enum with
  | Some e -> (match index_of e fundamental with Some i -> i | None -> raise (Bad ("no builtin " ^ acc)))
  | None -> raise (Bad ("unknown constant " ^ acc))

let symconst = ["false", 0; "true", 1; "nullptr", 2; "default", 3; "delete", 4]

let rec lex_constant (n : string) : G.nid =
  match n with
  | "nulltype" -> G.NullType | "c_link" -> G.CLink | "cxx_link" -> G.CxxLink
  | "natural" -> G.NaturalXfer | "natural_cc" -> G.NaturalCC | "empty_string" -> G.StrEmpty
  | _ when List.mem_assoc n symconst -> G.SymConst (nat_of_int (List.assoc n symconst))
  | _ when String.length n > 7 && String.sub n 0 7 = "nameof:" ->
    let b = builtin_row (String.sub n 7 (String.length n - 7)) in
    G.WordId (nat_of_int (List.nth builtin_words b))
  | _ when String.length n > 8 && String.sub n 0 8 = "symname:" ->
    let c = String.sub n 8 (String.length n - 8) in
    if not (List.mem_assoc c symconst) then raise (Bad "not a symbol");
    G.WordId (G.ix_of (coq_string c))
  | _ -> G.Builtin (nat_of_int (builtin_row n))

let lex_run () =
  let tbl = ref [] in
  let results : G.nid option array ref = ref (Array.make 1024 None) in
  let nres = ref 0 in
  let push r =
    if !nres >= Array.length !results then begin
      let a = Array.make (2 * Array.length !results) None in
      Array.blit !results 0 a 0 !nres; results := a end;
    !results.(!nres) <- r; incr nres in
  let first : (G.nid, int) Hashtbl.t = Hashtbl.create 4096 in
  let operand (tok : string) : G.nid =
    if tok = "" then raise (Bad "empty operand");
    match tok.[0] with
    | '%' -> let k = int_of_string (String.sub tok 1 (String.length tok - 1)) in
      if k >= !nres then raise (Bad "operand refers to a line without an answer");
      (match !results.(k) with Some n -> n | None -> raise (Bad "operand refers to a line without an answer"))
    | '$' -> lex_constant (String.sub tok 1 (String.length tok - 1))
    | '@' -> let k = int_of_string (String.sub tok 2 (String.length tok - 2)) in
      let base = match tok.[1] with 't' -> 0 | 'e' -> 8 | 'm' -> 16 | 'l' -> 24 | _ -> raise (Bad "bad operand") in
      G.Ext (nat_of_int (base + k))
    | _ -> raise (Bad ("bad operand " ^ tok)) in
  let word tok =
    if String.length tok < 2 || String.sub tok 0 2 <> "x:" then raise (Bad "bad word");
    let h = String.sub tok 2 (String.length tok - 2) in
    if h = "-" then [] else List.init (String.length h / 2) (fun i -> n_of_int (int_of_string ("0x" ^ String.sub h (2 * i) 2))) in
  let seq tok =
    let inner = String.sub tok 1 (String.length tok - 2) in
    if inner = "" then [] else List.map operand (String.split_on_char ',' inner) in
  let opt a i = if List.length a > i && List.nth a i <> "-" then Some (operand (List.nth a i)) else None in
  let step r = let (m, o) = G.lex_step !tbl r in tbl := m; o in
  let key_of n = G.lex_key_of !tbl n in
  let is_kind kind n =
    (* static typing of the C++ interface, as far as the model can tell: only used to refuse ill-typed scripts *)
    ignore kind; ignore n; true in
  ignore is_kind;
  let lineno = ref 0 in
  (try while true do
    let line = input_line stdin in
    let a = List.filter (fun w -> w <> "") (String.split_on_char ' ' line) in
    let msg, res =
      try
        let arg i = List.nth a i in
        let ident o = match o with
          | Some n -> if not (Hashtbl.mem first n) then Hashtbl.replace first n !lineno;
            ("#" ^ string_of_int (Hashtbl.find first n), Some n)
          | None -> ("refused:logic_error", None) in
        (match a with
         | [] -> ("skip", None)
         | "const" :: n :: _ -> ident (Some (lex_constant n))
         | "pointer" :: _ -> ident (step (G.RPointer (operand (arg 1))))
         | "reference" :: _ -> ident (step (G.RReference (operand (arg 1))))
         | "rvalue_reference" :: _ -> ident (step (G.RRvalueRef (operand (arg 1))))
         | "array" :: _ -> ident (step (G.RArray (operand (arg 1), operand (arg 2))))
         | "qualified" :: _ -> ident (step (G.RQualified (n_of_int (int_of_string (arg 1)), operand (arg 2))))
         | "function" :: _ -> ident (step (G.RFunction (operand (arg 1), operand (arg 2), opt a 3, opt a 4)))
         | "product" :: _ -> ident (step (G.RProduct (seq (arg 1))))
         | "sum" :: _ -> ident (step (G.RSum (seq (arg 1))))
         | "productw" :: _ -> ident (step (G.RProductW (seq (arg 1))))
         | "sumw" :: _ -> ident (step (G.RSumW (seq (arg 1))))
         | "forall" :: _ -> ident (step (G.RForall (operand (arg 1), operand (arg 2))))
         | "ptr_to_member" :: _ -> ident (step (G.RPtrToMember (operand (arg 1), operand (arg 2))))
         | "tor" :: _ -> ident (step (G.RTor (operand (arg 1), operand (arg 2))))
         | "as_type" :: _ -> ident (step (G.RAsType (operand (arg 1), opt a 2)))
         | "as_type_id" :: _ -> ident (step (G.RAsTypeId (operand (arg 1))))
         | "transfer" :: _ -> ident (step (G.RTransfer (operand (arg 1), operand (arg 2))))
         | "transfer_l" :: _ -> ident (step (G.RTransferL (operand (arg 1))))
         | "transfer_c" :: _ -> ident (step (G.RTransferC (operand (arg 1))))
         | "string" :: _ -> ident (step (G.RString (word (arg 1))))
         | "identifier" :: _ -> ident (step (G.RIdentifier (operand (arg 1))))
         | "identifier_w" :: _ ->
           (match step (G.RString (word (arg 1))) with Some s -> ident (step (G.RIdentifier s)) | None -> ident None)
         | "operator" :: _ -> ident (step (G.ROperator (operand (arg 1))))
         | "suffix" :: _ -> ident (step (G.RSuffix (operand (arg 1))))
         | "conversion" :: _ -> ident (step (G.RConversion (operand (arg 1))))
         | "ctor_name" :: _ -> ident (step (G.RCtorName (operand (arg 1))))
         | "dtor_name" :: _ -> ident (step (G.RDtorName (operand (arg 1))))
         | "guide_name" :: _ -> ident (step (G.RGuideName (operand (arg 1))))
         | "template_id" :: _ -> ident (step (G.RTemplateId (operand (arg 1), operand (arg 2))))
         | "logogram" :: _ -> ident (step (G.RLogogram (operand (arg 1))))
         | "symbol" :: _ -> ident (step (G.RSymbol (operand (arg 1), operand (arg 2))))
         | "label" :: _ -> ident (step (G.RLabel (operand (arg 1))))
         | "this" :: _ -> ident (step (G.RThis (operand (arg 1))))
         | "literal" :: _ -> ident (step (G.RLiteral (operand (arg 1), operand (arg 2))))
         | "linkage" :: _ -> ident (step (G.RLinkage (operand (arg 1))))
         | "linkage_w" :: _ ->
           let w = word (arg 1) in
           let s = List.map int_of_n w in
           if s = [67] then ident (Some G.CLink) else if s = [67; 43; 43] then ident (Some G.CxxLink)
           else (match step (G.RString w) with Some s -> ident (step (G.RLinkage s)) | None -> ident None)
         | "convention" :: _ -> ident (step (G.RConvention (operand (arg 1))))
         | "decltype_null" :: _ -> ident (step G.RDecltypeNull)
         | "q_main" :: _ ->
           (match key_of (operand (arg 1)) with Some (G.KQual (_, t)) -> ident (Some t) | _ -> raise (Bad "not qualified"))
         | "q_quals" :: _ ->
           (match key_of (operand (arg 1)) with Some (G.KQual (q, _)) -> ("value:" ^ string_of_int (int_of_n q), None) | _ -> raise (Bad "not qualified"))
         | "is_qualified" :: _ ->
           (match key_of (operand (arg 1)) with Some (G.KQual _) -> ("value:1", None) | _ -> ("value:0", None))
         | "xfer_eq" :: _ ->
           (match G.lex_xfer_val !tbl (operand (arg 1)), G.lex_xfer_val !tbl (operand (arg 2)) with
            | Some x, Some y -> ((if x = y then "value:1" else "value:0"), None) | _ -> raise (Bad "ill-typed operand"))
         | "link_eq" :: _ ->
           (match G.lex_linkage_word !tbl (operand (arg 1)), G.lex_linkage_word !tbl (operand (arg 2)) with
            | Some x, Some y -> ((if x = y then "value:1" else "value:0"), None) | _ -> raise (Bad "ill-typed operand"))
         | "cc_eq" :: _ ->
           (match G.lex_cc_word !tbl (operand (arg 1)), G.lex_cc_word !tbl (operand (arg 2)) with
            | Some x, Some y -> ((if x = y then "value:1" else "value:0"), None) | _ -> raise (Bad "ill-typed operand"))
         | "name_of" :: _ ->
           (match operand (arg 1) with
            | G.Builtin b -> ident (Some (G.WordId (nat_of_int (List.nth builtin_words (int_of_nat b)))))
            | _ -> raise (Bad "name_of: only builtins in the model"))
         | "string_of" :: _ ->
           (match operand (arg 1) with
            | G.WordId k -> ident (Some (G.StrKnown k))
            | n -> (match key_of n with Some (G.K1 (G.CIdentifier, s)) -> ident (Some s) | _ -> raise (Bad "not an identifier")))
         | "builtin" :: _ -> (match operand (arg 1) with G.Builtin _ -> ("value:1", None) | _ -> ("value:0", None))
         | op :: _ -> raise (Bad ("unknown request " ^ op)))
      with Bad m -> ("bad:" ^ m, None)
         | Failure m -> ("bad:" ^ m, None)
         | Invalid_argument m -> ("bad:" ^ m, None) in
    push res;
    Printf.printf "%d = %s\n" !lineno msg;
    incr lineno
  done with End_of_file -> ())

let iter_lines f =
  try while true do f (input_line stdin) done with End_of_file -> ()

let join l = match l with [] -> "-" | _ -> String.concat "," (List.map str l)

let () =
  match Sys.argv with
  | [| _; "c06" |] ->
    List.iter (fun (name, (cat, (acc, (sinks, views)))) ->
      Printf.printf "%s cat=%s full=%s sinks=%s views=%s\n" (str name) (str cat) (join acc) (join sinks) (join views))
      G.c06_rows
  | [| _; "c10" |] -> iter_lines c10_line
  | [| _; "c03" |] -> c03_run ()
  | [| _; "lex" |] -> lex_run ()
  | [| _; "c02" |] ->
    (* stdin: class|name|sorts(,)|args(;)   stdout: D a=v[*] ... | M slot=v ...   ("*" = reached by the static model) *)
    (try while true do
      let line = input_line stdin in
      if line <> "" then begin
        match String.split_on_char '|' line with
        | [cls; name; sorts; args] ->
          let sorts = if sorts = "" then [] else String.split_on_char ',' sorts in
          let args = if args = "-" || args = "" then [] else String.split_on_char ';' args in
          (match G.c02_find (coq_string cls) (coq_string name) (List.map coq_string sorts) with
           | None -> print_endline "NOFACTORY"
           | Some f ->
             let cargs = List.map coq_string args in
             let d = match G.c02_expect f cargs with
               | None -> "NODOC"
               | Some rows -> String.concat " " (List.map (fun (a, (v, m)) -> str a ^ "=" ^ str v ^ (if m then "*" else "")) rows) in
             let m = match G.c02_model_node f cargs with
               | None -> "OPAQUE"
               | Some rows -> String.concat " " (List.map (fun (a, v) -> str a ^ "=" ^ str v) rows) in
             Printf.printf "D %s | M %s\n" d m)
        | _ -> print_endline "BADLINE"
      end
    done with End_of_file -> ())
  | [| _; "c09-rules" |] ->
    let show_rule r = match r with
      | G.Fixed k -> "Fixed " ^ str k | G.Borrow a -> "Borrow " ^ str a | G.FirstOperand -> "FirstOperand -"
      | G.Stored -> "Stored -" | G.DeclType -> "DeclType -" | G.Members -> "Members -" | G.NoRule w -> "NoRule " ^ str w in
    List.iter (fun (c, r) -> Printf.printf "%s %s | %s\n" (str c) (show_rule r) (show_rule (G.c09_source_rule c))) G.c09_prescribed
  | [| _; "c09-growth" |] ->
    (* stdin: kind t0 t1 ...   stdout: the member types after 0, 1, ... additions, as the model computes them *)
    let rec nat_of_int n = if n <= 0 then G.O else G.S (nat_of_int (n - 1)) in
    let rec int_of_nat = function G.O -> 0 | G.S m -> 1 + int_of_nat m in
    (try while true do
      let line = input_line stdin in
      match List.filter (fun w -> w <> "") (String.split_on_char ' ' line) with
      | kind :: ts ->
        let r = G.c09_growth (coq_string kind) (List.map (fun t -> nat_of_int (int_of_string t)) ts) in
        let rec show v = match v with
          | G.TNode t -> string_of_int (int_of_nat t) | G.TBuiltin k -> "$" ^ str k | G.TRefused -> "E"
          | G.TProduct l -> "[" ^ String.concat "," (List.map show l) ^ "]" in
        print_endline (String.concat "|" (List.map show r))
      | [] -> ()
    done with End_of_file -> ())
  | [| _; "c05" |] ->
    (* stdin: one history per line: tokens  m (make a node)  |  a<n>:<m> (node n gains member m)
       stdout: the member count of every node after the history, comma separated *)
    let rec nat_of_int n = if n <= 0 then G.O else G.S (nat_of_int (n - 1)) in
    (try while true do
      let line = input_line stdin in
      let toks = List.filter (fun w -> w <> "") (String.split_on_char ' ' line) in
      let ops = List.map (fun t ->
        if t = "m" then G.HMake (G.EmptyString, [], None)
        else match String.split_on_char ':' (String.sub t 1 (String.length t - 1)) with
          | [n; m] -> G.HAdd (nat_of_int (int_of_string n), nat_of_int (int_of_string m))
          | _ -> failwith "bad token") toks in
      print_endline (String.concat "," (List.map (fun l -> string_of_int (List.length l)) (G.c05_members ops)))
    done with End_of_file -> ())
  | [| _; "c18-escape" |] ->
    (* stdin: hex spellings; stdout: hex of what the literal printer writes per the regenerated switch table, or NONE *)
    (try while true do
      let line = String.trim (input_line stdin) in
      if line <> "" then begin
        let sp = if line = "-" then "" else unhex line in
        let bytes = List.init (String.length sp) (fun i -> n_of_int (Char.code sp.[i])) in
        match G.c18_escape bytes with
        | Some out -> print_endline (let s = String.concat "" (List.map (fun b -> Printf.sprintf "%02x" (int_of_n b)) out) in if s = "" then "-" else s)
        | None -> print_endline "NONE"
      end
    done with End_of_file -> ())
  | [| _; "c02-list" |] ->
    List.iter (fun f -> Printf.printf "%s|%s|%s|%b|%s\n" (str f.G.gf_class) (str f.G.gf_name)
                  (String.concat "," (List.map str f.G.gf_sorts)) (G.c02_exempt f) (str f.G.gf_body)) G.c02_factories
  | _ -> prerr_endline "usage: gen_driver <mode>"; exit 2
