(* gen_driver.ml — prints the model's predictions computed from the generated tables. *)
module G = Genmodel

let char_of_ascii (G.Ascii (b0,b1,b2,b3,b4,b5,b6,b7)) =
  let v b i = if b then 1 lsl i else 0 in
  Char.chr (v b0 0 + v b1 1 + v b2 2 + v b3 3 + v b4 4 + v b5 5 + v b6 6 + v b7 7)

let str (s : G.string) : string =
  let b = Buffer.create 16 in
  let rec go (s : G.string) = match s with
    | G.EmptyString -> ()
    | G.String (c, r) -> Buffer.add_char b (char_of_ascii c); go r in
  go s; Buffer.contents b

let join l = match l with [] -> "-" | _ -> String.concat "," (List.map str l)

let () =
  match Sys.argv with
  | [| _; "c06" |] ->
    List.iter (fun (name, (cat, (acc, (sinks, views)))) ->
      Printf.printf "%s cat=%s full=%s sinks=%s views=%s\n" (str name) (str cat) (join acc) (join sinks) (join views))
      G.c06_rows
  | _ -> prerr_endline "usage: gen_driver <mode>"; exit 2
