// fsweep_calls.h — shared by fsweep_driver.cxx and the generated parts of its dispatcher.
#ifndef IPRV_FSWEEP_CALLS_H
#define IPRV_FSWEEP_CALLS_H
#include "fsweep.h"
#include <iostream>
#include <sstream>
#include <functional>

using namespace iprv;

template<class R> static std::string dump_result(const R& r)
{
   if constexpr (std::is_pointer_v<R>) {
      if (r == nullptr) return "null";
      self_ptr() = ident(*r);
      auto s = dump(as_iface(*r));
      self_ptr() = nullptr;
      return s;
   }
   else {
      self_ptr() = ident(r);
      auto s = dump(as_iface(r));
      self_ptr() = nullptr;
      return s;
   }
}

// ---- every result is remembered so that the history mode (C05) can re-observe it later ----
struct Remembered {
   std::string key, args, first;              // how it was made, and what was observed when it was made
   const void* addr = nullptr;                // identity at creation
   std::function<const void*()> where;        // identity now
   std::function<std::string()> redump;       // observation now
   bool container = false;                    // a node that legitimately gains members later
};
inline std::vector<Remembered>& remembered() { static std::vector<Remembered> v; return v; }
inline bool& history_mode() { static bool b = false; return b; }

template<class T> void remember_obj(const std::string& key, const std::string& args, const T& obj, const std::string& first, bool container = false)
{
   Remembered m;
   m.key = key; m.args = args; m.first = first; m.container = container;
   const T* p = &obj;
   m.addr = ident(obj);
   m.where = [p] { return ident(*p); };
   m.redump = [p] { self_ptr() = ident(*p); auto s = guarded([&] { return dump(as_iface(*p)); }); self_ptr() = nullptr; return s; };
   remembered().push_back(std::move(m));
}

template<class R> void remember(const char* key, const std::string& args, R&& r, const std::string& first)
{
   using U = std::remove_reference_t<R>;
   if constexpr (std::is_pointer_v<U>) { if (r != nullptr) remember_obj(key, args, *r, first); }
   else if constexpr (std::is_lvalue_reference_v<R>) remember_obj(key, args, r, first);
}

#define SWEEP(KEY, ARGS, CALL) \
   { std::string d = guarded([&] { decltype(auto) r = CALL; auto s = dump_result(r); \
                                   if (history_mode()) remember<decltype(CALL)>(KEY, ARGS, static_cast<decltype(CALL)>(r), s); return s; }); \
     if (not history_mode()) std::printf("F %s args=%s :: %s\n", KEY, ARGS.c_str(), d.c_str()); }

static inline long U(long i, long n) { return ((i % n) + n) % n; }

// a spelling handed to the library through a buffer that is reused for the next spelling (not NUL-terminated)
static inline ipr::util::word_view scratch_word(const std::u8string& s)
{
   static char8_t buffer[64];
   std::size_t n = s.size() < sizeof buffer ? s.size() : sizeof buffer;
   for (std::size_t i = 0; i < sizeof buffer; ++i) buffer[i] = i < n ? s[i] : char8_t('#');
   return { buffer, n };
}

#endif
