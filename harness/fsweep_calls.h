// fsweep_calls.h — shared by fsweep_driver.cxx and the generated parts of its dispatcher.
#ifndef IPRV_FSWEEP_CALLS_H
#define IPRV_FSWEEP_CALLS_H
#include "fsweep.h"
#include <iostream>
#include <sstream>

using namespace iprv;

template<class R> static std::string dump_result(const R& r)
{
   if constexpr (std::is_pointer_v<R>) {
      if (r == nullptr) return "null";
      self_ptr() = ident(*r);
      auto s = dump(as_iface(*r));
      self_ptr() = nullptr;
      return s;
   }
   else {
      self_ptr() = ident(r);
      auto s = dump(as_iface(r));
      self_ptr() = nullptr;
      return s;
   }
}

#define SWEEP(KEY, ARGS, CALL) \
   { std::string d = guarded([&] { auto&& r = CALL; return dump_result(r); }); \
     std::printf("F %s args=%s :: %s\n", KEY, ARGS.c_str(), d.c_str()); }

static inline long U(long i, long n) { return ((i % n) + n) % n; }

#endif
